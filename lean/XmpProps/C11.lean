import XmpProofs.TestLoad
/-!
# C11 — Test and load agree, and testing has no side effects

Property theorems over the model `XmpModel.TestLoad` (src/load.c `test_module`, `load_module`,
the eight public wrappers; loaders/common.c `libxmp_copy_adjust`, `libxmp_read_title`;
load_helpers.c `libxmp_adjust_string`; prowizard/prowiz.c `pw_check`'s writes into `info`).

Every loader (`test`, `load`), `pw_check` and `libxmp_decrunch` is a parameter: the theorems hold
for EVERY loader table and every stream.  What the theorems assume about the loaders is spelled
out in `Premise` (a probe only reads the stream, and its verdict does not depend on whether a
title buffer is passed) and `NonPos` (a probe never answers with a positive value); both are
checked on the real `format_loaders[]` for every input the oracle runs (harness/c11_agree.c).
-/
namespace Xmp.TestLoad

/-! ## constants (regenerated from the headers on every run) -/

theorem C11_codes_distinct :
    eFormat ≠ 0 ∧ eFormat ≠ eLoad ∧ eFormat ≠ eSystem ∧ eFormat ≠ eDepack ∧ eFormat ≠ eInvalid ∧
    eDepack ≠ 0 ∧ eSystem ≠ 0 ∧ eInvalid ≠ 0 ∧ eLoad ≠ 0 := by decide

/-- `libxmp_prepare_scan` can only yield 0, −LOAD or −SYSTEM (generated list of its `return`s) -/
theorem C11_prepare_scan_codes :
    ∀ v ∈ Gen.prepareScanReturns, v = 0 ∨ v = eLoad ∨ v = eSystem := by decide

/-- the name that triggers the ProWizard special case occurs exactly once in `format_loaders[]`,
and every format name (loader or ProWizard) fits `xmp_test_info.type` with its terminator -/
theorem C11_table_names :
    (Gen.formatLoaderNames.filter (· == "prowizard")).length = 1 ∧
    (∀ n ∈ Gen.formatLoaderNames, n.utf8ByteSize < Gen.XMP_NAME_SIZE - 1) ∧
    (∀ n ∈ Gen.pwFormatNames, n.utf8ByteSize < Gen.XMP_NAME_SIZE - 1) ∧
    Gen.pwTitleCopy ≤ Gen.pwTitleBuf ∧ Gen.pwTitleCopy ≤ Gen.XMP_NAME_SIZE := by decide

/-! ## C11_agree -/

/-- what `libxmp_prepare_scan` may return (tie: `Gen.prepareScanReturns`) -/
def PrepOk (ls : List Loader) : Prop :=
  ∀ l ∈ ls, ∀ s, (l.load s).prep ∈ Gen.prepareScanReturns

theorem loadModule_format (e : Env) (s : Stream) (h : (loadWalk e.loaders s (-1)).1 < 0) :
    loadModule e s = { rc := eFormat, recognized := false } := by
  unfold loadModule
  generalize loadWalk e.loaders s (-1) = W at h
  obtain ⟨tr, sel, s2⟩ := W
  have h' : tr < 0 := h
  simp only [h', if_true]

theorem loadModule_sel (e : Env) (s : Stream) (l : Loader) (o : LoadOut)
    (h0 : ¬ (loadWalk e.loaders s (-1)).1 < 0) (hs : (loadWalk e.loaders s (-1)).2.1 = some (l, o)) :
    (loadModule e s).recognized = true ∧
    ((loadModule e s).rc = eLoad ∨ ((loadModule e s).rc = o.prep ∧ o.prep < 0) ∨ (loadModule e s).rc = 0) := by
  unfold loadModule
  generalize loadWalk e.loaders s (-1) = W at h0 hs
  obtain ⟨tr, sel, s2⟩ := W
  have h0' : ¬ tr < 0 := h0
  have hs' : sel = some (l, o) := hs
  subst hs'
  simp only [h0', if_false]
  split
  · exact ⟨rfl, Or.inl rfl⟩
  · split
    · exact ⟨rfl, Or.inl rfl⟩
    · split
      · rename_i hneg; exact ⟨rfl, Or.inr (Or.inl ⟨rfl, hneg⟩)⟩
      · split
        · exact ⟨rfl, Or.inl rfl⟩
        · exact ⟨rfl, Or.inr (Or.inr rfl)⟩

/-- **C11_agree** (core): for every loader table and every stream, `test_module` returns 0
exactly when `load_module` gets past format recognition (and then load returns 0, −LOAD or
−SYSTEM), it returns −FORMAT exactly when `load_module` does, and it returns nothing else. -/
theorem C11_agree (e : Env) (s : Stream) (info : Option Info)
    (hp : Premise e.loaders) (hn : NonPos e.loaders) (hprep : PrepOk e.loaders) :
    ((testModule e s info).1 = 0 ↔ (loadModule e s).recognized = true) ∧
    ((testModule e s info).1 = eFormat ↔ (loadModule e s).rc = eFormat) ∧
    ((testModule e s info).1 = 0 ∨ (testModule e s info).1 = eFormat) ∧
    ((loadModule e s).recognized = true →
      (loadModule e s).rc = 0 ∨ (loadModule e s).rc = eLoad ∨ (loadModule e s).rc = eSystem) := by
  have hw := walks_agree e e.loaders hp s s (if Gen.testBufInit = 1 then set0 e.bufGarbage else e.bufGarbage)
    (resetInfo info) (-1) rfl
  have hiff : (testModule e s info).1 = 0 ↔ (loadWalk e.loaders s (-1)).2.1.isSome = true := hw.1
  have hor : (testModule e s info).1 = 0 ∨ (testModule e s info).1 = eFormat := hw.2
  have hd := C11_codes_distinct
  cases hsel : (loadWalk e.loaders s (-1)).2.1 with
  | none =>
    have htr := loadWalk_none_neg e.loaders hn s (-1) (by decide) (by rw [hsel]; rfl)
    have hL := loadModule_format e s htr
    have ht : (testModule e s info).1 ≠ 0 := fun h => by
      have := hiff.mp h; rw [hsel] at this; simp at this
    have ht' : (testModule e s info).1 = eFormat := hor.resolve_left ht
    rw [hL, ht']
    exact ⟨⟨fun h => absurd h hd.1, fun h => by simp at h⟩, ⟨fun _ => rfl, fun _ => rfl⟩, Or.inr rfl,
      fun h => by simp at h⟩
  | some lo =>
    obtain ⟨l, o⟩ := lo
    have htr0 : (loadWalk e.loaders s (-1)).1 = 0 := loadWalk_some_tr e.loaders s (-1) (by rw [hsel]; rfl)
    have h0 : ¬ (loadWalk e.loaders s (-1)).1 < 0 := by rw [htr0]; decide
    obtain ⟨hrec, hrc⟩ := loadModule_sel e s l o h0 hsel
    have ht : (testModule e s info).1 = 0 := hiff.mpr (by rw [hsel]; rfl)
    obtain ⟨hlm, s', ho⟩ := loadWalk_sel_mem e.loaders s (-1) l o hsel
    have hpr := hprep l hlm s'
    rw [← ho] at hpr
    have hpc := C11_prepare_scan_codes o.prep hpr
    have rc3 : (loadModule e s).rc = 0 ∨ (loadModule e s).rc = eLoad ∨ (loadModule e s).rc = eSystem := by
      rcases hrc with h | ⟨h, hneg⟩ | h
      · exact Or.inr (Or.inl h)
      · rcases hpc with h' | h' | h'
        · rw [h'] at hneg; exact absurd hneg (by decide)
        · exact Or.inr (Or.inl (h.trans h'))
        · exact Or.inr (Or.inr (h.trans h'))
      · exact Or.inl h
    rw [ht]
    refine ⟨⟨fun _ => hrec, fun _ => rfl⟩, ⟨fun h => absurd h.symm hd.1, fun h => ?_⟩, Or.inl rfl, fun _ => rc3⟩
    rcases rc3 with h' | h' | h' <;> rw [h'] at h
    · exact absurd h.symm hd.1
    · exact absurd h.symm hd.2.1
    · exact absurd h.symm hd.2.2.1

/-- Without `NonPos` the agreement fails: a last loader whose probe answers with a positive
value makes `load_module` report −LOAD (its `load_result` is still −1) where `test_module`
reports −FORMAT.  (No loader of the real table does this; the oracle checks it per input.) -/
def posLoader : Loader :=
  { name := [65], test := fun s _ => { rc := 1, st := s }, load := fun _ => { rc := 0, name := [] } }

theorem C11_agree_needs_nonpos :
    let e : Env := { loaders := [posLoader], pw := fun _ => none, bufGarbage := [], pwGarbage := [] }
    (testModule e { data := [1] } none).1 = eFormat ∧ (loadModule e { data := [1] }).rc = eLoad := by
  decide

/-! ### the wrappers -/

theorem openSource_pos (src : Source) (h : Handle) (s : Stream) (ho : openSource src = .ok (h, s)) :
    s.rewind = s := by
  cases src with
  | path st =>
    cases st with
    | none => simp [openSource] at ho
    | some v =>
      obtain ⟨a, b, c, d⟩ := v
      simp only [openSource] at ho
      split at ho
      · simp at ho
      · split at ho
        · simp at ho
        · simp only [Except.ok.injEq, Prod.mk.injEq] at ho
          rw [← ho.2]; rfl
  | memory d n =>
    simp only [openSource] at ho
    split at ho
    · simp at ho
    · simp only [Except.ok.injEq, Prod.mk.injEq] at ho
      rw [← ho.2]; rfl
  | file i d ok =>
    simp only [openSource] at ho
    split at ho
    · simp only [Except.ok.injEq, Prod.mk.injEq] at ho
      rw [← ho.2]; rfl
    · simp at ho
  | callbacks ok d =>
    simp only [openSource] at ho
    split at ho
    · simp only [Except.ok.injEq, Prod.mk.injEq] at ho
      rw [← ho.2]; rfl
    · simp at ho

theorem openSource_err (src : Source) (rc : Int) (ho : openSource src = .error rc) :
    rc = eSystem ∨ rc = eInvalid := by
  cases src with
  | path st =>
    cases st with
    | none => simp [openSource] at ho; exact Or.inl ho.symm
    | some v =>
      obtain ⟨a, b, c, d⟩ := v
      simp only [openSource] at ho
      split at ho
      · simp at ho; exact Or.inl ho.symm
      · split at ho
        · simp at ho; exact Or.inl ho.symm
        · simp at ho
  | memory d n =>
    simp only [openSource] at ho
    split at ho
    · simp at ho; exact Or.inr ho.symm
    · simp at ho
  | file i d ok =>
    simp only [openSource] at ho
    split at ho
    · simp at ho
    · simp at ho; exact Or.inl ho.symm
  | callbacks ok d =>
    simp only [openSource] at ho
    split at ho
    · simp at ho
    · simp at ho; exact Or.inl ho.symm

/-- `info` as the wrappers pass it on: emptied first if the source does so (generated fact) -/
def wrapInfo (info : Option Info) : Option Info := if Gen.wrappersResetInfo then resetInfo info else info

theorem xmpTest_open_error (e : Env) (decr : Stream → Decr) (src : Source) (info : Option Info) (w : World)
    (rc : Int) (ho : openSource src = .error rc) :
    xmpTest e decr src info w = { rc := rc, info := wrapInfo info, world := w } := by
  unfold xmpTest; rw [ho]; rfl

theorem xmpLoad_open_error (e : Env) (decr : Stream → Decr) (src : Source) (w : World)
    (rc : Int) (ho : openSource src = .error rc) :
    xmpLoad e decr src w = { rc := rc, loaded := none, world := w } := by
  unfold xmpLoad; rw [ho]

/-- what the test wrapper does once the handle is open -/
def testAfter (e : Env) (info : Option Info) (w : World) (h : Handle) :
    Option (World × Handle × Stream) → TestResult
  | none => { rc := eDepack, info := info, world := closeInternal w h }
  | some (w1, h1, s1) =>
    { rc := (testModule e s1 info).1, info := (testModule e s1 info).2.1, world := closeInternal w1 h1 }

/-- what the load wrapper does once the handle is open -/
def loadAfter (e : Env) (w : World) (h : Handle) : Option (World × Handle × Stream) → LoadResult
  | none => { rc := eDepack, loaded := none, world := closeInternal w h }
  | some (w1, h1, s1) => { rc := (loadModule e s1).rc, loaded := some (loadModule e s1), world := closeInternal w1 h1 }

theorem xmpTest_ok (e : Env) (decr : Stream → Decr) (src : Source) (info : Option Info) (w : World)
    (h : Handle) (s : Stream) (ho : openSource src = .ok (h, s)) :
    xmpTest e decr src info w =
      testAfter e (wrapInfo info) w h (if testDepacks src then applyDecr w h s (decr s) else some (w, h, s)) := by
  unfold xmpTest; rw [ho]
  simp only
  split <;> rename_i heq <;> rw [heq] <;> rfl

theorem xmpLoad_ok (e : Env) (decr : Stream → Decr) (src : Source) (w : World)
    (h : Handle) (s : Stream) (ho : openSource src = .ok (h, s)) :
    xmpLoad e decr src w =
      loadAfter e w h (if loadDepacks src then applyDecr w h s (decr s) else some (w, h, s)) := by
  unfold xmpLoad; rw [ho]
  simp only
  split <;> rename_i heq <;> rw [heq] <;> rfl

/-- after the depack step both wrappers stand on the same stream, or both gave up -/
theorem after_same (src : Source) (w : World) (h : Handle) (s : Stream) (decr : Stream → Decr)
    (ho : openSource src = .ok (h, s))
    (hsame : testDepacks src = loadDepacks src ∨ ∀ h s, openSource src = .ok (h, s) → decr s = .notPacked) :
    ((if testDepacks src then applyDecr w h s (decr s) else some (w, h, s)) = none ∧
     (if loadDepacks src then applyDecr w h s (decr s) else some (w, h, s)) = none) ∨
    ∃ w1 h1 w2 h2 s1,
      (if testDepacks src then applyDecr w h s (decr s) else some (w, h, s)) = some (w1, h1, s1) ∧
      (if loadDepacks src then applyDecr w h s (decr s) else some (w, h, s)) = some (w2, h2, s1) := by
  have hrw := openSource_pos src h s ho
  by_cases ht : testDepacks src = true
  · by_cases hl : loadDepacks src = true
    · simp only [ht, hl, if_true]
      cases decr s with
      | notPacked => exact Or.inr ⟨_, _, _, _, _, rfl, rfl⟩
      | depacked d => exact Or.inr ⟨_, _, _, _, _, rfl, rfl⟩
      | fail => exact Or.inl ⟨rfl, rfl⟩
    · have hnp : decr s = .notPacked := by
        rcases hsame with h' | h'
        · rw [ht] at h'; exact absurd h'.symm hl
        · exact h' h s ho
      simp only [ht, hl, if_true, hnp, applyDecr, hrw]
      exact Or.inr ⟨_, _, _, _, _, rfl, rfl⟩
  · by_cases hl : loadDepacks src = true
    · exfalso
      cases src <;> simp [testDepacks, loadDepacks] at ht hl
    · simp only [ht, hl]
      exact Or.inr ⟨_, _, _, _, _, rfl, rfl⟩

/-- **C11_agree** (entry points): for each of the four pairs, when both wrappers treat the depack
step alike (path, memory, callbacks) or the input is not a container (`libxmp_decrunch` leaves
the stream alone — the FILE pair, where only testing unpacks), the test wrapper returns 0
exactly when the load wrapper gets past recognition, −FORMAT exactly when load does, and
otherwise both report the same open/argument/depack error and load never reaches recognition. -/
theorem C11_agree_wrappers (e : Env) (decr : Stream → Decr) (src : Source) (info : Option Info) (w : World)
    (hp : Premise e.loaders) (hn : NonPos e.loaders) (hprep : PrepOk e.loaders)
    (hsame : testDepacks src = loadDepacks src ∨
      ∀ h s, openSource src = .ok (h, s) → decr s = .notPacked) :
    ((xmpTest e decr src info w).rc = 0 ↔
        ∃ r, (xmpLoad e decr src w).loaded = some r ∧ r.recognized = true) ∧
    ((xmpTest e decr src info w).rc = eFormat ↔ (xmpLoad e decr src w).rc = eFormat) ∧
    ((xmpTest e decr src info w).rc ≠ 0 → (xmpTest e decr src info w).rc ≠ eFormat →
        (xmpLoad e decr src w).rc = (xmpTest e decr src info w).rc ∧ (xmpLoad e decr src w).loaded = none) := by
  have hd := C11_codes_distinct
  cases ho : openSource src with
  | error rc =>
    have hrc := openSource_err src rc ho
    rw [xmpTest_open_error e decr src info w rc ho, xmpLoad_open_error e decr src w rc ho]
    refine ⟨⟨fun h => ?_, fun ⟨r, h, _⟩ => by simp at h⟩, Iff.rfl, fun _ _ => ⟨rfl, rfl⟩⟩
    have h' : rc = 0 := h
    rcases hrc with h2 | h2 <;> rw [h2] at h'
    · exact absurd h' hd.2.2.2.2.2.2.1
    · exact absurd h' hd.2.2.2.2.2.2.2.1
  | ok hs =>
    obtain ⟨h, s⟩ := hs
    rw [xmpTest_ok e decr src info w h s ho, xmpLoad_ok e decr src w h s ho]
    rcases after_same src w h s decr ho hsame with ⟨h1, h2⟩ | ⟨w1, h1, w2, h2, s1, e1, e2⟩
    · rw [h1, h2]
      refine ⟨⟨fun h => absurd h hd.2.2.2.2.2.1, fun ⟨r, h, _⟩ => by simp [loadAfter] at h⟩, Iff.rfl,
        fun _ _ => ⟨rfl, rfl⟩⟩
    · rw [e1, e2]
      obtain ⟨a1, a2, a3, _⟩ := C11_agree e s1 (wrapInfo info) hp hn hprep
      refine ⟨⟨fun h => ⟨_, rfl, a1.mp h⟩, fun ⟨r, h, hr⟩ => ?_⟩, a2, fun n0 nf => ?_⟩
      · have : loadModule e s1 = r := by simpa [loadAfter] using h
        rw [← this] at hr
        exact a1.mpr hr
      · rcases a3 with h | h
        · exact absurd h n0
        · exact absurd h nf

/-! ## C11_strings -/

/-- **C11_strings** (failure): whenever `test_module` does not return 0 and `info ≠ NULL`,
both strings are empty. -/
theorem C11_strings_failure (e : Env) (s : Stream) (i : Info) (h : (testModule e s (some i)).1 ≠ 0) :
    ∃ i', (testModule e s (some i)).2.1 = some i' ∧ cstr i'.name = [] ∧ cstr i'.type = [] := by
  unfold testModule at h ⊢
  rw [testWalk_fail_info e _ _ _ _ h]
  exact ⟨_, rfl, cstr_set0 _, cstr_set0 _⟩

/-- the ProWizard detector that matched stored a terminated title in `title[21]`
(true for every detector that calls `pw_read_title`; not for those that do not — F15) -/
def PwTitleTerminated (e : Env) : Prop :=
  ∀ st h, e.pw st = some h →
    hasNul ((overlayOpt h.title (pwTitleInit e.pwGarbage)).take Gen.pwTitleCopy) = true ∧
    ((overlayOpt h.title (pwTitleInit e.pwGarbage)).take Gen.pwTitleCopy).length ≤ nameSize

/-- ProWizard format names fit (tie: `C11_table_names`) -/
def PwNameShort (e : Env) : Prop :=
  ∀ st h, e.pw st = some h → (cstr h.fname).length < nameSize - 1

/-- **C11_strings** (success): when `test_module` returns 0 both arrays keep their size and hold
a NUL-terminated string — for every loader other than ProWizard unconditionally (whatever the
probe left in the uninitialised `buf`), for ProWizard provided the detector terminated its
title (see `C11_strings_counterexample` for what happens otherwise). -/
theorem C11_strings_success_partial (e : Env) (s : Stream) (i : Info)
    (hw : i.name.length = nameSize ∧ i.type.length = nameSize)
    (hpt : PwTitleTerminated e) (hpn : PwNameShort e)
    (h : (testModule e s (some i)).1 = 0) :
    ∃ i', (testModule e s (some i)).2.1 = some i' ∧ hasNul i'.name = true ∧ hasNul i'.type = true ∧
      i'.name.length = nameSize ∧ i'.type.length = nameSize := by
  unfold testModule resetInfo at h ⊢
  have hn0 : (set0 i.name).length = nameSize := by rw [set0_length]; exact hw.1
  have ht0 : (set0 i.type).length = nameSize := by rw [set0_length]; exact hw.2
  have hpos : 0 < nameSize := by decide
  rcases testWalk_ok_info e _ _ _ _ h with ⟨l, _, st, _, hr⟩ | ⟨l, _, b, _, hr⟩
  · rw [hr]
    simp only [Option.map_some]
    cases hpw : e.pw st with
    | none =>
      refine ⟨_, rfl, ?_, ?_, ?_, ?_⟩ <;> simp only [pwFill]
      · exact hasNul_set0 (by omega)
      · exact hasNul_set0 (by omega)
      · exact hn0
      · exact ht0
    | some hit =>
      obtain ⟨h1, h2⟩ := hpt st hit hpw
      have h3 := hpn st hit hpw
      refine ⟨_, rfl, ?_, ?_, ?_, ?_⟩ <;> simp only [pwFill]
      · exact hasNul_append_left h1
      · exact strncpyBuf_hasNul _ _ _ h3
      · exact (overlay_length _ _ (by rw [hn0]; exact h2)).trans hn0
      · rw [strncpyBuf_length _ _ _ (by rw [ht0]; decide)]; exact ht0
  · rw [hr]
    simp only [Option.map_some]
    exact ⟨_, rfl, boundedCopy_hasNul _ _, boundedCopy_hasNul _ _, boundedCopy_length _ _ hn0,
      boundedCopy_length _ _ ht0⟩

/-- **C11_strings** for tables without a "prowizard" entry: no side condition at all. -/
theorem C11_strings_success (e : Env) (s : Stream) (i : Info)
    (hw : i.name.length = nameSize ∧ i.type.length = nameSize)
    (hnopw : ∀ l ∈ e.loaders, l.name ≠ prowizardName)
    (h : (testModule e s (some i)).1 = 0) :
    ∃ i', (testModule e s (some i)).2.1 = some i' ∧ hasNul i'.name = true ∧ hasNul i'.type = true ∧
      i'.name.length = nameSize ∧ i'.type.length = nameSize := by
  unfold testModule resetInfo at h ⊢
  have hn0 : (set0 i.name).length = nameSize := by rw [set0_length]; exact hw.1
  have ht0 : (set0 i.type).length = nameSize := by rw [set0_length]; exact hw.2
  rcases testWalk_ok_info e _ _ _ _ h with ⟨l, hl, _, hname, _⟩ | ⟨l, _, b, _, hr⟩
  · exact absurd hname (hnopw l hl)
  · rw [hr]
    simp only [Option.map_some]
    exact ⟨_, rfl, boundedCopy_hasNul _ _, boundedCopy_hasNul _ _, boundedCopy_length _ _ hn0,
      boundedCopy_length _ _ ht0⟩

/-- a detector that called `pw_read_title` satisfies `PwTitleTerminated` -/
theorem pwTitle_written_terminated (garbage src : Bytes) (n : Nat) :
    hasNul ((overlayOpt (some (pwReadTitle (some src) n)) (pwTitleInit garbage)).take Gen.pwTitleCopy) = true := by
  have hw : (src.take (min n 20) ++ [0]).length ≤ Gen.pwTitleCopy := by
    simp only [List.length_append, List.length_take, List.length_cons, List.length_nil, Gen.pwTitleCopy]; omega
  show hasNul ((src.take (min n 20) ++ [0] ++ (pwTitleInit garbage).drop _).take Gen.pwTitleCopy) = true
  rw [List.take_append, List.take_of_length_le hw]
  apply hasNul_append_left
  apply hasNul_append_right
  simp [hasNul]

/-- with the repaired `pw_check` (`memset(title, 0, sizeof(title))` before every detector — generated
fact `Gen.pwTitleInitAll`) a detector that writes nothing leaves a terminated (empty) title -/
theorem pwTitle_unwritten_terminated (garbage : Bytes) (h : Gen.pwTitleInitAll = true) :
    hasNul ((overlayOpt none (pwTitleInit garbage)).take Gen.pwTitleCopy) = true := by
  simp only [overlayOpt, pwTitleInit, h, if_true]
  decide

/-- hence `PwTitleTerminated` holds whenever every detector either leaves the title alone or
sets it through `pw_read_title` (what all 43 detectors of the real table do) -/
theorem pwTitleTerminated_of_init (e : Env) (hinit : Gen.pwTitleInitAll = true)
    (hw : ∀ st h w, e.pw st = some h → h.title = some w → ∃ src n, w = pwReadTitle src n) :
    PwTitleTerminated e := by
  intro st h hh
  refine ⟨?_, Nat.le_trans (List.length_take_le _ _) (by decide)⟩
  cases ht : h.title with
  | none => exact pwTitle_unwritten_terminated _ hinit
  | some w =>
    obtain ⟨src, n, rfl⟩ := hw st h w hh ht
    cases src with
    | none => simp [overlayOpt, overlay, pwReadTitle, hasNul, Gen.pwTitleCopy]
    | some b => exact pwTitle_written_terminated _ b n

/-- The witness behind finding F15 (repaired in /repo by `fix: pw_check reported uninitialised stack bytes as the
module title`): the ProWizard loader matches, the detector leaves
`title[21]` untouched, the stack garbage holds no NUL, the caller's `info->name` holds no NUL
beyond its first byte.  Unless `pw_check` initialises `title` (generated fact
`Gen.pwTitleInitFirst`), the reported title is NOT terminated inside its 64 bytes. -/
def pwLoader : Loader :=
  { name := prowizardName, test := fun s _ => { rc := 0, st := s }, load := fun _ => { rc := 0, name := [] } }

def f15Env : Env :=
  { loaders := [pwLoader], pw := fun _ => some { title := none, fname := [80] },
    bufGarbage := [], pwGarbage := List.replicate 21 0x41 }

def f15Info : Info := { name := List.replicate 64 0x42, type := List.replicate 64 0x43 }

theorem C11_strings_counterexample :
    (testModule f15Env { data := [1] } (some f15Info)).1 = 0 ∧
    ((Gen.pwTitleInitFirst || Gen.pwTitleInitAll) = true ∨
      ((testModule f15Env { data := [1] } (some f15Info)).2.1.map fun i => hasNul i.name) = some false) := by
  decide

/-- The wrappers return before `test_module` when opening or unpacking fails, so `info` is
handed back untouched: with a caller-filled `info` the strings are then NOT empty
(observed on the real code: `strings:not-empty:*:rc=-5`). -/
theorem C11_strings_wrapper_counterexample :
    let e : Env := { loaders := [], pw := fun _ => none, bufGarbage := [], pwGarbage := [] }
    let r := xmpTest e (fun _ => .fail) (.path (some (false, true, 9, [1, 2, 3]))) (some f15Info) {}
    Gen.wrappersResetInfo = true ∨ (r.rc = eDepack ∧ r.info = some f15Info ∧ cstr f15Info.name ≠ []) := by
  decide

/-- What holds for the wrappers as they are: if the call got as far as `test_module`
(return value −FORMAT), `C11_strings_failure` applies. -/
theorem C11_strings_wrappers_partial (e : Env) (decr : Stream → Decr) (src : Source) (i : Info) (w : World)
    (h : (xmpTest e decr src (some i) w).rc = eFormat) :
    ∃ i', (xmpTest e decr src (some i) w).info = some i' ∧ cstr i'.name = [] ∧ cstr i'.type = [] := by
  have hd := C11_codes_distinct
  have hwi : ∃ j, wrapInfo (some i) = some j := by
    unfold wrapInfo resetInfo; split <;> exact ⟨_, rfl⟩
  obtain ⟨j, hj⟩ := hwi
  cases ho : openSource src with
  | error rc =>
    rw [xmpTest_open_error e decr src (some i) w rc ho] at h
    have h' : rc = eFormat := h
    rcases openSource_err src rc ho with h2 | h2 <;> rw [h2] at h'
    · exact absurd h'.symm hd.2.2.1
    · exact absurd h'.symm hd.2.2.2.2.1
  | ok hs =>
    obtain ⟨hh, s⟩ := hs
    rw [xmpTest_ok e decr src (some i) w hh s ho] at h ⊢
    rw [hj] at h ⊢
    generalize (if testDepacks src then applyDecr w hh s (decr s) else some (w, hh, s)) = a at h ⊢
    cases a with
    | none => exact absurd (show eDepack = eFormat from h).symm hd.2.2.2.1
    | some v =>
      obtain ⟨w1, h1, s1⟩ := v
      have h' : (testModule e s1 (some j)).1 = eFormat := h
      exact C11_strings_failure e s1 j (by rw [h']; exact hd.1)

/-- **C11_strings** (failure) for the entry points, full strength, once every wrapper empties the
strings before it can fail (generated fact `Gen.wrappersResetInfo`, see
proposed_fixes/c11-strings-not-reset.diff): whatever makes the call fail — argument, open, depack
or format — both strings are empty. -/
theorem C11_strings_wrappers (hreset : Gen.wrappersResetInfo = true)
    (e : Env) (decr : Stream → Decr) (src : Source) (i : Info) (w : World)
    (h : (xmpTest e decr src (some i) w).rc ≠ 0) :
    ∃ i', (xmpTest e decr src (some i) w).info = some i' ∧ cstr i'.name = [] ∧ cstr i'.type = [] := by
  have hj : wrapInfo (some i) = some { name := set0 i.name, type := set0 i.type } := by
    unfold wrapInfo resetInfo; rw [hreset]; rfl
  cases ho : openSource src with
  | error rc =>
    rw [xmpTest_open_error e decr src (some i) w rc ho, hj]
    exact ⟨_, rfl, cstr_set0 _, cstr_set0 _⟩
  | ok hs =>
    obtain ⟨hh, s⟩ := hs
    rw [xmpTest_ok e decr src (some i) w hh s ho] at h ⊢
    rw [hj] at h ⊢
    generalize (if testDepacks src then applyDecr w hh s (decr s) else some (w, hh, s)) = a at h ⊢
    cases a with
    | none => exact ⟨_, rfl, cstr_set0 _, cstr_set0 _⟩
    | some v =>
      obtain ⟨w1, h1, s1⟩ := v
      have h' : (testModule e s1 (some { name := set0 i.name, type := set0 i.type })).1 ≠ 0 := h
      exact C11_strings_failure e s1 _ h'

/-! ## C11_title -/

/-- **C11_title**: on EVERY byte string `r` and length `n`
* the title `libxmp_copy_adjust` makes of `r[0..n)` (what `libxmp_read_title` reports when
  testing) and the title `libxmp_adjust_string` makes of the same raw bytes (what
  `load_module` leaves in `mod->name` when the loader stored them raw) have the same canonical
  form — they "match up to the library's replacement of unprintable characters";
* both are, exactly, the C string `s` at `r[0..n)` pushed through a character map and then
  right-trimmed of spaces, the two maps agreeing on printable characters and sending every
  unprintable byte to `'.'` resp. `' '`;
* when the loader itself used `libxmp_copy_adjust`, `libxmp_adjust_string` changes nothing:
  the two titles are then identical. -/
theorem C11_title (r : Bytes) (n : Nat) :
    titleMatch (copyAdjust r n) (adjustString (r.take n)) = true ∧
    (copyAdjust r n = trimR ((cstr (r.take n)).map dotCh) ∧
      adjustString (r.take n) = trimR ((cstr (r.take n)).map spCh) ∧
      (∀ c, isPrint c = true → dotCh c = c ∧ spCh c = c) ∧
      (∀ c, isPrint c = false → dotCh c = 46 ∧ spCh c = 32)) ∧
    adjustString (copyAdjust r n) = copyAdjust r n := by
  refine ⟨?_, ⟨rfl, rfl, ?_, ?_⟩, ?_⟩
  · simp only [titleMatch, canon_copyAdjust, canon_adjustString, beq_self_eq_true]
  · intro c h; simp [dotCh, spCh, h]
  · intro c h; simp [dotCh, spCh, h]
  · have hp := copyAdjust_printable r n
    have nz : ∀ c ∈ copyAdjust r n, c ≠ 0 := fun c hc => isPrint_ne_zero (hp c hc)
    unfold adjustString
    rw [cstr_of_no_zero _ nz, map_spCh_of_printable _ hp]
    unfold copyAdjust
    exact trimR_idem _

/-- and neither title keeps trailing blanks: the strict relation holds as well -/
theorem C11_title_strict (r : Bytes) (n : Nat) :
    titleMatchStrict (copyAdjust r n) (adjustString (r.take n)) = true := by
  have h1 := (C11_title r n).1
  have nz1 : ∀ c ∈ copyAdjust r n, c ≠ 0 := fun c hc => isPrint_ne_zero (copyAdjust_printable r n c hc)
  have nz2 : ∀ c ∈ adjustString (r.take n), c ≠ 0 :=
    fun c hc => isPrint_ne_zero (adjustString_printable (r.take n) c hc)
  have t1 : noTrailingSpace (copyAdjust r n) = true := by
    unfold noTrailingSpace
    rw [cstr_of_no_zero _ nz1]
    unfold copyAdjust
    rw [trimR_idem]; exact beq_self_eq_true _
  have t2 : noTrailingSpace (adjustString (r.take n)) = true := by
    unfold noTrailingSpace
    rw [cstr_of_no_zero _ nz2]
    unfold adjustString
    rw [trimR_idem]; exact beq_self_eq_true _
  simp only [titleMatchStrict, h1, t1, t2, Bool.and_self]

/-- a title that keeps its trailing blanks does not match strictly -/
example : titleMatchStrict [97, 98, 32, 32] [97, 98] = false ∧ titleMatch [97, 98, 32, 32] [97, 98] = true := by decide

/-- the same at buffer level: the C strings found in the arrays the two C functions leave -/
theorem C11_title_buffers (r : Bytes) (n : Nat) (b : Bytes) (hb : hasNul b = true) :
    cstr (copyAdjustBuf r n) = copyAdjust r n ∧ cstr (adjustStringBuf b) = adjustString b ∧
    (copyAdjustBuf r n).length = n + 1 ∧ (adjustStringBuf b).length = b.length :=
  ⟨cstr_copyAdjustBuf r n, cstr_adjustStringBuf b hb, copyAdjustBuf_length r n, adjustStringBuf_length b⟩

/-- ProWizard reports the raw bytes (`pw_read_title` does not replace anything); the loaded
title is `libxmp_adjust_string` of them: they match as well. -/
theorem C11_title_raw (s : Bytes) : titleMatch s (adjustString s) = true := by
  simp only [titleMatch, canon_adjustString, beq_self_eq_true]

/-- The relation is transitive and symmetric by construction (equality of canonical forms),
and it is not coarser than advertised: on titles that hold only printable characters other than
the replacement character `'.'` and do not end in a space it is plain equality. -/
theorem C11_title_exact (t l : Bytes)
    (ht : (∀ c ∈ t, isPrint c = true ∧ c ≠ 46) ∧ ∀ h : t ≠ [], t.getLast h ≠ 32)
    (hl : (∀ c ∈ l, isPrint c = true ∧ c ≠ 46) ∧ ∀ h : l ≠ [], l.getLast h ≠ 32)
    (hm : titleMatch t l = true) : t = l := by
  have clean : ∀ (x : Bytes), ((∀ c ∈ x, isPrint c = true ∧ c ≠ 46) ∧ ∀ h : x ≠ [], x.getLast h ≠ 32) →
      canon x = x := by
    intro x hx
    unfold canon
    rw [cstr_of_no_zero x (fun c hc => isPrint_ne_zero (hx.1 c hc).1)]
    have : x.map canonCh = x := by
      have hx1 := hx.1
      clear hx
      induction x with
      | nil => rfl
      | cons a as ih =>
        simp only [List.map_cons]
        rw [ih (fun c hc => hx1 c (by simp [hc]))]
        have := hx1 a (by simp)
        simp [canonCh, this.1, this.2]
    rw [this]
    exact trimR_eq_self_of_getLast x hx.2
  have := beq_iff_eq.mp hm
  rw [clean t ht, clean l hl] at this
  exact this

/-! ## C11_no_side_effect -/

/-- **C11_no_side_effect**: `xmpTest` has no player context among its arguments or results (the
four C wrappers take `(source, struct xmp_test_info *)` only), and the only thing it does to the
world is closing handles — never the caller's `FILE`: whatever the loaders, `pw_check` and
`libxmp_decrunch` do (including a successful depack, which swaps the handle's backing store). -/
theorem C11_no_side_effect (e : Env) (decr : Stream → Decr) (id : Nat) (data : Bytes) (ok : Bool)
    (info : Option Info) (w : World) (h : id ∉ w.closed) :
    id ∉ (xmpTest e decr (.file id data ok) info w).world.closed := by
  unfold xmpTest
  cases ok with
  | false => simpa [openSource] using h
  | true =>
    simp only [openSource, testDepacks, if_true]
    generalize decr { data := data } = d
    cases d <;> simpa [applyDecr, closeInternal] using h

/-- and `xmp_test_module(path, …)` closes the `FILE` it opened itself exactly once, on every path
(not packed, unpacked, depack failure): no descriptor is left behind. -/
theorem C11_no_leak (e : Env) (decr : Stream → Decr) (id : Nat) (data : Bytes) (info : Option Info) (w : World) :
    (xmpTest e decr (.path (some (false, true, id, data))) info w).world.closed = id :: w.closed := by
  rw [xmpTest_ok e decr _ info w (.file id false) { data := data } rfl]
  simp only [testDepacks, if_true]
  cases decr { data := data } <;> simp [applyDecr, testAfter, closeInternal]

/-- memory and callback sources never close anything -/
theorem C11_no_close_mem_cb (e : Env) (decr : Stream → Decr) (info : Option Info) (w : World)
    (data : Bytes) (n : Int) (ok : Bool) :
    (xmpTest e decr (.memory data n) info w).world = w ∧
    (xmpTest e decr (.callbacks ok data) info w).world = w := by
  constructor
  · by_cases hn : n ≤ 0
    · rw [xmpTest_open_error e decr _ info w eInvalid (by simp [openSource, hn])]
    · rw [xmpTest_ok e decr _ info w .mem { data := data.take n.toNat } (by simp [openSource, hn])]
      simp [testDepacks, testAfter, closeInternal]
  · cases ok with
    | false => rw [xmpTest_open_error e decr _ info w eSystem (by simp [openSource])]
    | true =>
      rw [xmpTest_ok e decr _ info w .cb { data := data } (by simp [openSource])]
      simp [testDepacks, testAfter, closeInternal]

/-! ## Non-vacuity: a table satisfying every hypothesis, and the model run on it -/

/-- accepts streams whose first byte is `k`; when asked for a title reads one of 4 bytes at
offset 1 with `libxmp_read_title`; the loader keeps the same bytes raw -/
def exLoader (k : UInt8) (nm : Bytes) : Loader where
  name := nm
  test := fun s want =>
    let hit := s.data.head? = some k
    if want then
      let r := readTitle { s with pos := 1 } 4
      { rc := if hit then 0 else -1, title := r.1, st := r.2 }
    else { rc := if hit then 0 else -1, st := { s with pos := 1 } }
  load := fun s => { rc := 0, name := strncpyBuf (zeros 64) ((s.data.drop 1).take 4 ++ [0]) 4 }

def exEnv : Env :=
  { loaders := [exLoader 7 [88, 77], exLoader 9 [73, 84]], pw := fun _ => none,
    bufGarbage := List.replicate 64 0xDD, pwGarbage := [] }

theorem exLoader_premise (k : UInt8) (nm : Bytes) (s : Stream) :
    (((exLoader k nm).test s true).rc = 0 ↔ ((exLoader k nm).test s false).rc = 0) ∧
    ∀ w, ((exLoader k nm).test s w).st.data = s.data := by
  constructor
  · simp [exLoader]
  · intro w
    cases w <;> simp [exLoader, readTitle, Stream.read]

theorem exLoader_nonpos (k : UInt8) (nm : Bytes) (s : Stream) (w : Bool) :
    ((exLoader k nm).test s w).rc ≤ 0 := by
  cases w <;> simp only [exLoader] <;> (by_cases hh : s.data.head? = some k <;> simp [hh])

example : Premise exEnv.loaders ∧ NonPos exEnv.loaders ∧ PrepOk exEnv.loaders := by
  refine ⟨?_, ?_, ?_⟩
  · intro l hl s
    simp only [exEnv, List.mem_cons, List.mem_nil_iff, or_false] at hl
    rcases hl with rfl | rfl <;> exact exLoader_premise _ _ s
  · intro l hl s w
    simp only [exEnv, List.mem_cons, List.mem_nil_iff, or_false] at hl
    rcases hl with rfl | rfl <;> exact exLoader_nonpos _ _ s w
  · intro l hl s
    simp only [exEnv, List.mem_cons, List.mem_nil_iff, or_false] at hl
    rcases hl with rfl | rfl <;> simp [exLoader, Gen.prepareScanReturns]

/-- second loader matches; title "A\x01 " + NUL: test reports "A." and load "A" — a match -/
example :
    let s : Stream := { data := [9, 65, 1, 32, 0, 5] }
    (testModule exEnv s (some f15Info)).1 = 0 ∧
    ((testModule exEnv s (some f15Info)).2.1.map fun i => (cstr i.name, cstr i.type)) = some ([65, 46], [73, 84]) ∧
    (loadModule exEnv s).rc = 0 ∧ ((loadModule exEnv s).name.map cstr) = some [65] ∧
    titleMatch [65, 46] [65] = true := by decide

/-- nothing matches: −FORMAT on both sides, strings emptied -/
example :
    let s : Stream := { data := [3, 65] }
    (testModule exEnv s (some f15Info)).1 = eFormat ∧ (loadModule exEnv s).rc = eFormat ∧
    ((testModule exEnv s (some f15Info)).2.1.map fun i => (cstr i.name, cstr i.type)) = some ([], []) := by decide

/-- hypotheses of `C11_agree_wrappers`: the FILE pair on an input `libxmp_decrunch` leaves alone -/
example : ∀ h s, openSource (.file 7 [9, 65] true) = .ok (h, s) → (fun _ : Stream => Decr.notPacked) s = .notPacked :=
  fun _ _ _ => rfl

/-- hypotheses of `C11_strings_success_partial` hold for a detector that read its title -/
example : PwTitleTerminated { f15Env with pw := fun _ => some { title := some (pwReadTitle (some [72, 105]) 20), fname := [80] } }
    ∧ PwNameShort { f15Env with pw := fun _ => some { title := some (pwReadTitle (some [72, 105]) 20), fname := [80] } } := by
  constructor
  · intro st h hh
    simp only [Option.some.injEq] at hh
    subst hh
    decide
  · intro st h hh
    simp only [Option.some.injEq] at hh
    subst hh
    decide

/-- a title with an unprintable byte and trailing spaces, both ways, and the two differ -/
example : copyAdjust [72, 1, 105, 32, 32, 0, 9] 6 = [72, 46, 105] ∧
    adjustString ([72, 1, 105, 32, 32, 0, 9].take 6) = [72, 32, 105] ∧
    titleMatch [72, 46, 105] [72, 32, 105] = true ∧ titleMatch [72, 46, 105] [72, 105] = false := by decide

example : (7 : Nat) ∉ ({} : World).closed := by decide

end Xmp.TestLoad
