import XmpProofs.TestLoad
/-! # C11 — Test and load agree, and testing has no side effects -/
namespace Xmp.TestLoad

end Xmp.TestLoad
