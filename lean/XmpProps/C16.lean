import XmpProofs.Seq
import XmpProofs.Tick
import XmpProofs.Virt
import XmpProofs.Fx
/-!
# C16 — Every frame reports a consistent, in-range player state

Property theorems over the models `XmpModel.Seq` (sequencer kernel of player.c / control.c),
`XmpModel.Tick` (tick size, mixer.c) and `XmpModel.Virt` (voice tables, virtual.c).

Setting.  `WF m`: the module data the kernel reads is well-formed (`Seq.wfB`, evaluated by the
driver on every module the harness plays).  One frame = kernel ; effects A ; ST2.6 step ; effects
B, where the effect stages are arbitrary writes constrained by `EffOk` (monitored on every real
frame).  `Core` is the range invariant of every API boundary, `RowInv` its row part, `Playing`
= `Core ∧ pos = ord`, `Fresh` = "`f->num_rows` is the row count of the current pattern".
`OrdWF m` (`Seq.ordWfB`, also evaluated on every module played): every kept sequence reaches an
order holding a pattern; under it the order-skipping loop of `next_order` terminates
(`C16_next_order_terminates`) and the `…_total` theorems have no divergence escape.
-/
namespace Xmp.Seq

/-- The C16 clauses on what `xmp_get_frame_info` reports (all but `row < rows`). -/
structure InfoOk (m : SeqMod) (i : Info) : Prop where
  pos : 0 ≤ i.pos ∧ i.pos < m.len
  pattern : i.pattern = m.xo i.pos ∧ 0 ≤ i.pattern ∧ i.pattern < m.pat
  numRows : i.numRows = m.rowsOf i.pattern ∧ 1 ≤ i.numRows
  row : 0 ≤ i.row
  speed : 1 ≤ i.speed ∧ i.speed ≤ 255
  bpm : 0 < i.bpm
  sequence : 0 ≤ i.sequence ∧ i.sequence < m.numSeq

/-- **C16_frame_info**: in a `Playing` state the reported fields satisfy every range clause;
if moreover `num_rows` is fresh and `row < num_rows`, the reported row is inside the pattern. -/
theorem C16_frame_info {m : SeqMod} (h : WF m) {s : St} (hp : Playing m s) :
    InfoOk m (frameInfo m s) ∧ 0 < s.ftBpm ∧
    (Fresh m s → s.row < s.numRows → (frameInfo m s).row < (frameInfo m s).numRows) := by
  have w := h.facts
  have c := hp.core
  have hpos : s.pos ≥ 0 ∧ s.pos < m.len := by rw [hp.posOrd]; exact ⟨c.ord.1, c.ord.2⟩
  have hx := w.xo s.ord c.ord.1 (by have := w.len; have := c.ord; omega)
  have hr := w.rows (m.xo s.ord) hx.1 c.ordPat
  unfold frameInfo
  simp only [hpos, and_self, if_true]
  rw [hp.posOrd]
  simp only [c.ordPat, if_true]
  have hb : 0 < s.bpm := by have := c.bpm; omega
  refine ⟨⟨c.ord, ⟨rfl, hx.1, c.ordPat⟩, ⟨rfl, hr⟩, c.row, c.speed, hb, c.seq⟩,
    by have := c.ftBpm; omega, ?_⟩
  intro hf hlt
  unfold Fresh at hf
  omega

/-- **C16_inv_start**: after `xmp_start_player` the boundary invariant holds. -/
theorem C16_inv_start {m : SeqMod} (h : WF m) (speed0 : Int) {s : St} (hs : start m speed0 = some s) :
    Core m s ∧ RowInv m s ∧ s.loopCount = 0 :=
  start_spec h.facts hs

/-- **C16_inv_frame**: every successful `xmp_play_frame` from a state satisfying the boundary
invariants, with effect outcomes inside `EffOk`, ends in a `Playing` state that again satisfies
the row invariant (`num_rows` fresh, `row < rows`) and whose frame time was computed from the
reported (positive) tempo. -/
theorem C16_inv_frame {m : SeqMod} (h : WF m) {s s' : St} {eA eB : Eff} (hc : Core m s) (hr : RowInv m s)
    (ha : EffOk eA) (hb : EffOk eB) (hf : playFrame m s eA eB = .ok s') :
    Playing m s' ∧ RowInv m s' ∧ s'.ftBpm = s'.bpm := by
  obtain ⟨a, b, _, d⟩ := playFrame_core h.facts hc ha hb hf
  have d := d hr
  refine ⟨a, ⟨?_, d.1⟩, b⟩
  have := d.1; unfold Fresh at this; omega

/-- **C16_loop_monotone**: a frame never decreases the loop counter. -/
theorem C16_loop_monotone {m : SeqMod} (h : WF m) {s s' : St} {eA eB : Eff} (hc : Core m s) (ha : EffOk eA)
    (hb : EffOk eB) (hf : playFrame m s eA eB = .ok s') : s.loopCount ≤ s'.loopCount :=
  (playFrame_core h.facts hc ha hb hf).2.2.1

/- A failed frame (`-XMP_END`) leaves the state alone by construction of `Res.fin`; the
boundary invariants therefore survive it trivially. -/

/-- **C16_inv_control**: every position-control call — `xmp_set_position`, `xmp_next_position`,
`xmp_prev_position`, `xmp_set_row`, `xmp_seek_time`, `xmp_stop_module`, `xmp_restart_module`,
accepted or refused, with ANY argument and in any flow state — preserves the range invariant and
the row invariant (since /repo 4e701d0 `set_position` no longer writes `f->num_rows`). -/
theorem C16_inv_control {m : SeqMod} (h : WF m) {s : St} (hc : Core m s) (hr : RowInv m s) (c : Ctl) :
    Core m (ctl m s c) ∧ RowInv m (ctl m s c) :=
  ⟨(ctl_spec h.facts hc c).1, (ctl_spec h.facts hc c).2 hr⟩

/-! ### Histories -/

inductive Call where
  | frame (eA eB : Eff)
  | ctl (c : Ctl)

/-- States after every *successful* frame of a history (a diverging frame ends the history:
the C call does not return). -/
def frames (m : SeqMod) : St → List Call → List St
  | _, [] => []
  | s, .frame a b :: rest =>
    match playFrame m s a b with
    | .ok s' => s' :: frames m s' rest
    | .fin => frames m s rest
    | .diverge => []
  | s, .ctl c :: rest => frames m (ctl m s c) rest

def EffsOk : List Call → Prop
  | [] => True
  | .frame a b :: rest => EffOk a ∧ EffOk b ∧ EffsOk rest
  | .ctl _ :: rest => EffsOk rest

/-- **C16_reachable**: for EVERY history of frames and position-control calls (any arguments)
whose effect outcomes stay inside `EffOk`, started from any state satisfying the boundary
invariants (e.g. `start`, `C16_inv_start`): after every successful frame the state is `Playing`,
satisfies the row invariant, and `frame_time` was computed from the reported tempo — hence
(`C16_frame_info`) `0 ≤ pos < len`, `pattern = xxo[pos] < pat`, `0 ≤ row < rows(pattern)`,
`1 ≤ speed ≤ 255`, `bpm > 0`, `frame_time > 0`, `sequence < num_sequences`. -/
theorem C16_reachable {m : SeqMod} (h : WF m) : ∀ (hist : List Call) (s : St), Core m s → RowInv m s → EffsOk hist →
    ∀ s' ∈ frames m s hist, Playing m s' ∧ RowInv m s' ∧ s'.ftBpm = s'.bpm := by
  intro hist
  induction hist with
  | nil => intro s _ _ _ s' hs'; simp [frames] at hs'
  | cons c rest ih =>
    intro s hc hr he s' hs'
    cases c with
    | frame a b =>
      obtain ⟨ea, eb, er⟩ := he
      unfold frames at hs'
      split at hs'
      · rename_i s1 hf
        obtain ⟨p1, r1, f1⟩ := C16_inv_frame h hc hr ea eb hf
        rcases List.mem_cons.mp hs' with e | e
        · subst e; exact ⟨p1, r1, f1⟩
        · exact ih s1 p1.core r1 er s' e
      · exact ih s hc hr er s' hs'
      · simp at hs'
    | ctl c =>
      unfold frames at hs'
      obtain ⟨c1, r1⟩ := C16_inv_control h hc hr c
      exact ih _ c1 r1 he s' hs'

/-- **C16_reachable_info**: the same, phrased on what `xmp_get_frame_info` reports. -/
theorem C16_reachable_info {m : SeqMod} (h : WF m) (hist : List Call) (s : St) (hc : Core m s) (hr : RowInv m s)
    (he : EffsOk hist) : ∀ s' ∈ frames m s hist,
    InfoOk m (frameInfo m s') ∧ (frameInfo m s').row < (frameInfo m s').numRows ∧ 0 < s'.ftBpm := by
  intro s' hs'
  obtain ⟨p, r, _⟩ := C16_reachable h hist s hc hr he s' hs'
  obtain ⟨a, b, c⟩ := C16_frame_info h p
  refine ⟨a, c r.numOk ?_, b⟩
  have := r.numOk; have := r.rowLt; unfold Fresh at *; omega

/-- **C16_loop_monotone_run**: over any run of frames with no position-control call in
between, the loop counter reported after each successful frame is at least the one before
the run (applied to every suffix: the reported sequence is non-decreasing). -/
theorem C16_loop_monotone_run {m : SeqMod} (h : WF m) : ∀ (effs : List (Eff × Eff)) (s : St), Core m s →
    (∀ e ∈ effs, EffOk e.1 ∧ EffOk e.2) →
    ∀ s' ∈ frames m s (effs.map fun e => .frame e.1 e.2), s.loopCount ≤ s'.loopCount := by
  intro effs
  induction effs with
  | nil => intro s _ _ s' hs'; simp [frames] at hs'
  | cons e rest ih =>
    intro s hc he s' hs'
    have he1 := he e (List.mem_cons_self ..)
    simp only [List.map_cons] at hs'
    unfold frames at hs'
    split at hs'
    · rename_i s1 hf
      have l1 := C16_loop_monotone h hc he1.1 he1.2 hf
      have p1 := (playFrame_core h.facts hc he1.1 he1.2 hf).1
      rcases List.mem_cons.mp hs' with e' | e'
      · subst e'; exact l1
      · have := ih s1 p1.core (fun x hx => he x (List.mem_cons_of_mem _ hx)) s' e'
        omega
    · exact ih s hc (fun x hx => he x (List.mem_cons_of_mem _ hx)) s' hs'
    · simp at hs'

/-! ### Non-vacuity and the counterexample

`exMod`: 3 orders `[0, 1, 0]`, pattern 0 has 64 rows, pattern 1 has 16 rows, one sequence that
loops to order 0 row 0 (`scan[0] = {ord 0, row 0, num 1}`), speed 6, 125 BPM. -/
def exMod : SeqMod :=
  { len := 3, pat := 2, rst := 0, xxo := [0, 1, 0] ++ List.replicate 253 0, rows := [64, 16], marker := false,
    protrack := false, seqCtl := [0, 0, 0] ++ List.replicate 253 0xff, numSeq := 1, entry := [0], scanOrd := [0],
    scanRow := [0], scanNum := [1], oSpeed := [6, 6, 6] ++ List.replicate 253 0,
    oBpm := [125, 125, 125] ++ List.replicate 253 0, oGvl := List.replicate 256 64, oSt26 := List.replicate 256 0,
    oTime := [0, 7680, 9600] ++ List.replicate 253 (-1), volbase := 64 }

theorem exMod_wf : WF exMod := by unfold WF; decide +kernel

example : WF exMod := exMod_wf

/-- the state after `xmp_start_player` -/
def exStart : St := (start exMod 0).getD default

example : start exMod 0 = some exStart := by decide
example : Core exMod exStart ∧ RowInv exMod exStart := by
  have := C16_inv_start (m := exMod) exMod_wf 0 (s := exStart) (by decide)
  exact ⟨this.1, this.2.1⟩

/-- a non-trivial effect outcome inside `EffOk`: pattern break to row 3 with a jump to order 1 and speed 3 -/
def exEff : Eff := { pbreak := some 1, jump := some 1, jumpline := some 3, speed := some 3 }

example : EffOk exEff ∧ EffOk noEff := by
  refine ⟨⟨?_, ?_, ?_, ?_, ?_⟩, ⟨?_, ?_, ?_, ?_, ?_⟩⟩ <;> intro v hv <;> simp [exEff, noEff] at hv <;> omega

/-- playing on order 1 (pattern 1, 16 rows), row 3 -/
def exPlaying : St :=
  { exStart with ord := 1, pos := 1, row := 3, frame := 2, numRows := 16 }

example : Core exMod exPlaying ∧ RowInv exMod exPlaying := by
  refine ⟨⟨by decide, by decide, by decide, by decide, by decide, by decide, by decide, by decide, by decide, by decide,
    by decide⟩, ⟨by decide, by unfold Fresh; decide⟩⟩

/-- regression witness of the former finding `row:stale_num_rows`: `xmp_set_position(0)` then
`xmp_set_position(1)` (back onto the order being played) no longer leaves the 64 rows of pattern 0
in `f->num_rows`; the invariant survives both calls. -/
def exAfterCalls : St := ctl exMod (ctl exMod exPlaying (.setPos 0)) (.setPos 1)

example : exAfterCalls.pos = exAfterCalls.ord ∧ exAfterCalls.numRows = 16 ∧ exAfterCalls.row = 3 := by decide

/-- a concrete history inside the hypotheses of `C16_reachable`: two frames, the calls above, a
frame whose effects break to row 3 of order 1 at speed 3, a seek, a stop and a frame (which fails) -/
def exHist : List Call :=
  [.frame noEff noEff, .frame noEff noEff, .ctl (.setPos 0), .ctl (.setPos 1), .frame exEff noEff,
   .ctl (.seek 8000), .frame noEff noEff, .ctl .stop, .frame noEff noEff]

example : ((frames exMod exStart exHist).map fun s => (s.pos, s.row, s.frame, s.speed)) =
    [(0, 0, 0, 6), (0, 0, 1, 6), (1, 0, 0, 3), (1, 0, 1, 3)] := by
  decide

/-! ### Termination: no frame hangs

`OrdWF m` (`Seq.ordWfB`): every sequence reaches an order holding a pattern — through the restart
position `next_order` wraps it to, at its entry point, or walking forward from the entry point
before the end of the list / an 0xff end marker.  This is what `libxmp_scan_sequences` guarantees
for every sequence it keeps (a kept scan played at least one row: `any_valid` in src/scan.c); the
driver evaluates it on every module played and the harness evaluates the same clause in C. -/

/-- **C16_next_order_terminates**: the `do { p->ord++ … } while (mod->xxo[p->ord] >= mod->pat)`
loop of `next_order` (wrap to the restart position / the entry point at the end of the list and at
0xff markers included) leaves through its own `while` condition within `len + 1` iterations, for
every real sequence and every starting `p->ord ≥ -1` (any jump target — also one past the list —
and any pending position): the fuelled model returns `some` with `len + 1` units of fuel, the
result does not depend on the fuel above that (in particular it is the one `orderFuel` gives),
and it is an order inside the list holding a pattern. -/
theorem C16_next_order_terminates {m : SeqMod} (h : WF m) (ho : OrdWF m) {seq : Int} (hs : 0 ≤ seq ∧ seq < m.numSeq)
    (ord : Int) (hord : -1 ≤ ord) (rg : Bool) :
    ∃ o rg', nextOrderLoop m seq (m.len + 1).toNat ord rg = some (o, rg') ∧
      (∀ k, nextOrderLoop m seq ((m.len + 1).toNat + k) ord rg = some (o, rg')) ∧
      nextOrderLoop m seq orderFuel ord rg = some (o, rg') ∧
      0 ≤ o ∧ o < m.len ∧ m.xo o < m.pat := by
  have w := h.facts
  have hl := w.len
  have t := nextOrderLoop_terminates w ho hs.1 hs.2 ord rg hord (m.len + 1).toNat (by omega)
  cases hq : nextOrderLoop m seq (m.len + 1).toNat ord rg with
  | none => rw [hq] at t; simp at t
  | some r =>
    obtain ⟨o, rg'⟩ := r
    have mono := nextOrderLoop_mono m seq (m.len + 1).toNat ord rg (o, rg')
    refine ⟨o, rg', rfl, fun k => mono k hq, ?_, nextOrderLoop_spec w hs.1 hs.2 _ _ _ _ _ hord hq⟩
    have e : orderFuel = (m.len + 1).toNat + (orderFuel - (m.len + 1).toNat) := by
      have := orderFuel_ge w; omega
    rw [e]; exact mono _ hq

/-- **C16_frame_returns**: from every state satisfying the boundary invariant and for ALL effect
outcomes, `xmp_play_frame` returns: the model never takes the `diverge` branch; and it returns
`-XMP_END` (state untouched) exactly in the C's early-return cases — the order being played is an
0xff end marker, or `xmp_stop_module` was called. -/
theorem C16_frame_returns {m : SeqMod} (h : WF m) (ho : OrdWF m) {s : St} (hc : Core m s) (eA eB : Eff) :
    playFrame m s eA eB ≠ .diverge ∧
    (playFrame m s eA eB = .fin ↔ ((m.marker = true ∧ m.xo s.ord = 0xff) ∨ (s.ord ≠ s.pos ∧ s.pos = -2))) :=
  ⟨playFrame_returns h.facts ho hc eA eB, playFrame_fin_iff h.facts ho hc eA eB⟩

/-- **C16_inv_frame_total** (`C16_inv_frame` without the hypothesis that the frame succeeded):
every `xmp_play_frame` from a state satisfying the boundary invariants, with effect outcomes
inside `EffOk`, either returns `-XMP_END` leaving the state alone, or succeeds in a `Playing`
state that satisfies the row invariant and whose frame time was computed from the reported tempo.
There is no third outcome. -/
theorem C16_inv_frame_total {m : SeqMod} (h : WF m) (ho : OrdWF m) {s : St} {eA eB : Eff} (hc : Core m s)
    (hr : RowInv m s) (ha : EffOk eA) (hb : EffOk eB) :
    playFrame m s eA eB = .fin ∨
    ∃ s', playFrame m s eA eB = .ok s' ∧ Playing m s' ∧ RowInv m s' ∧ s'.ftBpm = s'.bpm := by
  cases hq : playFrame m s eA eB with
  | ok s' => exact Or.inr ⟨s', rfl, C16_inv_frame h hc hr ha hb hq⟩
  | fin => exact Or.inl rfl
  | diverge => exact absurd hq (C16_frame_returns h ho hc eA eB).1

/-- every call of the history returns (no frame takes the `diverge` branch) -/
def returnsB (m : SeqMod) : St → List Call → Bool
  | _, [] => true
  | s, .frame a b :: rest =>
    match playFrame m s a b with
    | .ok s' => returnsB m s' rest
    | .fin => returnsB m s rest
    | .diverge => false
  | s, .ctl c :: rest => returnsB m (ctl m s c) rest

def Returns (m : SeqMod) (s : St) (hist : List Call) : Prop := returnsB m s hist = true

/-- **C16_reachable_total** (`C16_reachable` without the divergence escape): for EVERY history
of frames and position-control calls whose effect outcomes stay inside `EffOk`, from any state
satisfying the boundary invariants, every call returns — `frames` is therefore the complete list
of states after the successful frames of the history — and each of them is `Playing`, satisfies
the row invariant and has its frame time computed from the reported tempo. -/
theorem C16_reachable_total {m : SeqMod} (h : WF m) (ho : OrdWF m) : ∀ (hist : List Call) (s : St), Core m s →
    RowInv m s → EffsOk hist →
    Returns m s hist ∧ ∀ s' ∈ frames m s hist, Playing m s' ∧ RowInv m s' ∧ s'.ftBpm = s'.bpm := by
  intro hist s hc hr he
  refine ⟨?_, C16_reachable h hist s hc hr he⟩
  induction hist generalizing s with
  | nil => rfl
  | cons c rest ih =>
    cases c with
    | frame a b =>
      obtain ⟨ea, eb, er⟩ := he
      unfold Returns returnsB
      rcases C16_inv_frame_total h ho hc hr ea eb with hq | ⟨s1, hq, p1, r1, _⟩
      · rw [hq]; exact ih s hc hr er
      · rw [hq]; exact ih s1 p1.core r1 er
    | ctl c =>
      unfold Returns returnsB
      obtain ⟨c1, r1⟩ := C16_inv_control h hc hr c
      exact ih _ c1 r1 he

/-- **C16_reachable_info_total**: the same, phrased on what `xmp_get_frame_info` reports. -/
theorem C16_reachable_info_total {m : SeqMod} (h : WF m) (ho : OrdWF m) (hist : List Call) (s : St) (hc : Core m s)
    (hr : RowInv m s) (he : EffsOk hist) :
    Returns m s hist ∧ ∀ s' ∈ frames m s hist,
      InfoOk m (frameInfo m s') ∧ (frameInfo m s').row < (frameInfo m s').numRows ∧ 0 < s'.ftBpm :=
  ⟨(C16_reachable_total h ho hist s hc hr he).1, C16_reachable_info h hist s hc hr he⟩

/-- **C16_next_order_keeps_loop_counter**: `next_order` — the pattern-loop reset of the flow modes with
`FLOW_LOOP_PATTERN_RESET` included: it clears `f->loop_count`, the pattern-loop count of `struct flow_control`,
which is not the module loop counter `p->loop_count` — leaves the module loop counter, the sequence, speed and
tempo alone; and `next_row` never lowers the loop counter either.  (With `C16_loop_monotone_run` /
`C16_loop_monotone_api`: over runs of any length, through any number of wraps, in every flow mode.) -/
theorem C16_next_order_keeps_loop_counter {m : SeqMod} (h : WF m) {s s' : St} (hp : Playing m s) :
    (nextOrder m s = some s' → s'.loopCount = s.loopCount ∧ s'.sequence = s.sequence ∧ s'.speed = s.speed ∧ s'.bpm = s.bpm) ∧
    (nextRow m s = some s' → s'.loopCount = s.loopCount) := by
  refine ⟨fun hn => ?_, fun hn => (nextRow_spec h.facts hp hn).2.2.1⟩
  obtain ⟨_, _, _, _, _, _, _, sa⟩ := nextOrder_spec h.facts hp.core.seq (by have := hp.core.ord; omega) hp.core.jumpline hn
  exact ⟨sa.2.2.2.2.2.2, sa.1, sa.2.1, sa.2.2.1⟩

/-! ### A pattern-loop jump cannot leave the pattern

The loop target (`f->loop[chn].start`, or the global `f->loop_start`) is a row number recorded in
whatever pattern was playing when the loop start effect ran; nothing relates it to the pattern
playing when the loop end effect arms `f->loop_dest` (E60 on row 40 of a 64-row pattern, E61 in a
16-row pattern; in the flow modes without `FLOW_LOOP_PATTERN_RESET` the target survives the
pattern change).  The real code guarantees `row < num_rows` only through the end-of-pattern check
that `next_row` performs AFTER the loop jump; `Seq.nextRow` models that order of steps. -/

/-- **C16_loop_jump_lands_in_pattern**: for EVERY value of `f->loop_dest` (any loop target carried
over from any pattern, any flow mode), every row delay, break and jump state: `next_row` from a
playing state with a fresh `f->num_rows` ends on a row inside the pattern of the order it ends on,
again with a fresh `f->num_rows` — a loop target at or beyond the end of the current pattern moves
on to the next order, it is never reported as the row. -/
theorem C16_loop_jump_lands_in_pattern {m : SeqMod} (h : WF m) {s s' : St} (hp : Playing m s) (hf : Fresh m s)
    (hn : nextRow m s = some s') :
    Playing m s' ∧ Fresh m s' ∧ 0 ≤ s'.row ∧ s'.row < m.rowsOf (m.xo s'.ord) := by
  obtain ⟨p', _, _, fr⟩ := nextRow_spec h.facts hp hn
  obtain ⟨f', r'⟩ := fr hf
  refine ⟨p', f', p'.core.row, ?_⟩
  unfold Fresh at f'; omega

/-- the witness of the seeded defect "loop jump `else if` end-of-pattern check": playing order 1 of
`exMod` (pattern 1, 16 rows) at row 5 with a loop jump to row 40 armed (a target recorded in the
64-row pattern 0): `next_row` moves on to order 2, row 0 -/
example :
    (nextRow exMod { exPlaying with row := 5, frame := 6, loopDest := 40 }).map (fun s => (s.ord, s.row, s.numRows, s.loopDest)) =
      some (2, 0, 64, -1) := by decide

/-! ### Mode / timing switches while playing (xmp_set_player MODE, CFLAGS)

`xmp_set_player(ctx, XMP_PLAYER_MODE, v)` and a `XMP_PLAYER_CFLAGS` change of the vblank flag rescan
the module: sequences, entry points, sequence labels, order info, the marker quirk change; the
order list and the patterns do not (`SameSong`).  The player state keeps everything but
`p->sequence`, which is reset to 0 when the rescan found fewer sequences (`Seq.rescanFix`). -/

/-- **C16_inv_mode_switch**: the boundary invariant and the row invariant survive a rescan to ANY
well-formed scan of the same song (any number of sequences, e.g. fewer than before) with the
sequence fix-up; in particular the sequence index is valid for the NEW sequence table. -/
theorem C16_inv_mode_switch {m m' : SeqMod} (h' : WF m') (ss : SameSong m m') {s : St} (hc : Core m s) (hr : RowInv m s) :
    Core m' (rescanFix m' s) ∧ RowInv m' (rescanFix m' s) ∧
    0 ≤ (rescanFix m' s).sequence ∧ (rescanFix m' s).sequence < m'.numSeq := by
  obtain ⟨a, b⟩ := rescan_spec h'.facts ss hc
  exact ⟨a, b hr, a.seq.1, a.seq.2⟩

/-- histories in which the module's scan tables may be replaced (mode / timing switches) -/
inductive CallM where
  | frame (eA eB : Eff)
  | ctl (c : Ctl)
  | rescan (m' : SeqMod)

/-- (module in force, state) after every successful frame -/
def framesM : SeqMod → St → List CallM → List (SeqMod × St)
  | _, _, [] => []
  | m, s, .frame a b :: rest =>
    match playFrame m s a b with
    | .ok s' => (m, s') :: framesM m s' rest
    | .fin => framesM m s rest
    | .diverge => []
  | m, s, .ctl c :: rest => framesM m (ctl m s c) rest
  | _, s, .rescan m' :: rest => framesM m' (rescanFix m' s) rest

def HistMOk : SeqMod → List CallM → Prop
  | _, [] => True
  | m, .frame a b :: rest => EffOk a ∧ EffOk b ∧ HistMOk m rest
  | m, .ctl _ :: rest => HistMOk m rest
  | m, .rescan m' :: rest => WF m' ∧ SameSong m m' ∧ HistMOk m' rest

/-- **C16_reachable_modes** (`C16_reachable` for histories with mode / timing switches between the
frames and position-control calls): after every successful frame the state is `Playing` for the
module tables then in force — in particular `sequence < num_sequences` of the CURRENT scan — and
satisfies the row invariant. -/
theorem C16_reachable_modes : ∀ (hist : List CallM) (m : SeqMod) (s : St), WF m → Core m s → RowInv m s → HistMOk m hist →
    ∀ ms ∈ framesM m s hist, WF ms.1 ∧ Playing ms.1 ms.2 ∧ RowInv ms.1 ms.2 ∧ ms.2.ftBpm = ms.2.bpm := by
  intro hist
  induction hist with
  | nil => intro m s _ _ _ _ ms hms; simp [framesM] at hms
  | cons c rest ih =>
    intro m s h hc hr he ms hms
    cases c with
    | frame a b =>
      obtain ⟨ea, eb, er⟩ := he
      unfold framesM at hms
      split at hms
      · rename_i s1 hf
        obtain ⟨p1, r1, f1⟩ := C16_inv_frame h hc hr ea eb hf
        rcases List.mem_cons.mp hms with e | e
        · subst e; exact ⟨h, p1, r1, f1⟩
        · exact ih m s1 h p1.core r1 er ms e
      · exact ih m s h hc hr er ms hms
      · simp at hms
    | ctl c =>
      unfold framesM at hms
      obtain ⟨c1, r1⟩ := C16_inv_control h hc hr c
      exact ih m _ h c1 r1 he ms hms
    | rescan m' =>
      obtain ⟨h', ss, er⟩ := he
      unfold framesM at hms
      obtain ⟨c1, r1, _⟩ := C16_inv_mode_switch h' ss hc hr
      exact ih m' _ h' c1 r1 er ms hms

/-! ### xmp_play_buffer: a call plays zero or more frames and nothing else

`Seq.playBuffer m loop s effs` is the sequencer side of `xmp_play_buffer(ctx, out, size, loop)`:
frames while the caller's buffer wants data, stopping at the first failed frame and after the first
frame that reaches the loop limit.  `Api` adds it to the histories. -/

/-- **C16_play_buffer**: from a state satisfying the boundary invariants, with effect outcomes
inside `EffOk`, every state `xmp_play_buffer` passes through (after each of the frames it plays,
for ANY loop limit and ANY number of frames demanded) is `Playing`, satisfies the row invariant,
has its frame time computed from the reported tempo, and reports a loop counter at least the one
before the call; the state the call leaves behind (`lastOr s`: the last of them, or `s`
itself when no frame succeeded) satisfies the boundary invariants again and its loop counter is
at least the one before the call — in particular the `-XMP_END` return (loop limit reached or
module ended) does not lower it. -/
theorem C16_play_buffer {m : SeqMod} (h : WF m) (loop : Int) : ∀ (effs : List (Eff × Eff)) (s : St), Core m s → RowInv m s →
    (∀ e ∈ effs, EffOk e.1 ∧ EffOk e.2) →
    (∀ s' ∈ playBuffer m loop s effs, Playing m s' ∧ RowInv m s' ∧ s'.ftBpm = s'.bpm ∧ s.loopCount ≤ s'.loopCount) ∧
    Core m (lastOr s (playBuffer m loop s effs)) ∧ RowInv m (lastOr s (playBuffer m loop s effs)) ∧
    s.loopCount ≤ (lastOr s (playBuffer m loop s effs)).loopCount := by
  intro effs
  induction effs with
  | nil => intro s hc hr _; exact ⟨fun s' hs' => by simp [playBuffer] at hs', by simpa [playBuffer, lastOr] using hc,
      by simpa [playBuffer, lastOr] using hr, by simp [playBuffer, lastOr]⟩
  | cons e rest ih =>
    intro s hc hr he
    have he1 := he e (List.mem_cons_self ..)
    unfold playBuffer
    cases hq : playFrame m s e.1 e.2 with
    | ok s1 =>
      obtain ⟨p1, r1, f1⟩ := C16_inv_frame h hc hr he1.1 he1.2 hq
      have l1 := C16_loop_monotone h hc he1.1 he1.2 hq
      simp only
      by_cases hl : loop > 0 ∧ s1.loopCount ≥ loop
      · rw [if_pos hl]
        refine ⟨fun s' hs' => ?_, ?_, ?_, ?_⟩
        · simp only [List.mem_singleton] at hs'; subst hs'; exact ⟨p1, r1, f1, l1⟩
        · simpa [lastOr] using p1.core
        · simpa [lastOr] using r1
        · simpa [lastOr] using l1
      · rw [if_neg hl]
        obtain ⟨a, b, c, d⟩ := ih s1 p1.core r1 (fun x hx => he x (List.mem_cons_of_mem _ hx))
        have hlast : lastOr s (s1 :: playBuffer m loop s1 rest) = lastOr s1 (playBuffer m loop s1 rest) := rfl
        refine ⟨fun s' hs' => ?_, ?_, ?_, ?_⟩
        · rcases List.mem_cons.mp hs' with e' | e'
          · subst e'; exact ⟨p1, r1, f1, l1⟩
          · obtain ⟨x1, x2, x3, x4⟩ := a s' e'; exact ⟨x1, x2, x3, by omega⟩
        · rw [hlast]; exact b
        · rw [hlast]; exact c
        · rw [hlast]; omega
    | fin => exact ⟨fun s' hs' => by simp at hs', by simpa [lastOr] using hc, by simpa [lastOr] using hr, by simp [lastOr]⟩
    | diverge => exact ⟨fun s' hs' => by simp at hs', by simpa [lastOr] using hc, by simpa [lastOr] using hr, by simp [lastOr]⟩

/-- API histories: single frames, position-control calls (incl. the `xmp_play_buffer(NULL)` reset
entry, `Ctl.bufReset`) and `xmp_play_buffer` calls with any loop limit. -/
inductive Api where
  | frame (eA eB : Eff)
  | ctl (c : Ctl)
  | buffer (loop : Int) (effs : List (Eff × Eff))

/-- states after every successful frame of an API history, those inside `xmp_play_buffer` calls
included (a diverging single frame ends the history, as in `frames`) -/
def framesApi (m : SeqMod) : St → List Api → List St
  | _, [] => []
  | s, .frame a b :: rest =>
    match playFrame m s a b with
    | .ok s' => s' :: framesApi m s' rest
    | .fin => framesApi m s rest
    | .diverge => []
  | s, .ctl c :: rest => framesApi m (ctl m s c) rest
  | s, .buffer loop effs :: rest =>
    playBuffer m loop s effs ++ framesApi m (lastOr s (playBuffer m loop s effs)) rest

def ApiEffsOk : List Api → Prop
  | [] => True
  | .frame a b :: rest => EffOk a ∧ EffOk b ∧ ApiEffsOk rest
  | .ctl _ :: rest => ApiEffsOk rest
  | .buffer _ effs :: rest => (∀ e ∈ effs, EffOk e.1 ∧ EffOk e.2) ∧ ApiEffsOk rest

/-- no position-control call (and no buffer reset) in the history -/
def NoCtl : List Api → Prop
  | [] => True
  | .ctl _ :: _ => False
  | _ :: rest => NoCtl rest

/-- **C16_reachable_api** (`C16_reachable` for histories that also contain `xmp_play_buffer`
calls with any loop limit and the reset entry): after every successful frame — played directly or
inside a buffer call, before or after a buffer call reported `-XMP_END`, with no restart needed —
the state is `Playing`, satisfies the row invariant, and the frame time was computed from the
reported tempo. -/
theorem C16_reachable_api {m : SeqMod} (h : WF m) : ∀ (hist : List Api) (s : St), Core m s → RowInv m s → ApiEffsOk hist →
    ∀ s' ∈ framesApi m s hist, Playing m s' ∧ RowInv m s' ∧ s'.ftBpm = s'.bpm := by
  intro hist
  induction hist with
  | nil => intro s _ _ _ s' hs'; simp [framesApi] at hs'
  | cons c rest ih =>
    intro s hc hr he s' hs'
    cases c with
    | frame a b =>
      obtain ⟨ea, eb, er⟩ := he
      unfold framesApi at hs'
      split at hs'
      · rename_i s1 hf
        obtain ⟨p1, r1, f1⟩ := C16_inv_frame h hc hr ea eb hf
        rcases List.mem_cons.mp hs' with e | e
        · subst e; exact ⟨p1, r1, f1⟩
        · exact ih s1 p1.core r1 er s' e
      · exact ih s hc hr er s' hs'
      · simp at hs'
    | ctl c =>
      unfold framesApi at hs'
      obtain ⟨c1, r1⟩ := C16_inv_control h hc hr c
      exact ih _ c1 r1 he s' hs'
    | buffer loop effs =>
      obtain ⟨eb, er⟩ := he
      unfold framesApi at hs'
      obtain ⟨a, b, c, _⟩ := C16_play_buffer h loop effs s hc hr eb
      rcases List.mem_append.mp hs' with e | e
      · obtain ⟨x1, x2, x3, _⟩ := a s' e; exact ⟨x1, x2, x3⟩
      · exact ih _ b c er s' e

/-- **C16_loop_monotone_api**: over any run of `xmp_play_frame` and `xmp_play_buffer` calls (any
loop limits, any buffer sizes, continuing after `-XMP_END`) with no position-control call and no
buffer reset in between, the loop counter reported after each successful frame is at least the one
before the run (applied to every suffix: the reported sequence never decreases). -/
theorem C16_loop_monotone_api {m : SeqMod} (h : WF m) : ∀ (hist : List Api) (s : St), Core m s → RowInv m s →
    ApiEffsOk hist → NoCtl hist → ∀ s' ∈ framesApi m s hist, s.loopCount ≤ s'.loopCount := by
  intro hist
  induction hist with
  | nil => intro s _ _ _ _ s' hs'; simp [framesApi] at hs'
  | cons c rest ih =>
    intro s hc hr he hn s' hs'
    cases c with
    | frame a b =>
      obtain ⟨ea, eb, er⟩ := he
      unfold framesApi at hs'
      split at hs'
      · rename_i s1 hf
        obtain ⟨p1, r1, _⟩ := C16_inv_frame h hc hr ea eb hf
        have l1 := C16_loop_monotone h hc ea eb hf
        rcases List.mem_cons.mp hs' with e | e
        · subst e; exact l1
        · have := ih s1 p1.core r1 er hn s' e; omega
      · exact ih s hc hr er hn s' hs'
      · simp at hs'
    | ctl c => exact absurd hn (by simp [NoCtl])
    | buffer loop effs =>
      obtain ⟨eb, er⟩ := he
      unfold framesApi at hs'
      obtain ⟨a, b, c, d⟩ := C16_play_buffer h loop effs s hc hr eb
      rcases List.mem_append.mp hs' with e | e
      · exact (a s' e).2.2.2
      · have := ih _ b c er hn s' e; omega

/-- `exMod` loops every 144 rows; a history that plays single frames, then a buffer call with loop
limit 1 whose frames cross the loop point (the call ends there), then goes on with a further buffer call and a
frame and no restart: the loop counter after the successful frames is 0, 1, 1, 1 -/
example : ((framesApi exMod { exPlaying with ord := 2, pos := 2, row := 63, frame := 4, numRows := 64, endPoint := 0 }
      [.frame noEff noEff, .buffer 1 [(noEff, noEff), (noEff, noEff), (noEff, noEff)], .buffer 1 [(noEff, noEff)],
       .frame noEff noEff]).map fun s => (s.pos, s.row, s.frame, s.loopCount)) =
    [(2, 63, 5, 0), (0, 0, 0, 1), (0, 0, 1, 1), (0, 0, 2, 1)] := by
  decide

example : framesUntilLimit 2 [0, 1, 2, 2] = 3 ∧ framesUntilLimit 0 [3, 4] = 2 ∧ framesUntilLimit 1 [] = 0 := by decide

theorem exMod_ordwf : OrdWF exMod := by unfold OrdWF; decide +kernel

example : Returns exMod exStart exHist := by unfold Returns; decide

/-- a marker module: orders `[0xfe, 0, 0xff, 0xfe, 1]`, sequence 0 enters at order 0, sequence 1 at
order 3; neither entry point holds a pattern and the restart position 0 does not either -/
def exMark : SeqMod :=
  { exMod with len := 5, xxo := [0xfe, 0, 0xff, 0xfe, 1] ++ List.replicate 251 0, marker := true,
               seqCtl := [0, 0, 0, 1, 1] ++ List.replicate 251 0xff, numSeq := 2, entry := [0, 3], scanOrd := [1, 4],
               scanRow := [0, 0], scanNum := [1, 1], oSpeed := List.replicate 256 6, oBpm := List.replicate 256 125 }

example : WF exMark ∧ OrdWF exMark := by unfold WF OrdWF; decide +kernel

/-- the marker module `exMark` has two sequences; playing its second sequence (order 4), a switch to
a mode without markers rescans the same song into ONE sequence (`exMark1`): the index 1, equal to
the new count, is reset to 0 — the witness of the seeded defect "`>` instead of `>=`" -/
def exMark1 : SeqMod :=
  { exMark with marker := false, seqCtl := List.replicate 5 0 ++ List.replicate 251 0xff, numSeq := 1, entry := [0],
                scanOrd := [1], scanRow := [0], scanNum := [1] }

example :
    let s : St := { exStart with ord := 4, pos := 4, sequence := 1, numRows := 16 }
    WF exMark1 ∧ SameSong exMark exMark1 ∧ Core exMark s ∧ (rescanFix exMark1 s).sequence = 0 := by
  refine ⟨by unfold WF; decide +kernel, ⟨rfl, rfl, rfl, rfl⟩, ?_, by decide⟩
  exact ⟨by decide, by decide, by decide, by decide, by decide, by decide, by decide, by decide, by decide, by decide, by decide⟩


/-- from order 4 of sequence 1 the loop wraps to the entry point 3 (a 0xfe marker) and stops on
order 4: two iterations; from order 1 of sequence 0 it meets the end marker at order 2, wraps to
order 0 (0xfe) and stops on order 1: three iterations; a jump far past the list wraps at once -/
example : nextOrderLoop exMark 1 2 4 false = some (4, true) ∧ nextOrderLoop exMark 1 1 4 false = none ∧
    nextOrderLoop exMark 0 2 1 false = some (1, true) ∧ nextOrderLoop exMark 0 1 1 false = none ∧
    nextOrderLoop exMark 0 2 200 false = some (1, true) := by decide

/-- without `OrdWF` the loop can hang: orders `[0xff, 0xff, 0]` of a marker module with a single
sequence entering at 0 (a module `libxmp_scan_sequences` refuses: its first scan plays no row) -/
example :
    let bad : SeqMod := { exMark with len := 3, xxo := [0xff, 0xff, 0] ++ List.replicate 253 0, numSeq := 1, entry := [0] }
    ordWfB bad = false ∧ nextOrderLoop bad 0 orderFuel 2 false = none := by decide +kernel

end Xmp.Seq

namespace Xmp.Fx
open Xmp.Seq Xmp.Gen.PlayerConsts

/-! ### The effect stages as sequences of modelled writes (src/effects.c, flow.c, player.c)

`Fx.processFx` is `libxmp_process_fx` restricted to the variables the kernel reads, for every effect
number and parameter; `Fx.Prim` lists the writes an effect stage can perform (a `process_fx` call
with any channel state and loop bookkeeping, a whole `read_row` over given events, the speed pre-scan of `check_delay`, an IT tempo slide
tick, a global-volume write; since the FAR tempo effects are modelled too (`Fx.farTranslate`), the
escape `raw` = a write by unmodelled code under the monitored `EffOk` is no longer needed for any
effect of libxmp's player).  `EnvOk env` is the only requirement on
the module: the tempo minimum of label `fx_s3m_bpm` is a non-zero byte. -/

/-- **C16_fx_env_ok**: for the code as it is in /repo (the generated `s3mBpmClamp` is
`CLAMP(min_bpm, 1, 255)`) `EnvOk` holds for EVERY time factor, quirk set, player mode and flow
mode: the theorems below then have no hypothesis on the module's effect configuration. -/
theorem C16_fx_env_ok (env : Env) (h : env.bpmClamp = s3mBpmClamp) : EnvOk env := envOk_generated h

/-- **C16_fx_writer_sites**: EVERY assignment in src/*.c to an effect-owned variable the kernel
reads (`p->speed`, `p->bpm`, `p->st26_speed`, `f->jump`, `f->jumpline`; list regenerated from the
sources on every run) sits in a function that is modelled — as part of the kernel (`XmpModel.Seq`),
as a `Prim` write of an effect stage (`libxmp_far_update_tempo` included: `Fx.farTempoFx`). A
new writer makes this theorem fail. -/
theorem C16_fx_writer_sites : ∀ w ∈ flowWriterSites, writerCovered w = true := by decide

/-- **C16_fx_range** (FxRange): for every effect number, parameter byte, channel, ST3 effect
memory, pattern-loop bookkeeping, quirk set, player mode, flow mode and every pre-state satisfying
the frame invariant, ONE modelled write of an effect stage is an instance of the abstract effect
outcome the C16 invariant theorems quantify over: it equals `applyEff s e` for an `e` inside
`EffOk`, and the frame invariant survives it.  This discharges the monitored range hypothesis for
the modelled effects. -/
theorem C16_fx_range {m : SeqMod} {env : Env} (he : EnvOk env) {s : St} (hp : Playing m s) {p : Prim} (hk : PrimOk env p) :
    ∃ e, EffOk e ∧ applyPrim env s p = applyEff s e ∧ Playing m (applyPrim env s p) := by
  obtain ⟨a, b⟩ := applyPrim_ok he (StOk.of_playing hp) hk
  refine ⟨effOfSt (applyPrim env s p), effOfSt_ok a, (applyEff_effOfSt b).symm, ?_⟩
  have := (applyEff_spec hp (effOfSt_ok a)).1
  rwa [applyEff_effOfSt b] at this

/-- **C16_fx_range_call**: the same on the flow record, for one `libxmp_process_fx` call: speed
stays in 1..255, tempo ≥ 1, `st26_speed` well-formed, `jump ≥ -1`, `jumpline ≥ 0`, whatever the
effect number (0..255 and beyond), parameter byte, channel, effect memory and loop state. -/
theorem C16_fx_range_call {env : Env} (he : EnvOk env) {ord row : Int} (chn volMem fxt : Int) {fxp : Int} {f f' : Flow} {vm : Int}
    (ho : 0 ≤ ord) (hr : 0 ≤ row) (hp : 0 ≤ fxp ∧ fxp ≤ 255) (h : FlowOk f)
    (hq : processFx env ord row chn volMem fxt fxp f = some (f', vm)) : FlowOk f' :=
  processFx_ok he chn volMem fxt ho hr hp h hq

/-- **C16_fx_range_row**: a whole `read_row` (speed pre-scan, delay decision, row-delay gate,
call order of the player mode) over ANY events with byte parameters keeps the range, from any
channel on, at any tick. -/
theorem C16_fx_range_row {env : Env} (he : EnvOk env) {ord row : Int} (frame : Int) (ho : 0 ≤ ord) (hr : 0 ≤ row)
    (chans : List (Ev × Int)) (chn : Int) {f f' : Flow} (hev : ∀ c ∈ chans, EvOk c.1) (h : FlowOk f)
    (hq : readRow env ord row frame chn chans f = some f') : FlowOk f' :=
  readRow_ok he frame ho hr chans chn f f' hev h hq

/-- **C16_far_tempo_range**: `libxmp_far_translate_tempo`, whenever it accepts (returns 0), yields a
speed in 4..37 and a tempo of at least `XMP_MIN_BPM` — for EVERY tempo mode, fine change, coarse
tempo and accumulated fine tempo, the negative tempos that a lowered fine tempo followed by a
slower coarse tempo produces included (the final clamp covers BOTH tempo modes); and the FAR tempo
effects `FX_FAR_TEMPO` / `FX_FAR_F_TEMPO` with any parameter, in any module-wide tempo state, keep
the range the kernel needs.  They are ordinary `Prim.fx` writes: `C16_fx_range`,
`C16_inv_frame_fx`, `C16_reachable_fx` cover FAR modules with no monitored escape. -/
theorem C16_far_tempo_range :
    (∀ (mode fc coarse fine : Int) (r : Int × Int), (farTranslate mode fc coarse fine).2 = some r →
      (4 ≤ r.1 ∧ r.1 ≤ 37) ∧ minBpm ≤ r.2) ∧
    (∀ (f : Flow) (fxt fxp : Int), FlowOk f → FlowOk (farTempoFx f fxt fxp)) :=
  ⟨fun mode fc coarse fine _ h => farTranslate_range mode fc coarse fine h, fun _ fxt fxp h => farTempoFx_ok h fxt fxp⟩

/-- **C16_frame_fx_refines**: a frame whose effect stages perform the writes `psA` (first tick of a
row) and `psB` is a frame of the abstract model `Seq.playFrame` for effect outcomes inside `EffOk`. -/
theorem C16_frame_fx_refines {m : SeqMod} (h : WF m) {env : Env} (he : EnvOk env) {s : St} (hc : Core m s) {psA psB : List Prim}
    (hA : PrimsOk env psA) (hB : PrimsOk env psB) :
    ∃ eA eB, EffOk eA ∧ EffOk eB ∧ playFrameFx m env s psA psB = playFrame m s eA eB :=
  playFrameFx_eq h.facts he hc hA hB

/-- **C16_inv_frame_fx** (`C16_inv_frame` with the effects as input): every successful
`xmp_play_frame` from a state satisfying the boundary invariants, whose effect stages perform ANY
sequences of modelled writes, ends in a `Playing` state that satisfies the row invariant and whose
frame time was computed from the reported tempo.  No range hypothesis on what the effects leave
behind. -/
theorem C16_inv_frame_fx {m : SeqMod} (h : WF m) {env : Env} (he : EnvOk env) {s s' : St} (hc : Core m s) (hr : RowInv m s)
    {psA psB : List Prim} (hA : PrimsOk env psA) (hB : PrimsOk env psB) (hf : playFrameFx m env s psA psB = .ok s') :
    Playing m s' ∧ RowInv m s' ∧ s'.ftBpm = s'.bpm ∧ s.loopCount ≤ s'.loopCount := by
  obtain ⟨eA, eB, a, b, e⟩ := C16_frame_fx_refines h he hc hA hB
  rw [e] at hf
  obtain ⟨x, y, z⟩ := C16_inv_frame h hc hr a b hf
  exact ⟨x, y, z, C16_loop_monotone h hc a b hf⟩

/-- **C16_inv_frame_fx_total**: with the order-list clause `OrdWF` there is no third outcome. -/
theorem C16_inv_frame_fx_total {m : SeqMod} (h : WF m) (ho : OrdWF m) {env : Env} (he : EnvOk env) {s : St} (hc : Core m s)
    (hr : RowInv m s) {psA psB : List Prim} (hA : PrimsOk env psA) (hB : PrimsOk env psB) :
    playFrameFx m env s psA psB = .fin ∨
    ∃ s', playFrameFx m env s psA psB = .ok s' ∧ Playing m s' ∧ RowInv m s' ∧ s'.ftBpm = s'.bpm := by
  obtain ⟨eA, eB, a, b, e⟩ := C16_frame_fx_refines h he hc hA hB
  rw [e]
  exact C16_inv_frame_total h ho hc hr a b

/-- histories whose frames carry the writes of their effect stages -/
inductive CallFx where
  | frame (psA psB : List Prim)
  | ctl (c : Ctl)

def framesFx (m : SeqMod) (env : Env) : St → List CallFx → List St
  | _, [] => []
  | s, .frame a b :: rest =>
    match playFrameFx m env s a b with
    | .ok s' => s' :: framesFx m env s' rest
    | .fin => framesFx m env s rest
    | .diverge => []
  | s, .ctl c :: rest => framesFx m env (ctl m s c) rest

def HistOk (env : Env) : List CallFx → Prop
  | [] => True
  | .frame a b :: rest => PrimsOk env a ∧ PrimsOk env b ∧ HistOk env rest
  | .ctl _ :: rest => HistOk env rest

/-- **C16_reachable_fx** (`C16_reachable` with the effects as input instead of abstract flow
values): for EVERY history of frames — each with ANY sequences of effect writes: any effect
numbers, parameters, channels, effect memories, loop states — and position-control calls (any
arguments, incl. the buffer reset), from any state satisfying the boundary invariants: after every
successful frame the state is `Playing`, satisfies the row invariant, and the frame time was
computed from the reported tempo. -/
theorem C16_reachable_fx {m : SeqMod} (h : WF m) {env : Env} (he : EnvOk env) : ∀ (hist : List CallFx) (s : St), Core m s →
    RowInv m s → HistOk env hist → ∀ s' ∈ framesFx m env s hist, Playing m s' ∧ RowInv m s' ∧ s'.ftBpm = s'.bpm := by
  intro hist
  induction hist with
  | nil => intro s _ _ _ s' hs'; simp [framesFx] at hs'
  | cons c rest ih =>
    intro s hc hr hh s' hs'
    cases c with
    | frame a b =>
      obtain ⟨ea, eb, er⟩ := hh
      unfold framesFx at hs'
      split at hs'
      · rename_i s1 hf
        obtain ⟨p1, r1, f1, _⟩ := C16_inv_frame_fx h he hc hr ea eb hf
        rcases List.mem_cons.mp hs' with e | e
        · subst e; exact ⟨p1, r1, f1⟩
        · exact ih s1 p1.core r1 er s' e
      · exact ih s hc hr er s' hs'
      · simp at hs'
    | ctl c =>
      unfold framesFx at hs'
      obtain ⟨c1, r1⟩ := C16_inv_control h hc hr c
      exact ih _ c1 r1 hh s' hs'

/-- **C16_reachable_fx_info**: the same on what `xmp_get_frame_info` reports: `0 ≤ pos < len`,
`pattern = xxo[pos] < pat`, `0 ≤ row < rows(pattern)`, `1 ≤ speed ≤ 255`, `bpm > 0`,
`frame_time > 0`, valid sequence. -/
theorem C16_reachable_fx_info {m : SeqMod} (h : WF m) {env : Env} (he : EnvOk env) (hist : List CallFx) (s : St) (hc : Core m s)
    (hr : RowInv m s) (hh : HistOk env hist) : ∀ s' ∈ framesFx m env s hist,
    InfoOk m (frameInfo m s') ∧ (frameInfo m s').row < (frameInfo m s').numRows ∧ 0 < s'.ftBpm := by
  intro s' hs'
  obtain ⟨p, r, _⟩ := C16_reachable_fx h he hist s hc hr hh s' hs'
  obtain ⟨a, b, c⟩ := C16_frame_info h p
  refine ⟨a, c r.numOk ?_, b⟩
  have := r.numOk; have := r.rowLt; unfold Fresh at *; omega

/-! #### Non-vacuity and the two excluded points

`exEnv`: a Scream Tracker 3 module (ST3 reader, ST3 effect memory, global loop target and count,
loop end advances), default time factor 10, 4 channels. -/
def exEnv : Env :=
  { quirk := quirkSt3bugs, flags := 0, readEvent := readEventSt3, flowMode := flowLoopGlobalTarget + flowLoopGlobalCount +
      flowLoopEndAdvances + flowLoopPatternReset, tfN := 10, tfD := 1, gvolbase := 64, chn := 4, far := false }

example : EnvOk exEnv := C16_fx_env_ok exEnv rfl

/-- the witness history of the seeded defect "clamp only in the old-tempo branch": `F0` (coarse 0,
base 256), seven times `DF` (fine tempo −105), `FF` (coarse 15, base 8): tempo −97; the unsigned
divisor takes 16 shifts, speed 21, and the tempo ends at the clamp `XMP_MIN_BPM` = 20 -/
example :
    let farEnv : Env := { exEnv with far := true }
    let ps : List Prim := [.fx {} 0 0 fxFarTempo 0x00] ++ List.replicate 7 (.fx {} 0 0 fxFarFTempo 0x0f) ++ [.fx {} 0 0 fxFarTempo 0x0f]
    farTranslate 1 0 15 (-105) = (-105, some (21, 20)) ∧ PrimsOk farEnv [.fx {} 0 0 fxFarTempo 0x0f] ∧
    ((processFx farEnv 1 3 0 0 fxFarTempo 0x0f { (toFlow exPlaying {}) with farCoarse := 0, farFine := -105 }).map
      fun r => (r.1.speed, r.1.bpm, r.1.farCoarse)) = some (21, 20, 15) ∧ ps.length = 9 := by
  refine ⟨by decide, ?_, by decide, by decide⟩
  intro p hp
  simp only [List.mem_cons, List.mem_nil_iff, or_false] at hp
  subst hp
  simp [PrimOk]


/-- a row with `A03` (speed 3), `T00` (tempo 0: clamped to the minimum 20), `C10` (break to row
10) and `SB0`/`SB2` (loop start, loop twice) on `exPlaying`: speed 3, tempo 20, pending break to
row 10, loop jump to row 3 armed -/
def exRowPrims : List Prim :=
  [.cdSpeed { fxt := fxS3mSpeed, fxp := 3, f2t := 0, f2p := 0 }, .fx {} 0 0 fxS3mSpeed 3, .fx {} 1 0 fxS3mBpm 0,
   .fx {} 2 0 fxBreak 0x10, .fx {} 3 0 fxExtended 0x60, .fx { loopStart := 3 } 3 0 fxExtended 0x62]

example : PrimsOk exEnv exRowPrims := by
  intro p hp
  simp only [exRowPrims, List.mem_cons, List.mem_nil_iff, or_false] at hp
  rcases hp with h | h | h | h | h | h <;> subst h <;> simp [PrimOk, EvOk]

example :
    let s := runPrims exEnv exPlaying exRowPrims
    (s.speed, s.bpm, s.pbreak, s.jumpline, s.loopDest, s.row, s.ord) = (3, 20, 1, 10, 3, 3, 1) := by decide

/-- the same row given as events (`Prim.row`: `read_row` itself decides which writes happen): channel
0 `A03`, channel 1 `T00`, channel 2 `C10`, channel 3 `SB2` with loop start 3 pending, plus a note
delay `SD1` with `A05` on a fifth channel (the speed pre-scan applies `A05`, the event itself is
stored for a later tick) -/
def exRowEvents : List (Ev × Int) :=
  [({ fxt := fxS3mSpeed, fxp := 3, f2t := 0, f2p := 0 }, 0), ({ fxt := fxS3mBpm, fxp := 0, f2t := 0, f2p := 0 }, 0),
   ({ fxt := fxBreak, fxp := 0x10, f2t := 0, f2p := 0 }, 0), ({ fxt := fxExtended, fxp := 0x62, f2t := 0, f2p := 0 }, 0),
   ({ fxt := fxExtended, fxp := 0xd1, f2t := fxS3mSpeed, f2p := 5 }, 0)]

example : PrimOk exEnv (.row { loopStart := 3 } exRowEvents) := by
  intro c hc
  simp only [exRowEvents, List.mem_cons, List.mem_nil_iff, or_false] at hc
  rcases hc with h | h | h | h | h <;> subst h <;> simp [EvOk]

example :
    let s := applyPrim exEnv exPlaying (.row { loopStart := 3 } exRowEvents)
    (s.speed, s.bpm, s.pbreak, s.jumpline, s.loopDest) = (5, 20, 1, 10, 3) := by decide

/-- a history inside the hypotheses of `C16_reachable_fx`: that row on the first tick of a row, then
plain frames; the break lands on order 2 (pattern 0) row 10 at speed 3, tempo 20 -/
def exHistFx : List CallFx :=
  [.frame [] [], .frame [] [], .frame [] [], .frame exRowPrims [], .frame [] [.tempoSlide 5], .frame [] [], .frame [] []]

example : ((framesFx exMod exEnv exPlaying exHistFx).map fun s => (s.pos, s.row, s.frame, s.speed, s.bpm)) =
    [(1, 3, 3, 6, 125), (1, 3, 4, 6, 125), (1, 3, 5, 6, 125), (1, 4, 0, 3, 20), (1, 4, 1, 3, 32), (1, 4, 2, 3, 32),
     (2, 10, 0, 3, 32)] := by
  decide

/-- **C16_fx_unclamped_counterexample** (regression witness of the finding `bpm:min_bpm_clamp`,
fixed in /repo 694de7b): WITHOUT the clamp of `min_bpm` (`bpmClamp := none`, the code before the
fix) `EnvOk` fails at the two excluded points and the tempo becomes 0:
time factor 128 (`xmp_set_tempo_factor(12.8)`): the minimum is 256, stored in a byte as 0 — `T80`
(and every other tempo effect) sets tempo 0; time factor 0.2 (`xmp_set_tempo_factor(0.02)`): the
minimum is 0 — `T00` sets tempo 0.  With the clamp both give a tempo of at least 1. -/
theorem C16_fx_unclamped_counterexample :
    let hi : Env := { exEnv with tfN := 128, bpmClamp := none }
    let lo : Env := { exEnv with tfN := 1, tfD := 5, bpmClamp := none }
    let f : Flow := toFlow exPlaying {}
    (¬ EnvOk hi) ∧ (¬ EnvOk lo) ∧ hi.minBpmEff = 256 ∧ lo.minBpmEff = 0 ∧
    ((processFx hi 1 3 0 0 fxS3mBpm 0x80 f).map fun r => r.1.bpm) = some 0 ∧
    ((processFx lo 1 3 0 0 fxS3mBpm 0 f).map fun r => r.1.bpm) = some 0 ∧
    ((processFx { hi with bpmClamp := some (1, 255) } 1 3 0 0 fxS3mBpm 0x80 f).map fun r => r.1.bpm) = some 255 ∧
    ((processFx { lo with bpmClamp := some (1, 255) } 1 3 0 0 fxS3mBpm 0 f).map fun r => r.1.bpm) = some 1 := by
  refine ⟨?_, ?_, by decide, by decide, by decide, by decide, by decide, by decide⟩
  · intro h; exact absurd h.2 (by decide)
  · intro h; exact absurd h.1 (by decide)

end Xmp.Fx

namespace Xmp.Tick
open Xmp.Gen.PlayerConsts

/-- **C16_ticksize**: for ALL inputs (any rate, time factor, rrate, tempo — valid or not), the
tick size used by the mixer is between `1 << ANTICLICK_SHIFT` and `XMP_MAX_FRAMESIZE / 4`
frames; the reported `buffer_size` is exactly that many whole sample frames of 1, 2 or 4 bytes,
positive, **never exceeds `XMP_MAX_FRAMESIZE`** (= the reported `total_size`), and fits both
mixer buffers as allocated by `libxmp_mixer_on`. -/
theorem C16_ticksize (freq tfN tfD rrN rrD bpm : Int) (mono bit8 : Bool) :
    let t := prepare freq tfN tfD rrN rrD bpm
    minTicks ≤ t ∧ t ≤ capTicks ∧
    bufferSize t mono bit8 = t * frameBytes mono bit8 ∧
    (frameBytes mono bit8 = 1 ∨ frameBytes mono bit8 = 2 ∨ frameBytes mono bit8 = 4) ∧
    bufferSize t mono bit8 % frameBytes mono bit8 = 0 ∧ 0 < bufferSize t mono bit8 ∧
    bufferSize t mono bit8 ≤ maxFramesize ∧
    bufferSize t mono bit8 ≤ maxFramesize * sizeofInt16 ∧ buf32Bytes t mono ≤ maxFramesize * sizeofInt32 := by
  intro t
  have hr := prepare_range freq tfN tfD rrN rrD bpm
  have hb := bufferSize_eq t mono bit8
  have hf := frameBytes_cases mono bit8
  rw [minTicks_eq, capTicks_eq] at *
  have ht : 8 ≤ t ∧ t ≤ 6146 := hr
  refine ⟨ht.1, ht.2, hb, hf, ?_, ?_, ?_, ?_, ?_⟩
  · rw [hb]; exact Int.mul_emod_left _ _
  · rw [hb]; rcases hf with h | h | h <;> rw [h] <;> omega
  · rw [hb]; simp only [maxFramesize]; rcases hf with h | h | h <;> rw [h] <;> omega
  · rw [hb]; simp only [maxFramesize, sizeofInt16]; rcases hf with h | h | h <;> rw [h] <;> omega
  · simp only [buf32Bytes, maxFramesize, sizeofInt32]; split <;> omega

/-- **C16_cap_constants**: the three frame-size caps as the C writes them (divisors of `XMP_MAX_FRAMESIZE`
extracted from `libxmp_mixer_prepare` — the tested and the substituted value — and from
`xmp_set_tempo_factor` on every run) all leave room for the widest frame: 4 bytes (16-bit stereo) times the cap
fit `XMP_MAX_FRAMESIZE`, and the cap that accepts a tempo factor is not above the one the mixer enforces on
every tick.  A cap written in samples instead of bytes (`/ 2`) at either place falsifies this and with it
`C16_ticksize` / `C16_framesize_bound`, for every rate, format, tempo and time factor — also those only reachable
by a tempo change through position control or a restart of the player at a higher rate. -/
theorem C16_cap_constants :
    capTicks * 4 ≤ maxFramesize ∧ capSetTicks * 4 ≤ maxFramesize ∧ capFactorTicks ≤ capTicks ∧ capSetTicks ≤ capTicks :=
  ⟨cap_bytes.1, cap_bytes.2.1, cap_bytes.2.2, by rw [capSetTicks_eq, capTicks_eq]; omega⟩

/-- **C16_framesize_bound** (full strength since /repo ec96084 caps the tick size at
`XMP_MAX_FRAMESIZE / 4` frames): for all inputs `buffer_size ≤ XMP_MAX_FRAMESIZE`. -/
theorem C16_framesize_bound (freq tfN tfD rrN rrD bpm : Int) (mono bit8 : Bool) :
    bufferSize (prepare freq tfN tfD rrN rrD bpm) mono bit8 ≤ maxFramesize :=
  (C16_ticksize freq tfN tfD rrN rrD bpm mono bit8).2.2.2.2.2.2.1

/-- the former counterexample (49170 Hz 16-bit stereo, time factor 100, 125 BPM: 9834 frames
wanted) is now clamped to 6146 frames = 24584 bytes -/
example : prepare 49170 100 1 250 1 125 = 6146 ∧ bufferSize (prepare 49170 100 1 250 1 125) false false = 24584 := by
  decide

/-- **C16_ticksize_agrees**: when neither clamp applies (the unclamped tick count
`⌊rate·time_factor·rrate/(bpm·1000)⌋` lies between the 8-frame minimum and the cap) and the
sampling rate is in the accepted range, the buffer holds within one sample frame what sampling
rate × reported frame time (µs, not saturated) gives: `t·10⁶ − rate < rate·frame_time < (t+1)·10⁶`. -/
theorem C16_ticksize_agrees (freq tfN tfD rrN rrD bpm : Int) (h1 : minSrate ≤ freq) (h1' : freq ≤ maxSrate)
    (h2 : 0 < bpm) (h3 : 0 < tfN) (h4 : 0 < rrN) (h5 : 0 < tfD) (h6 : 0 < rrD)
    (hlo : minTicks ≤ rawTicks freq (tfN * rrN) (tfD * rrD) bpm)
    (hhi : rawTicks freq (tfN * rrN) (tfD * rrD) bpm ≤ capTicks) :
    let t := prepare freq tfN tfD rrN rrD bpm
    let ft := frameTimeUs tfN tfD rrN rrD bpm
    t = rawTicks freq (tfN * rrN) (tfD * rrD) bpm ∧ 0 < ft ∧ ft < intMax ∧
    t * 1000000 - freq < freq * ft ∧ freq * ft < (t + 1) * 1000000 := by
  intro t ft
  simp only [minSrate, maxSrate] at h1 h1'
  have hP : 0 < tfN * rrN := Int.mul_pos h3 h4
  have hD : 0 < tfD * rrD * bpm := Int.mul_pos (Int.mul_pos h5 h6) h2
  have core := agree_core freq (tfN * rrN) (tfD * rrD * bpm) (by omega) (by omega) hD
  have hraw : rawTicks freq (tfN * rrN) (tfD * rrD) bpm ≤ 6146 := by rw [capTicks_eq] at hhi; exact hhi
  have ht : t = rawTicks freq (tfN * rrN) (tfD * rrD) bpm := by
    show prepare freq tfN tfD rrN rrD bpm = _
    unfold prepare getTicksize
    simp only [capTicks_eq]
    have hv : ¬ (freq ≤ 0 ∨ bpm ≤ 0 ∨ tfN ≤ 0 ∨ rrN ≤ 0) := by omega
    rw [if_neg hv]
    have hmax : ¬ freq * (tfN * rrN) > intMax * (tfD * rrD * bpm * 1000) := by
      intro hc
      have : (6146 + 1) * (tfD * rrD * bpm * 1000) ≤ freq * (tfN * rrN) := by
        simp only [intMax] at hc
        have : 6147 * (tfD * rrD * bpm * 1000) ≤ 2147483647 * (tfD * rrD * bpm * 1000) :=
          Int.mul_le_mul_of_nonneg_right (by omega) (by omega)
        omega
      have h := Int.le_ediv_of_mul_le (by omega : 0 < tfD * rrD * bpm * 1000) this
      unfold rawTicks at hraw
      omega
    rw [if_neg hmax]
    have hin : (if rawTicks freq (tfN * rrN) (tfD * rrD) bpm < minTicks then minTicks
        else rawTicks freq (tfN * rrN) (tfD * rrD) bpm) = rawTicks freq (tfN * rrN) (tfD * rrD) bpm :=
      if_neg (by omega)
    simp only [hin]
    rw [if_neg (by rw [minTicks_eq] at hlo; omega)]
  -- the unsaturated frame time
  generalize hv : 1000 * (tfN * rrN) / (tfD * rrD * bpm) = v at core
  have c1 := core.1
  have c2 := core.2
  unfold rawTicks at hlo hraw
  rw [minTicks_eq] at hlo
  have vpos : 0 < v := by
    refine Int.lt_of_not_ge fun hle => ?_
    have : freq * v ≤ freq * 0 := Int.mul_le_mul_of_nonneg_left hle (by omega)
    omega
  have vsmall : v < 1536750 := by
    refine Int.lt_of_not_ge fun hge => ?_
    have : 4000 * v ≤ freq * v := Int.mul_le_mul_of_nonneg_right h1 (by omega)
    omega
  have hft : ft = v := by
    show frameTimeUs tfN tfD rrN rrD bpm = v
    unfold frameTimeUs
    simp only [hv, intMax]
    rw [if_neg (by omega)]
  rw [hft, ht]
  unfold rawTicks
  exact ⟨rfl, vpos, by simp only [intMax]; omega, c1, c2⟩

/-- **C16_tempo_factor_no_clamp**: a tempo factor that `xmp_set_tempo_factor` ACCEPTS is never
clamped by `libxmp_mixer_prepare` at the rate and tempo it was accepted for: the tick size the
mixer uses is exactly what `libxmp_mixer_get_ticksize` computes (between the 8-frame minimum and
`XMP_MAX_FRAMESIZE / 4`), so the reported buffer size agrees with rate × frame time
(`C16_ticksize_agrees`) — and the same holds for every FASTER tempo later set by the module
(`bpm ≤ bpm'`); only a slower tempo or a higher rate can bring the cap back.  A refused factor
leaves `m->time_factor` alone (`none`). -/
theorem C16_tempo_factor_no_clamp (freq rrN rrD bpm vN vD n d : Int) (hvd : 0 < vD) (hrd : 0 < rrD)
    (h : setTempoFactor freq rrN rrD bpm vN vD = some (n, d)) :
    n = vN * 10 ∧ d = vD ∧ 0 < n ∧
    (∀ bpm', bpm ≤ bpm' →
      prepare freq n d rrN rrD bpm' = getTicksize freq n d rrN rrD bpm' ∧
      minTicks ≤ prepare freq n d rrN rrD bpm' ∧ prepare freq n d rrN rrD bpm' ≤ capTicks) := by
  unfold setTempoFactor at h
  by_cases hv : vN ≤ 0
  · rw [if_pos hv] at h; cases h
  rw [if_neg hv] at h
  simp only at h
  by_cases ht : getTicksize freq (vN * 10) vD rrN rrD bpm < 0 ∨ getTicksize freq (vN * 10) vD rrN rrD bpm > capFactorTicks
  · rw [if_pos ht] at h; cases h
  rw [if_neg ht] at h
  simp only [Option.some.injEq, Prod.mk.injEq] at h
  obtain ⟨hn, hd⟩ := h
  subst hn; subst hd
  have hcf := cap_bytes.2.2      -- the cap of xmp_set_tempo_factor is not above the one of libxmp_mixer_prepare
  refine ⟨rfl, rfl, by omega, fun bpm' hb => ?_⟩
  have a := getTicksize_antitone freq (vN * 10) vD rrN rrD bpm bpm' hvd hrd hb (by omega)
  have r := getTicksize_range freq (vN * 10) vD rrN rrD bpm'
  have e : prepare freq (vN * 10) vD rrN rrD bpm' = getTicksize freq (vN * 10) vD rrN rrD bpm' := by
    unfold prepare
    simp only
    rw [if_neg (by omega)]
  rw [e]
  exact ⟨rfl, by rcases r with r | r <;> omega, by omega⟩

/-- 44100 Hz, PAL rate, 125 BPM: factor 6.5 is accepted (5733 frames per tick, no clamp);
factor 7 would need 6174 frames and is refused; 49170 Hz at 20 BPM accepts factor 1 (exactly the
cap, 6146 frames) and refuses 1.001; non-positive factors are refused -/
example : setTempoFactor 44100 250 1 125 13 2 = some (130, 2) ∧ prepare 44100 130 2 250 1 125 = 5733 ∧
    setTempoFactor 44100 250 1 125 7 1 = none ∧ getTicksize 44100 70 1 250 1 125 = 6174 ∧
    setTempoFactor 49170 250 1 20 1 1 = some (10, 1) ∧ prepare 49170 10 1 250 1 20 = 6146 ∧
    setTempoFactor 49170 250 1 20 1001 1000 = none ∧ setTempoFactor 44100 250 1 125 (-1) 1 = none := by decide

example := C16_tempo_factor_no_clamp 44100 250 1 125 13 2 130 2 (by decide) (by decide) (by decide)

end Xmp.Tick

namespace Xmp.Virt

/-- **C16_virt_inv**: the bookkeeping invariant `VInv` (voice↔channel maps mutually inverse,
`virt_used` = number of voices in use, `count[c]` = number of voices rooted at `c`, sizes) is
established by `libxmp_virt_on` for any non-negative voice count and preserved by EVERY
operation of virtual.c that writes the tables or a modelled voice field (`reset`, `resetvoice`,
`resetchannel`, `setvol`, `setpatch` incl. voice stealing and the NNA relocation, `pastnote` CUT /
OFF / FADE, `setnna`, `setsmp`, `queuepatch`) under the operation's
precondition `OpOk` (monitored by the harness at every real call): `resetvoice` on a voice in
use; `setpatch` on a track channel, and either as many background slots as voices
(`QUIRK_VIRTUAL`: `virtOn_quirk`) or no NNA relocation pending. The pigeonhole argument for the
relocation scan is proved (`exists_free_background`), not assumed. -/
theorem C16_virt_inv :
    (∀ (numTracks numvoc : Int) (q : Bool), 0 ≤ numTracks → 0 ≤ numvoc → VInv (virtOn numTracks numvoc q)) ∧
    (∀ (s : VState) (op : Op), VInv s → OpOk s op → VInv (step s op)) :=
  ⟨fun nt nv q h1 h2 => virtOn_inv nt nv q h1 h2, fun _ _ h ok => step_inv h ok⟩

/-- **C16_virt**: after `libxmp_virt_on` and any history of virtual.c operations whose
preconditions hold where they run: `0 ≤ virt_used ≤ maxvoc ≤ virt_channels`. -/
theorem C16_virt (numTracks numvoc : Int) (q : Bool) (h1 : 0 ≤ numTracks) (h2 : 0 ≤ numvoc) (ops : List Op)
    (ok : RunOk (virtOn numTracks numvoc q) ops) :
    0 ≤ (ops.foldl step (virtOn numTracks numvoc q)).virtUsed ∧
    (ops.foldl step (virtOn numTracks numvoc q)).virtUsed ≤ (ops.foldl step (virtOn numTracks numvoc q)).maxvoc ∧
    (ops.foldl step (virtOn numTracks numvoc q)).maxvoc ≤ (ops.foldl step (virtOn numTracks numvoc q)).virtChannels :=
  run_bounds (virtOn_inv numTracks numvoc q h1 h2) ops ok

/-- non-vacuity: a history on 2 tracks + 3 voices whose second `setpatch` (NNA = continue)
takes the relocation branch satisfies the hypotheses, and 3 voices are then in use -/
example : RunOk (virtOn 2 3 true) demoOps ∧ ((demoOps.take 3).foldl step (virtOn 2 3 true)).virtUsed = 3 := by
  decide

/-- the field-only operations: after two notes on channel 0 (the first voice relocated to background
channel 2), `setnna` changes the pending action of the foreground voice, `setsmp` its sample (and
zeroes its volume), `queuepatch` its instrument; `pastnote OFF` leaves the tables alone -/
example :
    let s := ([.setPatch 0 1 1 60 1 0 0, .setPatch 0 1 1 62 1 0 0, .setNna 0 3 true, .setSmp 0 7, .queueIns 0 4,
               .pastNoteOther 0 2] : List Op).foldl step (virtOn 2 3 true)
    ((s.voice 1).chn, (s.voice 1).act, (s.voice 1).smp, (s.voice 1).ins, s.virtUsed, (s.voice 0).chn) = (0, 3, 7, 4, 2, 2) := by
  decide

end Xmp.Virt
