import XmpProofs.Seq
import XmpProofs.Tick
import XmpProofs.Virt
/-!
# C16 — Every frame reports a consistent, in-range player state

Property theorems over the models `XmpModel.Seq` (sequencer kernel of player.c / control.c),
`XmpModel.Tick` (tick size, mixer.c) and `XmpModel.Virt` (voice tables, virtual.c).

Setting.  `WF m`: the module data the kernel reads is well-formed (`Seq.wfB`, evaluated by the
driver on every module the harness plays).  One frame = kernel ; effects A ; ST2.6 step ; effects
B, where the effect stages are arbitrary writes constrained by `EffOk` (monitored on every real
frame).  `Core` is the range invariant of every API boundary, `RowInv` its row part, `Playing`
= `Core ∧ pos = ord`, `Fresh` = "`f->num_rows` is the row count of the current pattern".
-/
namespace Xmp.Seq

/-- The C16 clauses on what `xmp_get_frame_info` reports (all but `row < rows`). -/
structure InfoOk (m : SeqMod) (i : Info) : Prop where
  pos : 0 ≤ i.pos ∧ i.pos < m.len
  pattern : i.pattern = m.xo i.pos ∧ 0 ≤ i.pattern ∧ i.pattern < m.pat
  numRows : i.numRows = m.rowsOf i.pattern ∧ 1 ≤ i.numRows
  row : 0 ≤ i.row
  speed : 1 ≤ i.speed ∧ i.speed ≤ 255
  bpm : 0 < i.bpm
  sequence : 0 ≤ i.sequence ∧ i.sequence < m.numSeq

/-- **C16_frame_info**: in a `Playing` state the reported fields satisfy every range clause;
if moreover `num_rows` is fresh and `row < num_rows`, the reported row is inside the pattern. -/
theorem C16_frame_info {m : SeqMod} (h : WF m) {s : St} (hp : Playing m s) :
    InfoOk m (frameInfo m s) ∧ 0 < s.ftBpm ∧
    (Fresh m s → s.row < s.numRows → (frameInfo m s).row < (frameInfo m s).numRows) := by
  have w := h.facts
  have c := hp.core
  have hpos : s.pos ≥ 0 ∧ s.pos < m.len := by rw [hp.posOrd]; exact ⟨c.ord.1, c.ord.2⟩
  have hx := w.xo s.ord c.ord.1 (by have := w.len; have := c.ord; omega)
  have hr := w.rows (m.xo s.ord) hx.1 c.ordPat
  unfold frameInfo
  simp only [hpos, and_self, if_true]
  rw [hp.posOrd]
  simp only [c.ordPat, if_true]
  have hb : 0 < s.bpm := by have := c.bpm; omega
  refine ⟨⟨c.ord, ⟨rfl, hx.1, c.ordPat⟩, ⟨rfl, hr⟩, c.row, c.speed, hb, c.seq⟩,
    by have := c.ftBpm; omega, ?_⟩
  intro hf hlt
  unfold Fresh at hf
  omega

/-- **C16_inv_start**: after `xmp_start_player` the boundary invariant holds. -/
theorem C16_inv_start {m : SeqMod} (h : WF m) (speed0 : Int) {s : St} (hs : start m speed0 = some s) :
    Core m s ∧ RowInv m s ∧ s.loopCount = 0 :=
  start_spec h.facts hs

/-- **C16_inv_frame**: every successful `xmp_play_frame` from a state satisfying the range
invariant, with effect outcomes inside `EffOk`, ends in a `Playing` state whose frame time was
computed from the reported (positive) tempo; with the row invariant it also ends with a fresh
`num_rows` and `row < num_rows`. -/
theorem C16_inv_frame {m : SeqMod} (h : WF m) {s s' : St} {eA eB : Eff} (hc : Core m s) (ha : EffOk eA)
    (hb : EffOk eB) (hf : playFrame m s eA eB = .ok s') :
    Playing m s' ∧ s'.ftBpm = s'.bpm ∧ (RowInv m s → Fresh m s' ∧ s'.row < s'.numRows) := by
  obtain ⟨a, b, _, d⟩ := playFrame_core h.facts hc ha hb hf
  exact ⟨a, b, d⟩

/-- **C16_loop_monotone**: a frame never decreases the loop counter. -/
theorem C16_loop_monotone {m : SeqMod} (h : WF m) {s s' : St} {eA eB : Eff} (hc : Core m s) (ha : EffOk eA)
    (hb : EffOk eB) (hf : playFrame m s eA eB = .ok s') : s.loopCount ≤ s'.loopCount :=
  (playFrame_core h.facts hc ha hb hf).2.2.1

/- A failed frame (`-XMP_END`) leaves the state alone by construction of `Res.fin`; the
boundary invariants therefore survive it trivially. -/

/-- **C16_inv_control** (range part, full strength): every position-control call — accepted
or refused, with any argument — preserves the range invariant. -/
theorem C16_inv_control {m : SeqMod} (h : WF m) {s : St} (hc : Core m s) (c : Ctl) : Core m (ctl m s c) :=
  (ctl_spec h.facts hc c).1

/- Full statement that does NOT hold for the code as it is:
   `RowInv m s → RowInv m (ctl m s c)` for every call.  `set_position` overwrites `f->num_rows`
   with the row count of the *target* pattern; a second call that moves the target back onto the
   order being played cancels the reposition but leaves that stale value (see
   `C16_control_counterexample`).  Proved: the row invariant survives every call made while
   `f->num_rows` is fresh (in particular the first call after a frame or after `xmp_set_row`). -/
/-- **C16_inv_control_partial**: row part, under the hypothesis `Fresh` for the
`set_position` family (`xmp_set_row`, `xmp_stop_module`, `xmp_restart_module` need nothing). -/
theorem C16_inv_control_partial {m : SeqMod} (h : WF m) {s : St} (hc : Core m s) (hr : RowInv m s) (c : Ctl)
    (hfresh : isPosCall c = true → Fresh m s) : Core m (ctl m s c) ∧ RowInv m (ctl m s c) :=
  ⟨(ctl_spec h.facts hc c).1, (ctl_spec h.facts hc c).2 hr hfresh⟩

/-! ### Histories -/

inductive Call where
  | frame (eA eB : Eff)
  | ctl (c : Ctl)

/-- States after every *successful* frame of a history (a diverging frame ends the history:
the C call does not return). -/
def frames (m : SeqMod) : St → List Call → List St
  | _, [] => []
  | s, .frame a b :: rest =>
    match playFrame m s a b with
    | .ok s' => s' :: frames m s' rest
    | .fin => frames m s rest
    | .diverge => []
  | s, .ctl c :: rest => frames m (ctl m s c) rest

def EffsOk : List Call → Prop
  | [] => True
  | .frame a b :: rest => EffOk a ∧ EffOk b ∧ EffsOk rest
  | .ctl _ :: rest => EffsOk rest

/-- every call of the `set_position` family is made while `f->num_rows` is fresh -/
def FreshAtPos (m : SeqMod) : St → List Call → Prop
  | _, [] => True
  | s, .frame a b :: rest =>
    match playFrame m s a b with
    | .ok s' => FreshAtPos m s' rest
    | .fin => FreshAtPos m s rest
    | .diverge => True
  | s, .ctl c :: rest => (isPosCall c = true → Fresh m s) ∧ FreshAtPos m (ctl m s c) rest

/-- **C16_reachable**: for every history of frames and position-control calls (any arguments)
whose effect outcomes stay inside `EffOk`, started from any state satisfying the range
invariant (e.g. `start`, `C16_inv_start`): after every successful frame the state is `Playing`
with `frame_time` computed from a positive tempo — hence (`C16_frame_info`) `0 ≤ pos < len`,
`pattern = xxo[pos] < pat`, `0 ≤ row`, `1 ≤ speed ≤ 255`, `bpm > 0`, `frame_time > 0`,
`sequence < num_sequences`. -/
theorem C16_reachable {m : SeqMod} (h : WF m) : ∀ (hist : List Call) (s : St), Core m s → EffsOk hist →
    ∀ s' ∈ frames m s hist, Playing m s' ∧ s'.ftBpm = s'.bpm := by
  intro hist
  induction hist with
  | nil => intro s _ _ s' hs'; simp [frames] at hs'
  | cons c rest ih =>
    intro s hc he s' hs'
    cases c with
    | frame a b =>
      obtain ⟨ea, eb, er⟩ := he
      unfold frames at hs'
      split at hs'
      · rename_i s1 hf
        obtain ⟨p1, f1, _⟩ := C16_inv_frame h hc ea eb hf
        rcases List.mem_cons.mp hs' with e | e
        · subst e; exact ⟨p1, f1⟩
        · exact ih s1 p1.core er s' e
      · exact ih s hc er s' hs'
      · simp at hs'
    | ctl c =>
      unfold frames at hs'
      exact ih _ (C16_inv_control h hc c) he s' hs'

/-- **C16_reachable_partial** (row clause): as `C16_reachable`, started from a state that also
satisfies the row invariant, and under `FreshAtPos` (no `set_position`-family call is made on a
stale `f->num_rows`): after every successful frame `num_rows` is fresh and `row < num_rows`,
hence (`C16_frame_info`) the reported row is inside the reported pattern.
Full statement (without `FreshAtPos`) is refuted by `C16_control_counterexample`. -/
theorem C16_reachable_partial {m : SeqMod} (h : WF m) : ∀ (hist : List Call) (s : St), Core m s → RowInv m s →
    EffsOk hist → FreshAtPos m s hist → ∀ s' ∈ frames m s hist, Fresh m s' ∧ s'.row < s'.numRows := by
  intro hist
  induction hist with
  | nil => intro s _ _ _ _ s' hs'; simp [frames] at hs'
  | cons c rest ih =>
    intro s hc hr he hfp s' hs'
    cases c with
    | frame a b =>
      obtain ⟨ea, eb, er⟩ := he
      unfold frames at hs'
      unfold FreshAtPos at hfp
      split at hs'
      · rename_i s1 hf
        rw [hf] at hfp
        obtain ⟨p1, _, r1⟩ := C16_inv_frame h hc ea eb hf
        have r1 := r1 hr
        rcases List.mem_cons.mp hs' with e | e
        · subst e; exact r1
        · refine ih s1 p1.core ⟨?_, fun _ => r1.1⟩ er hfp s' e
          have := r1.1; unfold Fresh at this; omega
      · rename_i hf
        rw [hf] at hfp
        exact ih s hc hr er hfp s' hs'
      · simp at hs'
    | ctl c =>
      unfold frames at hs'
      obtain ⟨f1, f2⟩ := hfp
      obtain ⟨c1, r1⟩ := C16_inv_control_partial h hc hr c f1
      exact ih _ c1 r1 he f2 s' hs'

/-- **C16_loop_monotone_run**: over any run of frames with no position-control call in
between, the loop counter reported after each successful frame is at least the one before
the run (applied to every suffix: the reported sequence is non-decreasing). -/
theorem C16_loop_monotone_run {m : SeqMod} (h : WF m) : ∀ (effs : List (Eff × Eff)) (s : St), Core m s →
    (∀ e ∈ effs, EffOk e.1 ∧ EffOk e.2) →
    ∀ s' ∈ frames m s (effs.map fun e => .frame e.1 e.2), s.loopCount ≤ s'.loopCount := by
  intro effs
  induction effs with
  | nil => intro s _ _ s' hs'; simp [frames] at hs'
  | cons e rest ih =>
    intro s hc he s' hs'
    have he1 := he e (List.mem_cons_self ..)
    simp only [List.map_cons] at hs'
    unfold frames at hs'
    split at hs'
    · rename_i s1 hf
      have l1 := C16_loop_monotone h hc he1.1 he1.2 hf
      have p1 := (C16_inv_frame h hc he1.1 he1.2 hf).1
      rcases List.mem_cons.mp hs' with e' | e'
      · subst e'; exact l1
      · have := ih s1 p1.core (fun x hx => he x (List.mem_cons_of_mem _ hx)) s' e'
        omega
    · exact ih s hc (fun x hx => he x (List.mem_cons_of_mem _ hx)) s' hs'
    · simp at hs'

/-! ### Non-vacuity and the counterexample

`exMod`: 3 orders `[0, 1, 0]`, pattern 0 has 64 rows, pattern 1 has 16 rows, one sequence that
loops to order 0 row 0 (`scan[0] = {ord 0, row 0, num 1}`), speed 6, 125 BPM. -/
def exMod : SeqMod :=
  { len := 3, pat := 2, rst := 0, xxo := [0, 1, 0] ++ List.replicate 253 0, rows := [64, 16], marker := false,
    protrack := false, seqCtl := [0, 0, 0] ++ List.replicate 253 0xff, numSeq := 1, entry := [0], scanOrd := [0],
    scanRow := [0], scanNum := [1], oSpeed := [6, 6, 6] ++ List.replicate 253 0,
    oBpm := [125, 125, 125] ++ List.replicate 253 0, oGvl := List.replicate 256 64, oSt26 := List.replicate 256 0,
    oTime := [0, 7680, 9600] ++ List.replicate 253 (-1), volbase := 64 }

theorem exMod_wf : WF exMod := by unfold WF; decide +kernel

example : WF exMod := exMod_wf

/-- the state after `xmp_start_player` -/
def exStart : St := (start exMod 0).getD default

example : start exMod 0 = some exStart := by decide
example : Core exMod exStart ∧ RowInv exMod exStart := by
  have := C16_inv_start (m := exMod) exMod_wf 0 (s := exStart) (by decide)
  exact ⟨this.1, this.2.1⟩

/-- a non-trivial effect outcome inside `EffOk`: pattern break to row 3 with a jump to order 1 and speed 3 -/
def exEff : Eff := { pbreak := some 1, jump := some 1, jumpline := some 3, speed := some 3 }

example : EffOk exEff ∧ EffOk noEff := by
  refine ⟨⟨?_, ?_, ?_, ?_, ?_⟩, ⟨?_, ?_, ?_, ?_, ?_⟩⟩ <;> intro v hv <;> simp [exEff, noEff] at hv <;> omega

/-- playing on order 1 (pattern 1, 16 rows), row 3 -/
def exPlaying : St :=
  { exStart with ord := 1, pos := 1, row := 3, frame := 2, numRows := 16 }

example : Core exMod exPlaying ∧ RowInv exMod exPlaying := by
  refine ⟨⟨by decide, by decide, by decide, by decide, by decide, by decide, by decide, by decide, by decide, by decide,
    by decide⟩, ⟨by decide, fun _ => by unfold Fresh; decide⟩⟩

/-- **C16_control_counterexample**: from a state satisfying the full invariant, the calls
`xmp_set_position(0)` (which sets `f->num_rows` to the 64 rows of pattern 0 and requests a
restart) followed by `xmp_set_position(1)` (back onto the order being played: the reposition is
cancelled) leave `f->num_rows = 64` while pattern 1 has 16 rows; playing on, the reported row
reaches 16 = the reported number of rows.  The real library reproduces this
(oracle signature `row:stale_num_rows`). -/
def exAfterCalls : St := ctl exMod (ctl exMod exPlaying (.setPos 0)) (.setPos 1)

/-- `n` frames with no effects -/
def playN (m : SeqMod) : Nat → St → St
  | 0, s => s
  | n + 1, s => match playFrame m s noEff noEff with
    | .ok s' => playN m n s'
    | _ => s

theorem C16_control_counterexample :
    exAfterCalls.pos = exAfterCalls.ord ∧ exAfterCalls.numRows = 64 ∧ ¬ Fresh exMod exAfterCalls ∧
    (frameInfo exMod (playN exMod 76 exAfterCalls)).row = 16 ∧
    (frameInfo exMod (playN exMod 76 exAfterCalls)).numRows = 16 ∧
    (frameInfo exMod (playN exMod 76 exAfterCalls)).pattern = 1 := by
  unfold Fresh
  decide

end Xmp.Seq

namespace Xmp.Tick
open Xmp.Gen.PlayerConsts

/-- **C16_ticksize**: for ALL inputs (any rate, time factor, rrate, tempo — valid or not), the
tick size used by the mixer is between `1 << ANTICLICK_SHIFT` and `XMP_MAX_FRAMESIZE / 2`
frames; the reported `buffer_size` is exactly that many whole sample frames of 1, 2 or 4 bytes,
positive, and fits both mixer buffers as allocated by `libxmp_mixer_on`
(`XMP_MAX_FRAMESIZE` int16 resp. int32 entries). -/
theorem C16_ticksize (freq tfN tfD rrN rrD bpm : Int) (mono bit8 : Bool) :
    let t := prepare freq tfN tfD rrN rrD bpm
    minTicks ≤ t ∧ t ≤ capTicks ∧
    bufferSize t mono bit8 = t * frameBytes mono bit8 ∧
    (frameBytes mono bit8 = 1 ∨ frameBytes mono bit8 = 2 ∨ frameBytes mono bit8 = 4) ∧
    bufferSize t mono bit8 % frameBytes mono bit8 = 0 ∧ 0 < bufferSize t mono bit8 ∧
    bufferSize t mono bit8 ≤ maxFramesize * sizeofInt16 ∧ buf32Bytes t mono ≤ maxFramesize * sizeofInt32 := by
  intro t
  have hr := prepare_range freq tfN tfD rrN rrD bpm
  have hb := bufferSize_eq t mono bit8
  have hf := frameBytes_cases mono bit8
  rw [minTicks_eq, capTicks_eq] at *
  have ht : 8 ≤ t ∧ t ≤ 12292 := hr
  refine ⟨ht.1, ht.2, hb, hf, ?_, ?_, ?_, ?_⟩
  · rw [hb]; exact Int.mul_emod_left _ _
  · rw [hb]; rcases hf with h | h | h <;> rw [h] <;> omega
  · rw [hb]; simp only [maxFramesize, sizeofInt16]; rcases hf with h | h | h <;> rw [h] <;> omega
  · simp only [buf32Bytes, maxFramesize, sizeofInt32]; split <;> omega

/- Full statement that does NOT hold for the code as it is: `bufferSize … ≤ XMP_MAX_FRAMESIZE`
   for all inputs (the cap is XMP_MAX_FRAMESIZE/2 *frames*, i.e. up to 2·XMP_MAX_FRAMESIZE bytes
   in 16-bit stereo).  See `C16_framesize_counterexample`. -/
/-- **C16_framesize_bound_partial**: `buffer_size ≤ XMP_MAX_FRAMESIZE` holds for 8-bit or mono
output unconditionally, and for 16-bit stereo when the sampling rate is at most `XMP_MAX_SRATE`
and the frame time `time_factor·rrate/bpm` is at most 125 ms (default time factor 10, PAL rate
250, tempo ≥ `XMP_MIN_BPM` = 20 gives exactly 125 ms). -/
theorem C16_framesize_bound_partial (freq tfN tfD rrN rrD bpm : Int) (mono bit8 : Bool)
    (h : frameBytes mono bit8 ≤ 2 ∨
         (0 < freq ∧ freq ≤ maxSrate ∧ 0 < bpm ∧ 0 < tfN ∧ 0 < rrN ∧ 0 < tfD ∧ 0 < rrD ∧
          tfN * rrN ≤ 125 * ((tfD * rrD) * bpm))) :
    bufferSize (prepare freq tfN tfD rrN rrD bpm) mono bit8 ≤ maxFramesize := by
  have hr := prepare_range freq tfN tfD rrN rrD bpm
  rw [minTicks_eq, capTicks_eq] at hr
  rw [bufferSize_eq]
  have hf := frameBytes_cases mono bit8
  simp only [maxFramesize]
  rcases h with h | ⟨h0, h1, hb, hn1, hn2, h2, h3, h4⟩
  · rcases hf with e | e | e <;> rw [e] at h ⊢ <;> omega
  · suffices hs : prepare freq tfN tfD rrN rrD bpm ≤ 6146 by
      rcases hf with e | e | e <;> rw [e] <;> omega
    have hD : 0 < tfD * rrD * bpm := Int.mul_pos (Int.mul_pos h2 h3) hb
    have hraw := rawTicks_le freq (tfN * rrN) (tfD * rrD * bpm) h0 hD h4 (by simpa [maxSrate] using h1)
    have hlt : freq * (tfN * rrN) < 6147 * (tfD * rrD * bpm * 1000) := by
      have h1' : freq * (tfN * rrN) ≤ freq * (125 * (tfD * rrD * bpm)) := Int.mul_le_mul_of_nonneg_left h4 (by omega)
      have h2' : freq * (125 * (tfD * rrD * bpm)) ≤ 49170 * (125 * (tfD * rrD * bpm)) :=
        Int.mul_le_mul_of_nonneg_right (by simpa [maxSrate] using h1) (by omega)
      omega
    unfold prepare getTicksize
    simp only [minTicks_eq, capTicks_eq]
    have hv : ¬ (freq ≤ 0 ∨ bpm ≤ 0 ∨ tfN ≤ 0 ∨ rrN ≤ 0) := by omega
    rw [if_neg hv]
    have hmax : ¬ freq * (tfN * rrN) > intMax * (tfD * rrD * bpm * 1000) := by
      intro hc
      simp only [intMax] at hc
      have : 6147 * (tfD * rrD * bpm * 1000) ≤ 2147483647 * (tfD * rrD * bpm * 1000) :=
        Int.mul_le_mul_of_nonneg_right (by omega) (by omega)
      omega
    rw [if_neg hmax]
    unfold rawTicks
    split <;> split <;> omega

/-- **C16_framesize_counterexample** (finding `framesize:tempo_factor`): 49170 Hz 16-bit stereo,
`xmp_set_tempo_factor(10.0)` (time factor 100), PAL rate, 125 BPM: the frame holds 9834 sample
frames = 39336 bytes > `XMP_MAX_FRAMESIZE` = 24585, which is also what `total_size` reports. -/
theorem C16_framesize_counterexample :
    prepare 49170 100 1 250 1 125 = 9834 ∧ bufferSize (prepare 49170 100 1 250 1 125) false false = 39336 ∧
    ¬ bufferSize (prepare 49170 100 1 250 1 125) false false ≤ maxFramesize := by decide

/-- **C16_ticksize_agrees**: when neither clamp applies (the unclamped tick count
`⌊rate·time_factor·rrate/(bpm·1000)⌋` lies between the 8-frame minimum and the cap), the buffer
holds within one sample frame what sampling rate × reported frame time (µs) gives:
`t·10⁶ − rate < rate·frame_time < (t+1)·10⁶`. -/
theorem C16_ticksize_agrees (freq tfN tfD rrN rrD bpm : Int) (h1 : 0 < freq) (h1' : freq ≤ maxSrate) (h2 : 0 < bpm) (h3 : 0 < tfN)
    (h4 : 0 < rrN) (h5 : 0 < tfD) (h6 : 0 < rrD)
    (hlo : minTicks ≤ rawTicks freq (tfN * rrN) (tfD * rrD) bpm)
    (hhi : rawTicks freq (tfN * rrN) (tfD * rrD) bpm ≤ capTicks) :
    let t := prepare freq tfN tfD rrN rrD bpm
    let ft := frameTimeUs tfN tfD rrN rrD bpm
    t = rawTicks freq (tfN * rrN) (tfD * rrD) bpm ∧ 0 < ft ∧
    t * 1000000 - freq < freq * ft ∧ freq * ft < (t + 1) * 1000000 := by
  intro t ft
  have hP : 0 < tfN * rrN := Int.mul_pos h3 h4
  have hD : 0 < tfD * rrD * bpm := Int.mul_pos (Int.mul_pos h5 h6) h2
  have core := agree_core freq (tfN * rrN) (tfD * rrD * bpm) h1 (by omega) hD
  have ht : t = rawTicks freq (tfN * rrN) (tfD * rrD) bpm := by
    show prepare freq tfN tfD rrN rrD bpm = _
    have hraw : rawTicks freq (tfN * rrN) (tfD * rrD) bpm ≤ 12292 := by rw [capTicks_eq] at hhi; exact hhi
    unfold prepare getTicksize
    simp only [capTicks_eq]
    have hv : ¬ (freq ≤ 0 ∨ bpm ≤ 0 ∨ tfN ≤ 0 ∨ rrN ≤ 0) := by omega
    rw [if_neg hv]
    have hmax : ¬ freq * (tfN * rrN) > intMax * (tfD * rrD * bpm * 1000) := by
      intro hc
      have : (12292 + 1) * (tfD * rrD * bpm * 1000) ≤ freq * (tfN * rrN) := by
        simp only [intMax] at hc
        have : 12293 * (tfD * rrD * bpm * 1000) ≤ 2147483647 * (tfD * rrD * bpm * 1000) :=
          Int.mul_le_mul_of_nonneg_right (by omega) (by omega)
        omega
      have h := Int.le_ediv_of_mul_le (by omega : 0 < tfD * rrD * bpm * 1000) this
      unfold rawTicks at hraw
      omega
    rw [if_neg hmax]
    have hin : (if rawTicks freq (tfN * rrN) (tfD * rrD) bpm < minTicks then minTicks
        else rawTicks freq (tfN * rrN) (tfD * rrD) bpm) = rawTicks freq (tfN * rrN) (tfD * rrD) bpm :=
      if_neg (by omega)
    simp only [hin]
    rw [if_neg (by rw [minTicks_eq] at hlo; omega)]
  refine ⟨ht, ?_, ?_, ?_⟩
  · show 0 < frameTimeUs tfN tfD rrN rrD bpm
    unfold frameTimeUs
    have c1 := core.1
    unfold rawTicks at hlo
    rw [minTicks_eq] at hlo
    simp only [maxSrate] at h1'
    refine Int.lt_of_not_ge fun hle => ?_
    have : freq * (1000 * (tfN * rrN) / (tfD * rrD * bpm)) ≤ freq * 0 := Int.mul_le_mul_of_nonneg_left hle (by omega)
    omega
  · rw [ht]; exact core.1
  · rw [ht]; exact core.2

end Xmp.Tick

namespace Xmp.Virt

/-- **C16_virt_inv**: the bookkeeping invariant `VInv` (voice↔channel maps mutually inverse,
`virt_used` = number of voices in use, `count[c]` = number of voices rooted at `c`, sizes) is
established by `libxmp_virt_on` for any non-negative voice count and preserved by EVERY
table-changing operation of virtual.c (`reset`, `resetvoice`, `resetchannel`, `setvol`,
`setpatch` incl. voice stealing and the NNA relocation, `pastnote` CUT) under the operation's
precondition `OpOk` (monitored by the harness at every real call): `resetvoice` on a voice in
use; `setpatch` on a track channel, and either as many background slots as voices
(`QUIRK_VIRTUAL`: `virtOn_quirk`) or no NNA relocation pending. The pigeonhole argument for the
relocation scan is proved (`exists_free_background`), not assumed. -/
theorem C16_virt_inv :
    (∀ (numTracks numvoc : Int) (q : Bool), 0 ≤ numTracks → 0 ≤ numvoc → VInv (virtOn numTracks numvoc q)) ∧
    (∀ (s : VState) (op : Op), VInv s → OpOk s op → VInv (step s op)) :=
  ⟨fun nt nv q h1 h2 => virtOn_inv nt nv q h1 h2, fun _ _ h ok => step_inv h ok⟩

/-- **C16_virt**: after `libxmp_virt_on` and any history of virtual.c operations whose
preconditions hold where they run: `0 ≤ virt_used ≤ maxvoc ≤ virt_channels`. -/
theorem C16_virt (numTracks numvoc : Int) (q : Bool) (h1 : 0 ≤ numTracks) (h2 : 0 ≤ numvoc) (ops : List Op)
    (ok : RunOk (virtOn numTracks numvoc q) ops) :
    0 ≤ (ops.foldl step (virtOn numTracks numvoc q)).virtUsed ∧
    (ops.foldl step (virtOn numTracks numvoc q)).virtUsed ≤ (ops.foldl step (virtOn numTracks numvoc q)).maxvoc ∧
    (ops.foldl step (virtOn numTracks numvoc q)).maxvoc ≤ (ops.foldl step (virtOn numTracks numvoc q)).virtChannels :=
  run_bounds (virtOn_inv numTracks numvoc q h1 h2) ops ok

/-- non-vacuity: a history on 2 tracks + 3 voices whose second `setpatch` (NNA = continue)
takes the relocation branch satisfies the hypotheses, and 3 voices are then in use -/
example : RunOk (virtOn 2 3 true) demoOps ∧ ((demoOps.take 3).foldl step (virtOn 2 3 true)).virtUsed = 3 := by
  decide

end Xmp.Virt
