import XmpProofs.Api
/-!
# C05 — the public API obeys its documented state machine

Model of the C: `Xmp.Api.step` (XmpModel/Api.lean, every exported function of libxmp.map).
Documented contract: `Xmp.Api.Spec.ok` (XmpModel/ApiSpec.lean, written from docs/libxmp.rst).
`ApiInv` is the invariant of a context between calls, `EnvOk` the assumed ranges of what is decided
outside the modelled functions (loader result and module facts, allocator, sequencer verdict and
position), `deviates` the cells in which the *current* code is known to leave the contract.

Full-strength statement (the goal):

    theorem C05_refines (s c e) : ApiInv s → EnvOk s c e →
        Spec.ok s.toObs c e (step s c e).ret (step s c e).state.toObs ∧ ¬ (step s c e).fault ∧ ApiInv (step s c e).state

It does not hold for the code as it is: `xmp_set_position(0)` and `xmp_next_position` return the internal
restart marker −1 (`C05_counterexample_set_position`, `C05_counterexample_next_position`; known findings
`api:xmp_set_position(0)#ret`, `api:xmp_next_position#ret`).  Proved instead: the same statement with the
explicit decidable hypothesis `deviates s c e = false`, which excludes exactly those returns.
-/
namespace Xmp.Api
open Xmp.Api.Gen

/-! ## every export is covered by the model (regenerated list, `decide`) -/

/-- every symbol exported by libxmp.map is modelled by some `Call` -/
theorem C05_exports_covered : Gen.exports.all (fun n => covered.contains n) = true := by decide

/-- and the model claims no symbol that is not exported -/
theorem C05_no_stale_export : covered.all (fun n => Gen.exports.contains n) = true := by decide

def headerVoid (n : String) : Option Bool := (Gen.protos.find? (fun p => p.1 == n)).map (fun p => p.2.1)

/-- the model's void/non-void classification is the header's (xmp_create_context, covered together with
    xmp_free_context by `recreate`, and the two data symbols are the only exceptions) -/
theorem C05_void_classification :
    Call.kinds.all (fun c => c.exports.all fun n =>
      headerVoid n == some c.isVoid || n == "xmp_create_context" || n == "xmp_version" || n == "xmp_vercode") = true := by
  decide

/-! ## refinement -/

/-- **C05_refines (partial: outside the two known deviating returns).**  In every context satisfying the
    invariant, for every call with arbitrary integer arguments, the model of the C returns a value the
    documentation allows for the context's state, has exactly the documented effect (none when the call is
    refused), performs no out-of-bounds access, and re-establishes the invariant. -/
theorem C05_refines_partial (s : State) (c : Call) (e : Env) (hi : ApiInv s) (he : EnvOk s c e = true)
    (hd : deviates s c e = false) :
    Spec.ok s.toObs c e (step s c e).ret (step s c e).state.toObs = true
      ∧ (step s c e).fault = false ∧ ApiInv (step s c e).state :=
  ⟨(refines s c e hi he hd).1, (refines s c e hi he hd).2, inv_step s c e hi he⟩

/-- the invariant holds for a fresh context … -/
theorem C05_inv_init : ApiInv State.init := by
  unfold ApiInv State.init; simp

/-- … and along every call history (deviating cells included: they only return a wrong value) -/
theorem C05_inv_history (h : List (Call × Env)) (s : State) (hi : ApiInv s)
    (he : ∀ x ∈ h, ∀ s', EnvOk s' x.1 x.2 = true) :
    ApiInv (h.foldl (fun s x => (step s x.1 x.2).state) s) := by
  induction h generalizing s with
  | nil => simpa using hi
  | cons x rest ih =>
    simp only [List.foldl_cons]
    apply ih
    · exact inv_step s x.1 x.2 hi (he x (by simp) s)
    · intro y hy s'; exact he y (by simp [hy]) s'

/-- a playing context with 3 orders, 4 channels, 2 reserved smix channels and one external sample -/
def playing3 : State :=
  { st := 2, amp := 1, mix := 100, interp := 1, dsp := 1, volume := 100, smixVol := 100, chn := 4, len := 3, ins := 2,
    sxChn := 2, sxIns := 1, sxAlive := true, vol := List.replicate 64 100 }

example : ApiInv playing3 := by unfold ApiInv playing3; simp
example : EnvOk playing3 (.setPlayer XMP_PLAYER_VOLUME 250) {} = true ∧ deviates playing3 (.setPlayer XMP_PLAYER_VOLUME 250) {} = false := by
  decide
example : EnvOk playing3 (.setPos 2) { newPos := 2 } = true ∧ deviates playing3 (.setPos 2) { newPos := 2 } = false := by decide

/-! ## the deviating cells: proved counterexamples -/

/-- `xmp_set_position(ctx, 0)` on a playing module returns −1 (`p->pos` holds the restart marker),
    not a position index.  Known finding `api:xmp_set_position(0)#ret`. -/
theorem C05_counterexample_set_position :
    Spec.ok playing3.toObs (.setPos 0) { newPos := -1 } (step playing3 (.setPos 0) { newPos := -1 }).ret
      (step playing3 (.setPos 0) { newPos := -1 }).state.toObs = false := by decide

/-- `xmp_next_position` right after `xmp_restart_module` (or `xmp_stop_module`) returns −1.
    Known finding `api:xmp_next_position#ret`. -/
theorem C05_counterexample_next_position :
    Spec.ok playing3.toObs .nextPos { newPos := -1 } (step playing3 .nextPos { newPos := -1 }).ret
      (step playing3 .nextPos { newPos := -1 }).state.toObs = false := by decide

/-- the excluded region is exactly the negative returns of these two functions -/
theorem C05_deviates_iff (s : State) (c : Call) (e : Env) :
    deviates s c e = true ↔
      s.st = 2 ∧ e.newPos < 0 ∧ (c = .nextPos ∨ ∃ p, c = .setPos p ∧ 0 ≤ p ∧ p < s.len) := by
  cases c <;> simp [deviates, and_assoc]

/-! ## void calls with invalid arguments / in a forbidding state are ignored -/

/-- **C05_void_ignored.**  A `void` function called in a state that forbids it, or with an out-of-range
    argument, changes nothing at all (not even the hidden position). -/
theorem C05_void_ignored (s : State) (c : Call) (e : Env) (hv : c.isVoid = true)
    (hr : (Spec.cell s.toObs c e).stateErr = true ∨ (Spec.cell s.toObs c e).invalid = true) :
    (step s c e).state = s ∧ (step s c e).fault = false := by
  cases c <;> simp [Call.isVoid] at hv <;>
    simp [Spec.cell] at hr <;> simp [step, endPlayer, *] <;> (try omega)
  all_goals (split <;> simp_all <;> omega)

example : (Spec.cell playing3.toObs (.inject 64) {}).invalid = true := by decide
example : (Spec.cell State.init.toObs .endPlayer {}).stateErr = true := by decide

/-! ## the player state changes only as documented -/

/-- **C05_state.**  Only load, release, start, end and context re-creation change the player state, and only
    along the documented edges: load → LOADED (UNLOADED on failure), release → UNLOADED, start → PLAYING
    (a failing start of a playing context ends it: LOADED), end: PLAYING → LOADED. -/
theorem setPlayer_st (s : State) (parm val : Int) : (setPlayer s parm val).state.st = s.st := by
  by_cases h0 : parm = 0
  · subst h0; simp [setPlayer]; repeat' split
    all_goals rfl
  by_cases h1 : parm = 1
  · subst h1; simp [setPlayer]; repeat' split
    all_goals rfl
  by_cases h2 : parm = 2
  · subst h2; simp [setPlayer]; repeat' split
    all_goals rfl
  by_cases h3 : parm = 3
  · subst h3; simp [setPlayer]; repeat' split
    all_goals rfl
  by_cases h4 : parm = 4
  · subst h4; simp [setPlayer]; repeat' split
    all_goals rfl
  by_cases h5 : parm = 5
  · subst h5; simp [setPlayer]; repeat' split
    all_goals rfl
  by_cases h6 : parm = 6
  · subst h6; simp [setPlayer]; repeat' split
    all_goals rfl
  by_cases h7 : parm = 7
  · subst h7; simp [setPlayer]; repeat' split
    all_goals rfl
  by_cases h8 : parm = 8
  · subst h8; simp [setPlayer]; repeat' split
    all_goals rfl
  by_cases h9 : parm = 9
  · subst h9; simp [setPlayer]; repeat' split
    all_goals rfl
  by_cases h10 : parm = 10
  · subst h10; simp [setPlayer]; repeat' split
    all_goals rfl
  by_cases h11 : parm = 11
  · subst h11; simp [setPlayer]; repeat' split
    all_goals rfl
  by_cases h12 : parm = 12
  · subst h12; simp [setPlayer]; repeat' split
    all_goals rfl
  by_cases h13 : parm = 13
  · subst h13; simp [setPlayer]; repeat' split
    all_goals rfl
  simp [setPlayer, *]; repeat' split
  all_goals rfl

theorem C05_state (s : State) (c : Call) (e : Env) (hi : ApiInv s) (he : EnvOk s c e = true)
    (hne : (step s c e).state.st ≠ s.st) :
    match c with
    | .load _ _ => ((step s c e).ret = 0 ∧ (step s c e).state.st = XMP_STATE_LOADED)
                   ∨ ((step s c e).ret ≠ 0 ∧ (step s c e).state.st = XMP_STATE_UNLOADED)
    | .release => (step s c e).state.st = XMP_STATE_UNLOADED
    | .recreate => (step s c e).state.st = XMP_STATE_UNLOADED
    | .start _ _ => ((step s c e).ret = 0 ∧ (step s c e).state.st = XMP_STATE_PLAYING)
                    ∨ ((step s c e).ret < 0 ∧ s.st = XMP_STATE_PLAYING ∧ (step s c e).state.st = XMP_STATE_LOADED)
    | .endPlayer => s.st = XMP_STATE_PLAYING ∧ (step s c e).state.st = XMP_STATE_LOADED
    | _ => False := by
  unfold ApiInv at hi
  cases c <;> simp only [] <;> revert hne <;>
    simp [step, startPlayer, loadModule, release, endPlayer, smixPlay, State.init, setPlayer_st, EnvOk, isOneOf] at he ⊢ <;>
    (repeat' split) <;> (try simp_all) <;> (try omega)

end Xmp.Api
