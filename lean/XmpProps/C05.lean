import XmpProofs.Api
import XmpProofs.ApiReadback
/-!
# C05 — the public API obeys its documented state machine

Model of the C: `Xmp.Api.step` (XmpModel/Api.lean, every exported function of libxmp.map).
Documented contract: `Xmp.Api.Spec.ok` (XmpModel/ApiSpec.lean, written from docs/libxmp.rst).
`ApiInv` is the invariant of a context between calls, `EnvOk` the assumed ranges of what is decided
outside the modelled functions (loader result and module facts, allocator, sequencer verdict and
position), `deviates` the cells in which the *current* code is known to leave the contract.

Full-strength statement (the goal):

    theorem C05_refines (s c e) : ApiInv s → EnvOk s c e →
        Spec.ok s.toObs c e (step s c e).ret (step s c e).state.toObs ∧ ¬ (step s c e).fault ∧ ApiInv (step s c e).state

It does not hold for the code as it is: `xmp_set_position(0)` and `xmp_next_position` return the internal
restart marker −1 (`C05_counterexample_set_position`, `C05_counterexample_next_position`; known findings
`api:xmp_set_position(0)#ret`, `api:xmp_next_position#ret`).  Proved instead: the same statement with the
explicit decidable hypothesis `deviates s c e = false`, which excludes exactly those returns.
-/
namespace Xmp.Api
open Xmp.Api.Gen

/-! ## every export is covered by the model (regenerated list, `decide`) -/

/-- every symbol exported by libxmp.map is modelled by some `Call` -/
theorem C05_exports_covered : Gen.exports.all (fun n => covered.contains n) = true := by decide

/-- and the model claims no symbol that is not exported -/
theorem C05_no_stale_export : covered.all (fun n => Gen.exports.contains n) = true := by decide

def headerVoid (n : String) : Option Bool := (Gen.protos.find? (fun p => p.1 == n)).map (fun p => p.2.1)

/-- the model's void/non-void classification is the header's (xmp_create_context, covered together with
    xmp_free_context by `recreate`, and the two data symbols are the only exceptions) -/
theorem C05_void_classification :
    Call.kinds.all (fun c => c.exports.all fun n =>
      headerVoid n == some c.isVoid || n == "xmp_create_context" || n == "xmp_version" || n == "xmp_vercode") = true := by
  decide

/-! ## refinement -/

/-- **C05_refines (partial: outside the two known deviating returns).**  In every context satisfying the
    invariant, for every call with arbitrary integer arguments, the model of the C returns a value the
    documentation allows for the context's state, has exactly the documented effect (none when the call is
    refused), performs no out-of-bounds access, and re-establishes the invariant. -/
theorem C05_refines_partial (s : State) (c : Call) (e : Env) (hi : ApiInv s) (he : EnvOk s c e = true)
    (hd : deviates s c e = false) :
    Spec.ok s.toObs c e (step s c e).ret (step s c e).state.toObs = true
      ∧ (step s c e).fault = false ∧ ApiInv (step s c e).state :=
  ⟨(refines s c e hi he hd).1, (refines s c e hi he hd).2, inv_step s c e hi he⟩

/-- the invariant holds for a fresh context … -/
theorem C05_inv_init : ApiInv State.init := by
  unfold ApiInv State.init; simp

/-- … and along every call history (deviating cells included: they only return a wrong value) -/
theorem C05_inv_history (h : List (Call × Env)) (s : State) (hi : ApiInv s)
    (he : ∀ x ∈ h, ∀ s', EnvOk s' x.1 x.2 = true) :
    ApiInv (h.foldl (fun s x => (step s x.1 x.2).state) s) := by
  induction h generalizing s with
  | nil => simpa using hi
  | cons x rest ih =>
    simp only [List.foldl_cons]
    apply ih
    · exact inv_step s x.1 x.2 hi (he x (by simp) s)
    · intro y hy s'; exact he y (by simp [hy]) s'

/-- a playing context with 3 orders, 4 channels, 2 reserved smix channels and one external sample -/
def playing3 : State :=
  { st := 2, amp := 1, mix := 100, interp := 1, dsp := 1, volume := 100, smixVol := 100, chn := 4, len := 3, ins := 2,
    sxChn := 2, sxIns := 1, sxAlive := true, vol := List.replicate 64 100 }

example : ApiInv playing3 := by unfold ApiInv playing3; simp
example : EnvOk playing3 (.setPlayer XMP_PLAYER_VOLUME 250) {} = true ∧ deviates playing3 (.setPlayer XMP_PLAYER_VOLUME 250) {} = false := by
  decide
example : EnvOk playing3 (.setPos 2) { newPos := 2 } = true ∧ deviates playing3 (.setPos 2) { newPos := 2 } = false := by decide

/-! ## the deviating cells: proved counterexamples -/

/-- `xmp_set_position(ctx, 0)` on a playing module returns −1 (`p->pos` holds the restart marker),
    not a position index.  Known finding `api:xmp_set_position(0)#ret`. -/
theorem C05_counterexample_set_position :
    Spec.ok playing3.toObs (.setPos 0) { newPos := -1 } (step playing3 (.setPos 0) { newPos := -1 }).ret
      (step playing3 (.setPos 0) { newPos := -1 }).state.toObs = false := by decide

/-- `xmp_next_position` right after `xmp_restart_module` (or `xmp_stop_module`) returns −1.
    Known finding `api:xmp_next_position#ret`. -/
theorem C05_counterexample_next_position :
    Spec.ok playing3.toObs .nextPos { newPos := -1 } (step playing3 .nextPos { newPos := -1 }).ret
      (step playing3 .nextPos { newPos := -1 }).state.toObs = false := by decide

/-- the excluded region is exactly the negative returns of these two functions -/
theorem C05_deviates_iff (s : State) (c : Call) (e : Env) :
    deviates s c e = true ↔
      s.st = 2 ∧ e.newPos < 0 ∧ (c = .nextPos ∨ ∃ p, c = .setPos p ∧ 0 ≤ p ∧ p < s.len) := by
  cases c <;> simp [deviates, and_assoc]

/-! ## void calls with invalid arguments / in a forbidding state are ignored -/

/-- **C05_void_ignored.**  A `void` function called in a state that forbids it, or with an out-of-range
    argument, changes nothing at all (not even the hidden position). -/
theorem C05_void_ignored (s : State) (c : Call) (e : Env) (hv : c.isVoid = true)
    (hr : (Spec.cell s.toObs c e).stateErr = true ∨ (Spec.cell s.toObs c e).invalid = true) :
    (step s c e).state = s ∧ (step s c e).fault = false := by
  cases c <;> simp [Call.isVoid] at hv <;>
    simp [Spec.cell] at hr <;> simp [step, endPlayer, *] <;> (try omega)
  all_goals (split <;> simp_all <;> omega)

example : (Spec.cell playing3.toObs (.inject 64) {}).invalid = true := by decide
example : (Spec.cell State.init.toObs .endPlayer {}).stateErr = true := by decide

/-! ## the player state changes only as documented -/

/-- **C05_state.**  Only load, release, start, end and context re-creation change the player state, and only
    along the documented edges: load → LOADED (UNLOADED on failure), release → UNLOADED, start → PLAYING
    (a failing start of a playing context ends it: LOADED), end: PLAYING → LOADED. -/
theorem setPlayer_st (s : State) (parm val : Int) (e : Env) : (setPlayer s parm val e).state.st = s.st := (setPlayer_frame s parm val e).1

theorem C05_state (s : State) (c : Call) (e : Env) (hi : ApiInv s) (he : EnvOk s c e = true)
    (hne : (step s c e).state.st ≠ s.st) :
    match c with
    | .load _ _ => ((step s c e).ret = 0 ∧ (step s c e).state.st = XMP_STATE_LOADED)
                   ∨ ((step s c e).ret ≠ 0 ∧ (step s c e).state.st = XMP_STATE_UNLOADED)
    | .release => (step s c e).state.st = XMP_STATE_UNLOADED
    | .recreate => (step s c e).state.st = XMP_STATE_UNLOADED
    | .start _ _ => ((step s c e).ret = 0 ∧ (step s c e).state.st = XMP_STATE_PLAYING)
                    ∨ ((step s c e).ret < 0 ∧ s.st = XMP_STATE_PLAYING ∧ (step s c e).state.st = XMP_STATE_LOADED)
    | .endPlayer => s.st = XMP_STATE_PLAYING ∧ (step s c e).state.st = XMP_STATE_LOADED
    | _ => False := by
  unfold ApiInv at hi
  cases c <;> simp only [] <;> revert hne <;>
    simp [step, startPlayer, loadModule, release, endPlayer, smixPlay, State.init, setPlayer_st, EnvOk, isOneOf] at he ⊢ <;>
    (repeat' split) <;> (try simp_all) <;> (try omega)

/-! ## read-back: defaults established by xmp_start_player or the last successfully set value -/

/-- the parameters `xmp_get_player` reads back (XMP_PLAYER_STATE and the read-only mixer type aside) -/
def readable : List Int :=
  [XMP_PLAYER_AMP, XMP_PLAYER_MIX, XMP_PLAYER_INTERP, XMP_PLAYER_DSP, XMP_PLAYER_FLAGS, XMP_PLAYER_CFLAGS, XMP_PLAYER_SMPCTL,
   XMP_PLAYER_VOLUME, XMP_PLAYER_SMIX_VOLUME, XMP_PLAYER_DEFPAN, XMP_PLAYER_MODE, XMP_PLAYER_VOICES]

/-- **C05_readback (parameters).**  After any history of calls on a fresh context, if the player is playing,
    `xmp_get_player(p)` returns `expected p history`: the value established by context creation
    (defpan, voices, flags, smpctl), by the last successful `xmp_start_player` (amp, mix, interp, dsp, volumes),
    by the last successful load (module flags, personality), or the last value *successfully* set since.
    Calls that were refused (error return) never show through. -/
theorem C05_readback_param (h : List (Call × Env)) (he : ∀ x ∈ h, ∀ s', EnvOk s' x.1 x.2 = true)
    (p : Int) (hp : p ∈ readable) (e : Env) (hplay : (exec State.init [] h).1.st = 2) :
    expected p (exec State.init [] h).2 = some (step (exec State.init [] h).1 (.getPlayer p) e).ret := by
  obtain ⟨_, hr, _⟩ := exec_rel h State.init [] C05_inv_init rel_init relCh_init he
  generalize (exec State.init [] h).1 = s at *
  generalize (exec State.init [] h).2 = evs at *
  obtain ⟨h1, h2, h3, h4, h5, h6⟩ := hr
  have h5' := h5 (by omega)
  have h6' := h6 hplay
  simp only [readable, List.mem_cons, List.not_mem_nil, or_false] at hp
  rcases hp with rfl | rfl | rfl | rfl | rfl | rfl | rfl | rfl | rfl | rfl | rfl | rfl <;>
    simp [step, getPlayer, hplay, *]

/-- **C05_readback (mute).**  `xmp_channel_mute(chn, -1)` returns the module's channel flag as of the last
    successful `xmp_start_player`, updated by every accepted set/invert since. -/
theorem C05_readback_mute (h : List (Call × Env)) (he : ∀ x ∈ h, ∀ s', EnvOk s' x.1 x.2 = true)
    (chn : Int) (h0 : 0 ≤ chn) (h64 : chn < 64) (e : Env) (hplay : (exec State.init [] h).1.st = 2) :
    (step (exec State.init [] h).1 (.chanMute chn (-1)) e).ret = expMute chn (exec State.init [] h).2
    ∧ (step (exec State.init [] h).1 (.chanMute chn (-1)) e).state = (exec State.init [] h).1 := by
  obtain ⟨_, _, hc⟩ := exec_rel h State.init [] C05_inv_init rel_init relCh_init he
  generalize (exec State.init [] h).1 = s at *
  generalize (exec State.init [] h).2 = evs at *
  have := (hc.2.2.2.2 hplay chn h0 h64).1
  have hn : ¬ (chn < 0 ∨ 64 ≤ chn) := by omega
  simp [step, hplay, hn, this]

/-- **C05_readback (volume).**  `xmp_channel_vol(chn, -1)` returns 100 (the `xmp_start_player` default) or the
    last accepted value 0..100. -/
theorem C05_readback_vol (h : List (Call × Env)) (he : ∀ x ∈ h, ∀ s', EnvOk s' x.1 x.2 = true)
    (chn : Int) (h0 : 0 ≤ chn) (h64 : chn < 64) (e : Env) (hplay : (exec State.init [] h).1.st = 2) :
    (step (exec State.init [] h).1 (.chanVol chn (-1)) e).ret = expVol chn (exec State.init [] h).2
    ∧ (step (exec State.init [] h).1 (.chanVol chn (-1)) e).state = (exec State.init [] h).1 := by
  obtain ⟨_, _, hc⟩ := exec_rel h State.init [] C05_inv_init rel_init relCh_init he
  generalize (exec State.init [] h).1 = s at *
  generalize (exec State.init [] h).2 = evs at *
  have := (hc.2.2.2.2 hplay chn h0 h64).2
  have hn : ¬ (chn < 0 ∨ 64 ≤ chn) := by omega
  simp [step, hplay, hn, this]

/-- a history that reaches PLAYING with a refused and an accepted setting:
    load, start, set volume 250 (refused), set volume 40, mute channel 1, set channel 2 volume 33 -/
def demoHistory : List (Call × Env) :=
  [(.load .path 1, { mchn := 4, mlen := 3, mins := 2 }), (.start 44100 0, {}),
   (.setPlayer XMP_PLAYER_VOLUME 250, {}), (.setPlayer XMP_PLAYER_VOLUME 40, {}),
   (.chanMute 1 1, {}), (.chanVol 2 33, {}), (.chanVol 2 101, {})]

example : (exec State.init [] demoHistory).1.st = 2 := by decide
example : ∀ x ∈ demoHistory, ∀ s', EnvOk s' x.1 x.2 = true := by
  intro x hx s'; simp [demoHistory] at hx; rcases hx with rfl | rfl | rfl | rfl | rfl | rfl | rfl <;> simp [EnvOk, isOneOf, inRange]
example : expected XMP_PLAYER_VOLUME (exec State.init [] demoHistory).2 = some 40 := by decide
example : expected XMP_PLAYER_MIX (exec State.init [] demoHistory).2 = some DEFAULT_MIX := by decide
example : expMute 1 (exec State.init [] demoHistory).2 = 1 ∧ expVol 2 (exec State.init [] demoHistory).2 = 33
    ∧ expVol 3 (exec State.init [] demoHistory).2 = 100 := by decide

end Xmp.Api
