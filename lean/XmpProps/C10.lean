import XmpProofs.PathSafe
import XmpModel.Gen.OpenSites
/-!
# C10 — loading untrusted modules stays inside the module's directory and process

Property theorems over `XmpModel.PathSafe` (the sanitiser
`libxmp_copy_name_for_fopen`, the directory lookup
`libxmp_find_instrument_file`, the companion names of flt_load/mfp_load, the
spawn decision of `libxmp_decrunch`) and over the *generated* table
`XmpModel.Gen.OpenSites` (every open/exec call site of the compiled sources with
the provenance class of its path argument).

* `C10_sanitised`       what an accepted sample name looks like
* `C10_confined`        the path finally opened for a sample name taken from the file is
                        `directory ++ entry` for a real entry of the instrument path / module
                        directory that is not `.`/`..` and holds no `/` — a direct child
* `C10_slash_never_matches`  names containing `/` (in particular every rewritten `:`/`\`) open nothing
* `C10_companion_flt_partial/_full/_counterexample`, `C10_companion_mfp`, `C10_companion_none`   the `dirname+basename+suffix` sites
* `C10_exec`, `C10_exec_only_for_paths`, `C10_argv_single_argument`   helper programs
* `C10_history_inv`, `C10_history_fields`, `C10_history_stream_loads`   sequences of load attempts on one context
* `C10_sites_guarded`, `C10_fields_guarded`, `C10_argv_tie`, `C10_path_buffers_automatic`   the call-site premise, by `decide` over the generated table
-/
namespace Xmp.PathSafe
open Xmp.Gen.OpenSites

/-! ## the sanitiser -/

/-- **What `libxmp_copy_name_for_fopen` guarantees** (for the buffer sizes that
occur, `n ≥ 3`; all call sites use 32, see `C10_sites_guarded`).  `s` is the C
string in the source buffer, `out` the C string left in `dest`. -/
theorem C10_sanitised (name : Bytes) (n : Nat) (out : Bytes) (hn : 3 ≤ n)
    (h : copyName name n = some out) :
    out ≠ [] ∧ out.length = min (n - 1) (cstr name).length ∧
    (∀ c ∈ out, 32 ≤ c ∧ c < 127 ∧ c ≠ cBack) ∧          -- printable ASCII, no backslash left
    hasDotDot out = false ∧                                 -- no ".." anywhere
    out ≠ [cDot] ∧                                          -- not "."
    (∃ c, out.head? = some c ∧ c ≠ cSlash ∧ c ≠ cBack ∧ c ≠ cColon) ∧   -- no root / drive / device prefix
    Rewrite true false (cstr name) out := by                -- byte-exact relation to the source
  unfold copyName at h
  simp only at h
  generalize cstr name = s at *
  split at h
  · exact absurd h (by simp)
  rename_i hrej
  have hrej' : rejectedUpFront s = false := by simpa using hrej
  unfold rejectedUpFront at hrej'
  simp only [Bool.or_eq_false_iff] at hrej'
  obtain ⟨⟨hdot, hdd⟩, hhead⟩ := hrej'
  have hlen := copyLoop_length _ _ _ _ _ h
  cases hs : s with
  | nil => rw [hs] at hhead; simp at hhead
  | cons t rest =>
    rw [hs] at hhead h hlen hdot hdd
    simp only [List.head?_cons, Bool.or_eq_false_iff, beq_eq_false_iff_ne, ne_eq] at hhead
    obtain ⟨⟨ht1, ht2⟩, ht3⟩ := hhead
    have hk : n - 1 = (n - 2) + 1 := by omega
    rw [hk] at h
    obtain ⟨_, _, c, o, cv, rfl, ho, hst⟩ := copyLoop_cons h
    have hct : c = t := by
      rcases hst with ⟨h1, _⟩ | ⟨_, h2, _⟩ | ⟨_, _, h3, _⟩
      · exact h1
      · exact absurd h2 ht1
      · exact absurd h3 (by decide)
    rw [← hk] at h
    refine ⟨by simp, by simpa [hs] using hlen, copyLoop_mem _ _ _ _ _ h, copyLoop_noDotDot _ _ _ _ _ h hdd, ?_,
      ⟨c, rfl, by rw [hct]; exact ht2, by rw [hct]; exact ht1, by rw [hct]; exact ht3⟩, copyLoop_rewrite _ _ _ _ _ h⟩
    -- out ≠ ".": the source is not "." and at least two bytes are copied
    intro heq
    have hl : (c :: o).length = 1 := by rw [heq]; rfl
    rw [hlen] at hl
    simp only [List.length_cons] at hl
    have hrl : rest.length = 0 := by omega
    have hr : rest = [] := List.eq_nil_of_length_eq_zero hrl
    subst hr
    have : t = cDot := by
      have := (List.cons.inj heq).1
      rw [hct] at this; exact this
    subst this
    simp at hdot

/-- at most one `:` of the source is turned into `/` (`converted_colon`) -/
theorem C10_sanitised_one_colon (name : Bytes) (n : Nat) (out : Bytes) (hn : 3 ≤ n)
    (h : copyName name n = some out) : colonRewrites (cstr name) out ≤ 1 := by
  have hr := (C10_sanitised name n out hn h).2.2.2.2.2.2
  simpa using rewrite_colon_count _ _ _ _ hr

example : copyName (ascii "a:b:c") 32 = some (ascii "a/b:c") := by decide

/-- non-vacuous: the classic `ST-01:kick` style name is accepted and rewritten -/
example : copyName (ascii "ST-01:kick") 32 = some (ascii "ST-01/kick") := by decide
example : copyName (ascii "..") 32 = none ∧ copyName (ascii "../x") 32 = none ∧ copyName (ascii "/etc/passwd") 32 = none ∧
    copyName (ascii "C:\\x") 32 = none ∧ copyName (ascii "a/../b") 32 = none ∧ copyName (ascii ".") 32 = none ∧
    copyName (ascii "\\x") 32 = none ∧ copyName (ascii ":x") 32 = none ∧ copyName [] 32 = none ∧
    copyName [0x61, 0x80] 32 = none := by decide

/-! ## the directory lookup -/

/-- `e` is a direct child of a directory with listing `es` -/
def DirectChild (es : List Bytes) (e : Bytes) : Prop :=
  e ∈ es ∧ e ≠ [cDot] ∧ e ≠ [cDot, cDot] ∧ cSlash ∉ e

/-- the operating system's promise about `readdir`: entry names hold no `/` -/
def ListingOk (d : Option Dir) : Prop :=
  ∀ dd es, d = some dd → dd.listing = some es → ∀ e ∈ es, cSlash ∉ e

/-- shape of every successful lookup, for any name -/
theorem find_shape {ins md : Option Dir} {len : Nat} {name p : Bytes}
    (h : findInstrumentFile ins md len name = some p) :
    (∃ d es e, ins = some d ∧ d.listing = some es ∧ e ∈ es ∧ strcasecmpEq e name = true ∧
        p = d.path ++ [cSlash] ++ e ∧ p.length < len) ∨
    (∃ d es e, md = some d ∧ d.listing = some es ∧ e ∈ es ∧ strcasecmpEq e name = true ∧
        p = d.path ++ e ∧ p.length < len) := by
  have hmod : ∀ q, (match md with
      | none => none
      | some d =>
        match checkFilenameCase d.listing name nameBufSize with
        | none => none
        | some e => let p := d.path ++ e; if p.length < len then some p else none) = some q →
      ∃ d es e, md = some d ∧ d.listing = some es ∧ e ∈ es ∧ strcasecmpEq e name = true ∧
        q = d.path ++ e ∧ q.length < len := by
    intro q hq
    split at hq
    · exact absurd hq (by simp)
    · rename_i d
      split at hq
      · exact absurd hq (by simp)
      · rename_i e he
        obtain ⟨es, hl, hmem, hcmp, _⟩ := checkFilenameCase_some he
        simp only at hq
        split at hq
        · rename_i hlt
          cases hq
          exact ⟨d, es, e, rfl, hl, hmem, hcmp, rfl, hlt⟩
        · exact absurd hq (by simp)
  unfold findInstrumentFile at h
  simp only at h
  split at h
  · exact Or.inr (hmod p h)
  · rename_i d
    split at h
    · exact Or.inr (hmod p h)
    · rename_i e he
      obtain ⟨es, hl, hmem, hcmp, _⟩ := checkFilenameCase_some he
      split at h
      · rename_i hlt
        cases h
        exact Or.inl ⟨d, es, e, rfl, hl, hmem, hcmp, rfl, hlt⟩
      · exact absurd h (by simp)

/-- **Confinement of external samples.**  Whatever bytes the file puts into a
sample name, the path a song-only loader opens is `dir/entry` (instrument
path) or `dirname ++ entry` (module directory) for an existing directory entry
that is not `.` or `..` and contains no `/`: a direct child of that directory. -/
theorem C10_confined (ins md : Option Dir) (len : Nat) (raw p : Bytes)
    (hins : ListingOk ins) (hmd : ListingOk md)
    (h : externalSamplePath ins md len raw = some p) :
    (∃ d es e, ins = some d ∧ d.listing = some es ∧ DirectChild es e ∧ p = d.path ++ [cSlash] ++ e) ∨
    (∃ d es e, md = some d ∧ d.listing = some es ∧ DirectChild es e ∧ p = d.path ++ e) := by
  unfold externalSamplePath at h
  split at h
  · exact absurd h (by simp)
  rename_i s hs
  obtain ⟨_, _, _, hdd, hnd, _, _⟩ := C10_sanitised raw 32 s (by decide) hs
  have child : ∀ (es : List Bytes) (e : Bytes), e ∈ es → cSlash ∉ e → strcasecmpEq e s = true → DirectChild es e := by
    intro es e hmem hsl hcmp
    refine ⟨hmem, ?_, ?_, hsl⟩
    · intro he; subst he
      have : s.map lower = [cDot] := by
        have := beq_iff_eq.mp (show ([cDot].map lower == s.map lower) = true from hcmp)
        rw [← this]; decide
      exact hnd (map_lower_eq_dot this)
    · intro he; subst he
      have : s.map lower = [cDot, cDot] := by
        have := beq_iff_eq.mp (show ([cDot, cDot].map lower == s.map lower) = true from hcmp)
        rw [← this]; decide
      rw [map_lower_eq_dotdot this] at hdd
      exact absurd hdd (by decide)
  rcases find_shape h with ⟨d, es, e, h1, h2, h3, h4, h5, _⟩ | ⟨d, es, e, h1, h2, h3, h4, h5, _⟩
  · exact Or.inl ⟨d, es, e, h1, h2, child es e h3 (hins d es h1 h2 e h3) h4, h5⟩
  · exact Or.inr ⟨d, es, e, h1, h2, child es e h3 (hmd d es h1 h2 e h3) h4, h5⟩

/-- **A name with a `/` opens nothing** — this covers every name in which the
sanitiser rewrote a `:` or `\`, and every `dir/file` form. -/
theorem C10_slash_never_matches (ins md : Option Dir) (len : Nat) (name : Bytes)
    (hins : ListingOk ins) (hmd : ListingOk md) (hs : cSlash ∈ name) :
    findInstrumentFile ins md len name = none := by
  cases h : findInstrumentFile ins md len name with
  | none => rfl
  | some p =>
    exfalso
    rcases find_shape h with ⟨d, es, e, h1, h2, h3, h4, _⟩ | ⟨d, es, e, h1, h2, h3, h4, _⟩
    · exact hins d es h1 h2 e h3 (strcasecmpEq_slash h4 hs)
    · exact hmd d es h1 h2 e h3 (strcasecmpEq_slash h4 hs)

/-- no directory configured (memory / FILE / callback loads without instrument path): nothing is opened -/
theorem C10_no_dir_no_open (len : Nat) (raw : Bytes) : externalSamplePath none none len raw = none := by
  unfold externalSamplePath
  split
  · rfl
  · simp [findInstrumentFile]

/-- non-vacuous instance: a module in `mods/` referring to sample `KICK` finds `mods/kick` -/
example :
    externalSamplePath none (some ⟨ascii "mods/", some [ascii ".", ascii "..", ascii "kick", ascii "x.mod"]⟩) 4096
      (ascii "KICK") = some (ascii "mods/kick") := by decide
example :
    externalSamplePath none (some ⟨ascii "mods/", some [ascii ".", ascii "..", ascii "kick", ascii "x.mod"]⟩) 4096
      (ascii "..") = none := by decide

/-! ## companion files: `dirname ++ basename ++ fixed suffix` -/

/-- `dirname`/`basename` split the path the caller gave, at its last `/` -/
theorem C10_dirbase (p : Bytes) :
    getDirname p ++ getBasename p = p ∧ cSlash ∉ getBasename p ∧
    (getDirname p = [] ∨ ∃ d, getDirname p = d ++ [cSlash]) :=
  ⟨dirname_append_basename p, basename_no_slash p, dirname_shape p⟩

/-- Startrekker: every name tried is the module's own path plus `.NT/.nt/.AS/.as`
– a sibling of the module file – provided the path fits `filename[1024]`.

Full statement (every path): `C10_companion_flt_full` below, which holds when the
code tests the length first (`fltLengthChecked`, a generated fact); for code that
does not, `C10_companion_flt_counterexample` is the witness. -/
theorem C10_companion_flt_partial (p q : Bytes) (hlen : p.length + 3 < fltBufSize)
    (hq : q ∈ fltCompanions (some p)) :
    ∃ x, q = getDirname p ++ x ∧ cSlash ∉ x ∧ x ≠ [cDot] ∧ x ≠ [cDot, cDot] ∧ q.drop p.length ∈ fltSuffixes := by
  unfold fltCompanions at hq
  simp only at hq
  split at hq
  · simp at hq
  simp only [List.mem_map] at hq
  obtain ⟨sfx, hsfx, rfl⟩ := hq
  have hl3 : sfx.length = 3 ∧ cSlash ∉ sfx := by
    simp only [fltSuffixes, List.mem_cons, List.not_mem_nil, or_false] at hsfx
    rcases hsfx with rfl | rfl | rfl | rfl <;> decide
  have hfull : (getDirname p ++ getBasename p ++ sfx).length ≤ fltBufSize - 1 := by
    rw [dirname_append_basename]
    simp only [List.length_append, hl3.1]
    omega
  rw [List.take_of_length_le hfull]
  refine ⟨getBasename p ++ sfx, by simp, ?_, ?_, ?_, ?_⟩
  · intro hm
    rcases List.mem_append.mp hm with h | h
    · exact basename_no_slash p h
    · exact hl3.2 h
  · intro he
    have := congrArg List.length he
    simp [hl3.1] at this
  · intro he
    have := congrArg List.length he
    simp [hl3.1] at this
  · rw [dirname_append_basename]
    simpa using hsfx

/-- the full statement, for code that refuses names that do not fit -/
theorem C10_companion_flt_full (hchk : fltLengthChecked = true) (p q : Bytes)
    (hq : q ∈ fltCompanions (some p)) :
    ∃ x, q = getDirname p ++ x ∧ cSlash ∉ x ∧ x ≠ [cDot] ∧ x ≠ [cDot, cDot] := by
  by_cases hlen : p.length + 3 < fltBufSize
  · obtain ⟨x, h1, h2, h3, h4, _⟩ := C10_companion_flt_partial p q hlen hq
    exact ⟨x, h1, h2, h3, h4⟩
  · unfold fltCompanions at hq
    simp [hchk, hlen] at hq

/-- a module path whose directory part alone is 1031 bytes -/
def fltLongPath : Bytes := List.replicate 1030 0x64 ++ [cSlash, 0x6d]

set_option maxRecDepth 200000 in
/-- **Counterexample (finding `open:flt:truncated-path`)** for code that formats
without testing the length: the name opened for `fltLongPath` is the first 1023
bytes of the path – not inside the module's directory. -/
theorem C10_companion_flt_counterexample (hchk : fltLengthChecked = false) :
    ∃ q ∈ fltCompanions (some fltLongPath), ¬ ∃ x, q = getDirname fltLongPath ++ x := by
  refine ⟨List.replicate (fltBufSize - 1) 0x64, ?_, ?_⟩
  · unfold fltCompanions
    simp only [hchk, Bool.false_and]
    decide
  · rintro ⟨x, hx⟩
    have h1 := congrArg List.length hx
    have h2 : (getDirname fltLongPath).length = 1031 := by decide
    have h3 : fltBufSize = 1024 := by decide
    simp only [List.length_replicate, List.length_append, h2, h3] at h1
    omega

/-- Magnetic Fields Packer: `smp.<rest of the base name>` next to the module, or that
name cut at its last `-` plus `.set`. -/
theorem C10_companion_mfp (p q : Bytes) (hq : q ∈ mfpCompanions (some p)) :
    ∃ x, q = getDirname p ++ x ∧ cSlash ∉ x ∧ x ≠ [cDot] ∧ x ≠ [cDot, cDot] := by
  unfold mfpCompanions at hq
  simp only at hq
  split at hq
  · simp at hq
  rename_i hcond
  simp only [Bool.or_eq_true, decide_eq_true_eq, not_or, Nat.not_lt, bne_iff_ne, ne_eq, Decidable.not_not] at hcond
  have hns : cSlash ∉ smp ++ (getBasename p).drop 3 := by
    intro hm
    rcases List.mem_append.mp hm with h | h
    · revert h; decide
    · exact basename_no_slash p (List.mem_of_mem_drop h)
  have hlen : 5 ≤ (smp ++ (getBasename p).drop 3).length := by
    simp only [List.length_append, List.length_drop]
    have : smp.length = 3 := rfl
    omega
  have first_ok : ∃ x, getDirname p ++ (smp ++ List.drop 3 (getBasename p)) = getDirname p ++ x ∧ cSlash ∉ x ∧
      x ≠ [cDot] ∧ x ≠ [cDot, cDot] := by
    refine ⟨_, rfl, hns, ?_, ?_⟩
    · intro he; have := congrArg List.length he; rw [this] at hlen; simp at hlen
    · intro he; have := congrArg List.length he; rw [this] at hlen; simp at hlen
  simp only [List.mem_cons, List.not_mem_nil, or_false] at hq
  rcases hq with rfl | rfl
  · exact first_ok
  · split
    · rename_i hdash
      have hmem : cDash ∈ smp ++ List.drop 3 (getBasename p) := by simpa using hdash
      obtain ⟨j, hj, hjl⟩ := lastDash_of_mem hmem
      rw [lastDash_append hj]
      simp only
      split
      case isFalse => exact first_ok
      refine ⟨(smp ++ List.drop 3 (getBasename p)).take j ++ dotSet, ?_, ?_, ?_, ?_⟩
      · rw [List.take_append]
        simp [List.take_of_length_le]
      · intro hm
        rcases List.mem_append.mp hm with h | h
        · exact hns (List.mem_of_mem_take h)
        · revert h; decide
      · intro he; have := congrArg List.length he; simp [dotSet] at this
      · intro he; have := congrArg List.length he; simp [dotSet] at this
    · exact first_ok

/-- not loaded from a path (memory, FILE, callbacks): no companion is looked for at all -/
theorem C10_companion_none (e : Entry) (h : ∀ p, e ≠ .path p) :
    fltCompanions e.modulePath = [] ∧ mfpCompanions e.modulePath = [] := by
  cases e with
  | path p => exact absurd rfl (h p)
  | file => exact ⟨rfl, rfl⟩
  | memory => exact ⟨rfl, rfl⟩
  | callbacks => exact ⟨rfl, rfl⟩

example : fltCompanions (some (ascii "/m o/$(x).mod")) =
    [ascii "/m o/$(x).mod.NT", ascii "/m o/$(x).mod.nt", ascii "/m o/$(x).mod.AS", ascii "/m o/$(x).mod.as"] := by decide
example : mfpCompanions (some (ascii "d/mfp.kid-chaos")) = [ascii "d/smp.kid-chaos", ascii "d/smp.kid.set"] := by decide

/-! ## helper programs -/

/-- **A program is started only** for a path load (`filename` present) of a
file of at least `decrunchMinHeader` bytes (a generated constant) that no built-in depacker claimed and that starts
with `MO3` or `Rar`; the argument vector is the fixed one for that helper. -/
theorem C10_exec (b : Bytes) (builtin : Bool) (fn : Option Bytes) (argv : List Bytes)
    (h : decrunchDecision b builtin fn = .external argv) :
    ∃ f, fn = some f ∧ builtin = false ∧ decrunchMinHeader ≤ b.length ∧
      ((b.take 3 = sigMO3 ∧ argv = unmo3Argv f) ∨ (b.take 3 = sigRar ∧ argv = unrarArgv f)) := by
  unfold decrunchDecision at h
  split at h
  · cases h
  rename_i hlen
  split at h
  · cases h
  rename_i hb
  simp only at h
  split at h
  · cases h
  rename_i mk hmk
  split at h
  · cases h
  rename_i f
  cases h
  refine ⟨f, rfl, by simpa using hb, by omega, ?_⟩
  split at hmk
  · rename_i h3
    cases hmk
    exact Or.inl ⟨beq_iff_eq.mp h3, rfl⟩
  · split at hmk
    · rename_i h3
      cases hmk
      exact Or.inr ⟨beq_iff_eq.mp h3, rfl⟩
    · cases hmk

/-- never from memory, callbacks or a `FILE` -/
theorem C10_exec_only_for_paths (b : Bytes) (builtin : Bool) (e : Entry) (argv : List Bytes)
    (h : decrunchDecision b builtin e.filename = .external argv) : ∃ p, e = .path p := by
  obtain ⟨f, hf, _⟩ := C10_exec b builtin e.filename argv h
  cases e with
  | path p => exact ⟨p, rfl⟩
  | file => cases hf
  | memory => cases hf
  | callbacks => cases hf

/-- the file name is one element of `argv` whatever bytes it holds (spaces,
quotes, `;`, `$( )` …): everything around it is constant, there is no shell. -/
theorem C10_argv_single_argument :
    (∀ f, unmo3Argv f = [ascii "unmo3", ascii "-s"] ++ f :: [ascii "STDOUT"]) ∧
    (∀ f, unrarArgv f = [ascii "unrar", ascii "p", ascii "-inul", ascii "-xreadme", ascii "-x*.diz", ascii "-x*.nfo",
        ascii "-x*.txt", ascii "-x*.exe", ascii "-x*.com"] ++ f :: []) :=
  ⟨fun _ => rfl, fun _ => rfl⟩

set_option maxRecDepth 8000 in
example : decrunchDecision (sigRar ++ List.replicate 100 7) false (some (ascii "a b;$(id).rar")) =
    .external (unrarArgv (ascii "a b;$(id).rar")) := by decide
set_option maxRecDepth 8000 in
example : decrunchDecision (sigMO3 ++ List.replicate 100 7) false none = .skippedExternal := by decide

/-! ## histories on one context -/

/-- the defensive invariant of src/load.c: an unloaded context remembers no directory -/
def CtxInv (c : LoadCtx) : Prop := c.loaded = false → c.dir = none ∧ c.base = none

theorem loadStep_inv (c : LoadCtx) (e : Entry) (o : Outcome) (h : CtxInv c) : CtxInv (loadStep c e o).2 := by
  cases o <;> simp [loadStep, releaseCtx, CtxInv] <;> exact h

theorem histStep_inv (c : LoadCtx) (op : HistOp) (h : CtxInv c) : CtxInv (histStep c op) := by
  cases op with
  | load e o => exact loadStep_inv c e o h
  | release => simp [histStep, releaseCtx, CtxInv]
  | play => exact h

/-- after any sequence of load attempts (through any entry point, with any outcome), releases and
player runs, a context that holds no module holds no directory either -/
theorem C10_history_inv (h : List HistOp) : CtxInv (runHist {} h) := by
  have : ∀ (l : List HistOp) (c : LoadCtx), CtxInv c → CtxInv (runHist c l) := by
    intro l
    induction l with
    | nil => intro c hc; exact hc
    | cons op rest ih => intro c hc; exact ih _ (histStep_inv c op hc)
  exact this h {} (by simp [CtxInv])

/-- **The directory a load may open from depends only on that load's own entry point and
path**: whatever happened on the context before (path loads that succeeded, were refused as
not-a-module, failed to depack or to load; memory / FILE / callback loads; releases or none),
the `dirname` / `basename` the format loaders see are those of the path given to *this* call,
and none at all for a memory, FILE or callback load. -/
theorem C10_history_fields (h : List HistOp) (e : Entry) (o : Outcome) (seen : Option Bytes × Option Bytes)
    (hs : (loadStep (runHist {} h) e o).1 = some seen) :
    seen = (e.modulePath.map getDirname, e.modulePath.map getBasename) := by
  generalize runHist {} h = c at hs
  cases o <;> simp [loadStep] at hs <;> exact hs.symm

/-- hence a non-path load has no module directory, after any history: the song-only loaders can
only reach the configured instrument path, and no Startrekker / Magnetic Fields companion is tried -/
theorem C10_history_stream_loads (h : List HistOp) (e : Entry) (o : Outcome) (seen : Option Bytes × Option Bytes)
    (he : ∀ p, e ≠ .path p) (hs : (loadStep (runHist {} h) e o).1 = some seen) :
    seen = (none, none) ∧ fltCompanions e.modulePath = [] ∧ mfpCompanions e.modulePath = [] := by
  have := C10_history_fields h e o seen hs
  have hc := C10_companion_none e he
  cases e with
  | path p => exact absurd rfl (he p)
  | file => exact ⟨this, hc⟩
  | memory => exact ⟨this, hc⟩
  | callbacks => exact ⟨this, hc⟩

/-- non-vacuous: the history of the seeded defect C10-m11 — a path load refused as "not a module",
then a callback load — leaves nothing behind for the second load -/
example : (loadStep (runHist {} [.load (.path (ascii "mods/notes.txt")) .formatError]) .callbacks .ok).1 = some (none, none) := by
  decide
example : (loadStep (runHist {} [.load (.path (ascii "a/x.mod")) .ok, .play]) (.path (ascii "b/y.mod")) .ok).1
    = some (some (ascii "b/"), some (ascii "y.mod")) := by decide

/-! ## the call-site premise, over the generated table -/

def fileOpenSinks : List String :=
  ["fopen", "fopen64", "open", "open64", "openat", "openat64", "stat", "stat64", "lstat", "lstat64", "access"]
def dirListSinks : List String := ["opendir"]
def tempSinks : List String := ["mkstemp", "mkstemp64", "mkostemp", "unlink", "remove"]
def execSinks : List String := ["execvp"]

/-- the libc functions a call to `callee` with a path in argument `arg` can reach -/
def sinksOf (callee : String) (arg : Nat) : List String :=
  match wrappers.filter (fun w => w.1 == callee && w.2.1 == arg) with
  | [] => [callee]
  | ws => ws.flatMap (fun w => w.2.2)

def subset (a b : List String) : Bool := a.all (fun x => b.contains x)

/-- entry points that are not given a path -/
def hasInfix (pat : List Char) : List Char → Bool
  | [] => pat.isEmpty
  | c :: rest => pat.isPrefixOf (c :: rest) || hasInfix pat rest

def isStreamEntry (func : String) : Bool := hasInfix "_from_".toList func.toList

/-- split an argv template at the `NULL`s into commands -/
def splitNone : List (Option String) → List (List String)
  | [] => [[]]
  | none :: rest => [] :: splitNone rest
  | some s :: rest =>
    match splitNone rest with
    | [] => [[s]]
    | seg :: segs => (s :: seg) :: segs

def helperCommands (items : List (Option String)) : List (List String) :=
  (splitNone items).filter (fun seg => !seg.isEmpty)

def okSuffix (s : String) : Bool := s.toList.all (fun c => c != '/')

/-- the guard a site of each provenance class must satisfy -/
def siteGuarded (s : Site) : Bool :=
  let sk := sinksOf s.callee s.arg
  match s.prov with
  | .apiParam => subset sk (fileOpenSinks ++ execSinks) && !isStreamEntry s.func
  | .wrapperParam =>
    subset sk (fileOpenSinks ++ dirListSinks ++ execSinks ++ ["unlink"]) &&
    wrappers.any (fun w => w.1 == s.func && subset sk w.2.2)
  | .found copyChecked findChecked n buf =>
    copyChecked && findChecked && decide (3 ≤ n) && decide (n ≤ buf) && subset sk fileOpenSinks
  | .dirBase sfx nullGuard _ _ => nullGuard && sfx.all okSuffix && subset sk fileOpenSinks
  | .modDir => subset sk dirListSinks
  | .insPath => subset sk dirListSinks
  | .tempName => subset sk tempSinks
  | .helperArgv items clean =>
    clean && subset sk execSinks &&
    (helperCommands items).all (fun seg => (seg.head? == some "unmo3" || seg.head? == some "unrar") &&
      seg.count "<path>" == 1)
  | .null => true
  | .noPath => s.callee == "fork" && sites.any (fun t => t.func == s.func && t.callee == "execvp")
  | .literal _ => false
  | .other _ => false

/-- **Every place where the compiled library hands a path to the OS or starts a
process** belongs to one of the guarded classes: an API argument (never in a
`*_from_*` entry point), the sanitised-and-looked-up sample name (both results
checked, `n = 32 ≤` buffer), `dirname+basename+suffix` under a NULL test, the
configured directories (listing only), a temp file of the library's own, or the
helper argv (only `unmo3`/`unrar`, one path element, `filename != NULL` tested);
`system`/`popen`/`execl`/… do not occur. -/
theorem C10_sites_guarded : sites.all siteGuarded = true := by decide

/-- the fields the companion names are built from are only ever set from the
path argument of `xmp_load_module` (through `get_dirname`/`get_basename`), from
`xmp_set_instrument_path`'s argument, or to NULL; in-place patches never write a `/` or `.` -/
def fieldGuarded (w : String × String × String × FieldWrite) : Bool :=
  match w.2.2.2 with
  | .null => true
  | .ofApiParam via =>
    !isStreamEntry w.2.1 &&
    ((w.2.2.1 == "dirname" && via == "get_dirname") || (w.2.2.1 == "basename" && via == "get_basename") ||
     (w.2.2.1 == "instrument_path" && via == "libxmp_strdup"))
  | .patchChar c => c != 47 && c != 46 && c != 0
  | .other _ => false

theorem C10_fields_guarded : fieldWrites.all fieldGuarded = true := by decide

/-- **No path buffer is shared between contexts or threads**: every character
buffer / string variable that carries a path to an OS call, to a function
forwarding to one, or through the sanitiser and the lookup is an automatic
variable of its function (a `static` or file-scope buffer would let one load
open the path another load resolved). -/
theorem C10_path_buffers_automatic : pathBuffers.all (fun b => b.2.2.2.2 == Storage.auto) = true := by decide

example : pathBuffers ≠ [] ∧ pathBuffers.any (fun b => b.2.2.2.1 == "char[32]") = true := by decide

/-- instantiate an argv template -/
def instantiate (f : Bytes) (seg : List String) : List Bytes :=
  seg.map (fun s => if s == "<path>" then f else ascii s)

/-- **The model's argument vectors are the ones in the source**: the literals
assigned to `cmd[]` in `libxmp_decrunch`, split at the NULLs, are exactly
`unmo3Argv`/`unrarArgv`. -/
theorem C10_argv_tie (f : Bytes) :
    ∀ s ∈ sites, ∀ items clean, s.prov = .helperArgv items clean →
      (helperCommands items).map (instantiate f) = [unmo3Argv f, unrarArgv f] := by
  have key : sites.all (fun s => match s.prov with
      | .helperArgv items _ => helperCommands items == [["unmo3", "-s", "<path>", "STDOUT"],
          ["unrar", "p", "-inul", "-xreadme", "-x*.diz", "-x*.nfo", "-x*.txt", "-x*.exe", "-x*.com", "<path>"]]
      | _ => true) = true := by decide
  intro s hs items clean hp
  have := List.all_eq_true.mp key s hs
  rw [hp] at this
  rw [beq_iff_eq.mp this]
  rfl

/-- the table is not empty and really contains the classes the theorem talks about -/
example : sites.any (fun s => match s.prov with | .found .. => true | _ => false) = true ∧
    sites.any (fun s => match s.prov with | .dirBase .. => true | _ => false) = true ∧
    sites.any (fun s => match s.prov with | .helperArgv .. => true | _ => false) = true ∧
    sites.any (fun s => s.callee == "fopen") = true ∧ sites.any (fun s => s.callee == "execvp") = true ∧
    sites.any (fun s => s.callee == "opendir") = true ∧ sites.any (fun s => s.callee == "mkstemp") = true := by decide

end Xmp.PathSafe
