#!/usr/bin/env python3
"""Translator for C06: the writable process-wide data of libxmp.

Every object file of the (ASan) build of /repo's working tree is listed with
`objdump -t`; data objects in .data / .bss / COMMON (but not .data.rel.ro*,
.rodata*) that are not sanitizer-internal are the library's writable globals.
For each of them the C source is searched for the functions that write it
(assignment through the name, `name[...] =`, `&name`, or the array passed to
memset/memcpy), which gives the class used by the Lean whitelist:

  neverWritten   no writer in the library (ABI constant that is merely not `const`)
  lazyTable      written, all writers are inside the one filling function
  other          anything else

Writes lean/XmpModel/Gen/Globals.lean (list `writableGlobals`, the format-name
table the `_farray` fill copies, the constants of the Vorbis CRC fill).
"""
import os
import re
import sys

sys.path.insert(0, os.path.dirname(os.path.abspath(__file__)))
import vlib  # noqa: E402

SAN_INTERNAL = re.compile(r"^(__unnamed_\d+|__asan_|__odr_asan|__ubsan_|__sancov|__msan_|__tsan_|asan\.module|\.L|\.str|__llvm_)")


def list_objects(bdir):
    out = []
    for root, dirs, files in os.walk(os.path.join(bdir, "CMakeFiles")):
        dirs.sort()
        for f in sorted(files):
            if f.endswith(".o"):
                out.append(os.path.join(root, f))
    return out


def writable_symbols(obj):
    rc, out = vlib.sh(["objdump", "-t", obj])
    if rc != 0:
        raise vlib.InfraError("objdump failed on " + obj)
    res = []
    for line in out.splitlines():
        # 0000000000000000 l     O .bss   00000000000003c0 _farray
        m = re.match(r"^([0-9a-f]+)\s+(.{7})\s+(\S+)\s+([0-9a-f]+)\s+(?:\.hidden\s+|\.protected\s+|\.internal\s+)?(\S+)\s*$", line)
        if not m:
            continue
        flags, sec, size, name = m.group(2), m.group(3), int(m.group(4), 16), m.group(5)
        if "O" not in flags:
            continue
        if not (sec in (".data", ".bss", "*COM*", "COMMON") or re.match(r"^\.(data|bss|tdata|tbss)\.", sec)):
            continue
        if sec.startswith(".data.rel.ro"):
            continue
        if SAN_INTERNAL.match(name):
            continue
        res.append((name, sec, size))
    return res


def strip_c_comments(src):
    src = re.sub(r"/\*.*?\*/", lambda m: re.sub(r"[^\n]", " ", m.group(0)), src, flags=re.S)
    src = re.sub(r"//[^\n]*", "", src)
    return src


def functions_of(src):
    """Very small C function splitter: yields (name, body) for top-level
    definitions (brace matching from a line that looks like a definition)."""
    out = []
    for m in re.finditer(r"^[A-Za-z_][^;{}()=\n]*?\b(\w+)\s*\([^;{}]*\)\s*\{", src, re.M):
        name = m.group(1)
        i = m.end()
        depth = 1
        n = len(src)
        while i < n and depth:
            c = src[i]
            if c == "{":
                depth += 1
            elif c == "}":
                depth -= 1
            i += 1
        out.append((name, src[m.end():i]))
    return out


def writers_of(srcfile, sym):
    """Functions of `srcfile` that may write the global `sym` (syntactic)."""
    try:
        src = strip_c_comments(open(srcfile, errors="replace").read())
    except OSError:
        return ["?"]
    base = sym.split(".")[-1]          # function-local statics appear as func.var
    pat_write = re.compile(
        r"(?<![\w.>])" + re.escape(base) + r"\s*(?:\[[^\]]*\]\s*)*(?:=(?!=)|\+=|-=|\|=|&=|\^=|<<=|>>=|\+\+|--)"
        r"|(?:\+\+|--)\s*" + re.escape(base) + r"\b"
        r"|&\s*" + re.escape(base) + r"\b"
        r"|\b(?:memset|memcpy|memmove|strcpy|strncpy|snprintf|sprintf|fread|hio_read)\s*\(\s*" + re.escape(base) + r"\b")
    ws = []
    for fn, body in functions_of(src):
        if pat_write.search(body):
            ws.append(fn)
    return sorted(set(ws))


def farray_inputs():
    """The constant tables format_list() copies names from: loader variable
    order of format_loaders[] and each loader's `name` string; prowizard expands
    to pw_formats[] names.  Extracted by regex from the working tree."""
    fsrc = strip_c_comments(open(os.path.join(vlib.REPO, "src", "format.c")).read())
    m = re.search(r"format_loaders\s*\[[^\]]*\]\s*=\s*\{(.*?)\};", fsrc, re.S)
    loaders = re.findall(r"&\s*(libxmp_loader_\w+)", m.group(1)) if m else []
    # the guard of the lazy fill: first slot compared with NULL
    guarded = bool(re.search(r"if\s*\(\s*_farray\s*\[\s*0\s*\]\s*==\s*NULL\s*\)", fsrc))
    return loaders, guarded


def crc_constants():
    vsrc = strip_c_comments(open(os.path.join(vlib.REPO, "src", "loaders", "vorbis.c")).read())
    m = re.search(r"#define\s+CRC32_POLY\s+(0x[0-9a-fA-F]+)", vsrc)
    poly = int(m.group(1), 16) if m else 0
    body = dict(functions_of(vsrc)).get("crc32_init", "")
    # shape facts of the fill: loops 256 x 8, start value i<<24, unconditional store crc_table[i] = s
    shape_ok = bool(re.search(r"i\s*<\s*256", body) and re.search(r"j\s*<\s*8", body)
                    and re.search(r"\(uint32\)\s*i\s*<<\s*24", body) and re.search(r"crc_table\s*\[\s*i\s*\]\s*=\s*s\s*;", body)
                    and re.search(r"\(s\s*<<\s*1\)\s*\^\s*\(s\s*>=\s*\(1U<<31\)\s*\?\s*CRC32_POLY\s*:\s*0\)", body))
    # the repaired tree holds the table as a precomputed constant: extract it so that Lean can re-derive it
    m = re.search(r"static\s+const\s+uint32\s+crc_table\s*\[\s*256\s*\]\s*=\s*\{(.*?)\};", vsrc, re.S)
    table = [int(x, 16) for x in re.findall(r"0x[0-9a-fA-F]+", m.group(1))] if m else []
    return poly, shape_ok, table


def generate(variant="asan"):
    bdir = vlib.build_repo(variant)
    globs = []
    for obj in list_objects(bdir):
        rel = os.path.relpath(obj, bdir)
        m = re.search(r"\.dir/(.*)\.o$", rel)
        src = m.group(1) if m else rel          # e.g. src/loaders/vorbis.c
        if src.endswith(".c.o"):
            src = src[:-2]
        for (name, sec, size) in writable_symbols(obj):
            ws = writers_of(os.path.join(vlib.REPO, src), name)
            globs.append(dict(file=src, name=name, section=sec, size=size, writers=ws))
    globs.sort(key=lambda g: (g["file"], g["name"]))
    loaders, guarded = farray_inputs()
    poly, shape_ok, crc_tab = crc_constants()

    L = []
    L.append("/-! GENERATED by tools/gen_globals.py from the object files of the %s build of /repo's working tree" % variant)
    L.append("    (`objdump -t`, data objects in .data/.bss/COMMON, sanitizer-internal symbols removed) and from")
    L.append("    src/format.c, src/loaders/vorbis.c (regular expressions).  Do not edit. -/")
    L.append("namespace Xmp.Gen.Globals")
    L.append("")
    L.append("structure Global where")
    L.append("  file : String")
    L.append("  name : String")
    L.append("  «section» : String")
    L.append("  size : Nat")
    L.append("  writers : List String   -- functions of `file` that syntactically write it")
    L.append("  deriving DecidableEq, Repr")
    L.append("")
    L.append("def writableGlobals : List Global := [")
    L.append(",\n".join("  { file := \"%s\", name := \"%s\", «section» := \"%s\", size := %d, writers := [%s] }" % (
        g["file"], g["name"], g["section"], g["size"], ", ".join('"%s"' % w for w in g["writers"])) for g in globs))
    L.append("]")
    L.append("")
    L.append("/-- loader variables of `format_loaders[]` (src/format.c) in order; their `name` strings are what")
    L.append("    `format_list()` copies into `_farray` -/")
    L.append("def formatLoaders : List String := [%s]" % ", ".join('"%s"' % x for x in loaders))
    L.append("/-- the lazy fill of `_farray` is guarded by `_farray[0] == NULL` -/")
    L.append("def farrayFillGuarded : Bool := %s" % ("true" if guarded else "false"))
    L.append("")
    L.append("/-- `CRC32_POLY` of src/loaders/vorbis.c -/")
    L.append("def crc32Poly : Nat := 0x%08x" % poly)
    L.append("/-- crc32_init has the shape modelled by `Xmp.Reset.crcEntry` (256 entries, 8 shifts, start i<<24, unconditional store) -/")
    L.append("def crcInitShapeOk : Bool := %s" % ("true" if shape_ok else "false"))
    L.append("/-- the precomputed `static const uint32 crc_table[256]` of src/loaders/vorbis.c ([] while it is still filled at run time) -/")
    L.append("def crcTableConst : List Nat := [%s]" % ", ".join("0x%08x" % v for v in crc_tab))
    L.append("")
    L.append("end Xmp.Gen.Globals")
    vlib.write_if_changed(os.path.join(vlib.LEAN, "XmpModel", "Gen", "Globals.lean"), "\n".join(L) + "\n")
    return dict(globals=globs, loaders=loaders, guarded=guarded, poly=poly, shape_ok=shape_ok, crc_table=crc_tab)


if __name__ == "__main__":
    r = generate()
    for g in r["globals"]:
        print(g)
    print(len(r["loaders"]), "loaders; guarded", r["guarded"], "poly %#x" % r["poly"], "shape", r["shape_ok"])
