#!/usr/bin/env python3
"""Translator for C10: every place where the compiled libxmp sources hand a
path to the operating system (fopen/open/opendir/stat/mkstemp/unlink/...), or
start a process (fork/exec*/popen/system/...), with the *provenance class* of
the path argument.  Output: lean/XmpModel/Gen/OpenSites.lean.

How: the compile commands of the real build (ninja -t compdb) give the list of
compiled translation units and their -D/-I flags; every unit is dumped with
`clang-14 -Xclang -ast-dump=json -fsyntax-only` (so #ifdef'ed-out code does not
count and macro-expanded code does); a small data-flow pass over the AST
follows the path argument backwards inside the enclosing function:

  parameter of an exported xmp_* function          -> apiParam
  parameter of an internal function                -> wrapperParam; the function becomes
                                                      a tracked callee itself (fixpoint),
                                                      with the libc sinks it reaches
  local buffer written only by libxmp_find_instrument_file whose name argument is
     written only by libxmp_copy_name_for_fopen     -> found (+ are both results checked?)
  local buffer written only by snprintf("%s%s<suffix>", m->dirname, m->basename)
     (and strcpy(<strrchr of it>, literal))        -> dirBase (+ are both tested for NULL?)
  m->dirname / m->instrument_path / getenv(...)     -> modDir / insPath
  name produced by mkstemp from get_temp_dir()+"xmp_XXXXXX" and handed around
     through out-parameters                         -> tempName
  argv array of string literals plus one path       -> helperArgv
  anything else                                     -> other "<why>"   (fails C10_sites_guarded)

The classification is deliberately conservative: an unrecognised write to a
path buffer makes the site `other`.
"""
import json
import os
import re
import subprocess
import sys
from concurrent.futures import ProcessPoolExecutor

sys.path.insert(0, os.path.dirname(os.path.abspath(__file__)))
import vlib  # noqa: E402

# libc / OS entry points that take a path (index of the path argument) ...
PATH_SINKS = {
    "fopen": 0, "fopen64": 0, "freopen": 0, "freopen64": 0, "open": 0, "open64": 0, "openat": 1, "openat64": 1,
    "creat": 0, "opendir": 0, "scandir": 0, "stat": 0, "stat64": 0, "lstat": 0, "lstat64": 0, "access": 0,
    "mkstemp": 0, "mkstemp64": 0, "mkostemp": 0, "mkdtemp": 0, "mktemp": 0, "tempnam": 0,
    "unlink": 0, "remove": 0, "rmdir": 0, "mkdir": 0, "chdir": 0, "rename": 0, "chmod": 0, "truncate": 0,
    "readlink": 0, "realpath": 0, "dlopen": 0, "mkfifo": 0, "symlink": 1, "link": 1,
    "execvp": 1, "execv": 1, "execve": 1, "execvpe": 1, "posix_spawn": 1, "posix_spawnp": 1,
    "execl": 0, "execlp": 0, "execle": 0, "popen": 0, "system": 0,
}
# ... and those that take none but still matter
NOPATH_SINKS = {"fork", "vfork", "tmpfile", "tmpfile64", "tmpnam"}

# callees that only read a char buffer handed to them (never a write event)
READERS = {"strlen", "strcmp", "strncmp", "strcasecmp", "strncasecmp", "strchr", "strrchr", "strstr", "memcmp",
           "libxmp_strdup", "strdup", "free", "fnmatch", "printf", "fprintf", "atoi", "strtol", "strtoul"}


def compile_units(bdir):
    rc, out = vlib.sh(["ninja", "-C", bdir, "-t", "compdb"])
    if rc != 0:
        raise vlib.InfraError("ninja -t compdb failed: " + out[-500:])
    units = []
    for e in json.loads(out[out.index("["):]):
        f = e.get("file", "")
        if not f.endswith(".c") or "-c" not in e.get("command", "").split():
            continue
        flags = [t for t in e["command"].split() if re.match(r"-(D|I|U|std=|include)", t)]
        units.append((f, flags))
    if len(units) < 50:
        raise vlib.InfraError("compdb lists only %d translation units" % len(units))
    return sorted(units)


# ---------------------------------------------------------------------------
# per translation unit: AST -> compact function summaries   (runs in a worker)
# ---------------------------------------------------------------------------

class _Loc:
    def __init__(self):
        self.file, self.line = None, None

    def bare(self, l):
        if "file" in l:
            self.file = l["file"]
        if "line" in l:
            self.line = l["line"]
        return (self.file, self.line)

    def resolve(self, l):
        if "spellingLoc" in l or "expansionLoc" in l:
            r = None
            for k, v in l.items():
                if isinstance(v, dict):
                    rr = self.bare(v)
                    if k == "expansionLoc":
                        r = rr
            return r or (self.file, self.line)
        return self.bare(l)

    def walk(self, node):
        for k, v in list(node.items()):
            if k == "loc" and isinstance(v, dict):
                node["_loc"] = self.resolve(v)
            elif k == "range" and isinstance(v, dict):
                node["_b"] = self.resolve(v.get("begin", {}))
                node["_e"] = self.resolve(v.get("end", {}))
            elif isinstance(v, dict):
                self.walk(v)
            elif isinstance(v, list):
                for x in v:
                    if isinstance(x, dict):
                        self.walk(x)


def _strip(n):
    while n.get("kind") in ("ImplicitCastExpr", "ParenExpr", "CStyleCastExpr", "ConstantExpr") and n.get("inner"):
        n = n["inner"][0]
    return n


def _is_null(n):
    n = _strip(n)
    return (n.get("kind") == "IntegerLiteral" and n.get("value") == "0") or n.get("kind") == "GNUNullExpr"


def summ(n):
    """expression -> small JSON-able term"""
    n = _strip(n)
    k = n.get("kind")
    if _is_null(n):
        return ["null"]
    if k == "DeclRefExpr":
        rd = n.get("referencedDecl", {})
        if rd.get("kind") == "ParmVarDecl":
            return ["param", rd.get("name")]
        if rd.get("kind") == "VarDecl":
            return ["var", rd.get("name")]
        return ["ref", rd.get("name")]
    if k == "StringLiteral":
        try:
            return ["lit", json.loads(n.get("value"))]
        except Exception:
            return ["lit", n.get("value")]
    if k == "IntegerLiteral":
        return ["int", int(n.get("value"))]
    if k == "CharacterLiteral":
        return ["char", int(n.get("value"))]
    if k == "MemberExpr":
        return ["member", n.get("name"), summ(n["inner"][0])]
    if k == "UnaryOperator":
        op = n.get("opcode")
        if op == "&":
            return ["addr", summ(n["inner"][0])]
        if op == "*":
            return ["deref", summ(n["inner"][0])]
        if op in ("++", "--") and n.get("inner"):
            return ["incdec", summ(n["inner"][0])]
        return ["other", "unary" + str(op)]
    if k == "ArraySubscriptExpr":
        return ["index", summ(n["inner"][0]), summ(n["inner"][1])]
    if k == "CallExpr":
        c = _strip(n["inner"][0])
        return ["call", c.get("referencedDecl", {}).get("name"), [summ(a) for a in n["inner"][1:]]]
    if k == "ConditionalOperator":
        return ["cond", summ(n["inner"][1]), summ(n["inner"][2])]
    if k == "UnaryExprOrTypeTraitExpr":
        inner = n.get("inner")
        return ["sizeof", summ(inner[0]) if inner else n.get("argType", {}).get("qualType")]
    return ["other", k]


def _exits(stmt):
    """does the statement (then-branch) leave the normal flow at once?"""
    if stmt is None:
        return False
    k = stmt.get("kind")
    if k in ("ContinueStmt", "ReturnStmt", "GotoStmt", "BreakStmt"):
        return True
    if k == "CompoundStmt":
        inner = stmt.get("inner") or []
        return bool(inner) and inner[-1].get("kind") in ("ContinueStmt", "ReturnStmt", "GotoStmt", "BreakStmt")
    return False


def _cond_tests(cond, out, ops):
    """collect elementary tests of a condition: (kind, subject summary)"""
    c = _strip(cond)
    k = c.get("kind")
    if k == "BinaryOperator" and c.get("opcode") in ("&&", "||"):
        ops.add(c["opcode"])
        _cond_tests(c["inner"][0], out, ops)
        _cond_tests(c["inner"][1], out, ops)
    elif k == "BinaryOperator" and c.get("opcode") in ("==", "!=", "<", ">", "<=", ">="):
        a, b = c["inner"]
        if _is_null(b):
            out.append((c["opcode"] + "0", summ(a), id(_strip(a))))
        elif _is_null(a):
            out.append((c["opcode"] + "0", summ(b), id(_strip(b))))
        else:
            out.append(("cmp", summ(a), id(_strip(a))))
    elif k == "UnaryOperator" and c.get("opcode") == "!":
        s = _strip(c["inner"][0])
        out.append(("==0", summ(s), id(s)))
    else:
        out.append(("!=0", summ(c), id(c)))


def _has_strlen_of_path_field(n):
    """does the condition compare strlen(m->dirname) / strlen(m->basename) with something?"""
    if n.get("kind") == "CallExpr":
        c = _strip(n["inner"][0])
        if c.get("referencedDecl", {}).get("name") == "strlen" and len(n["inner"]) > 1:
            a = _strip(n["inner"][1])
            if a.get("kind") == "MemberExpr" and a.get("name") in ("dirname", "basename"):
                return True
    return any(_has_strlen_of_path_field(c) for c in (n.get("inner") or []) if isinstance(c, dict))


def _const_params(fty):
    """'int (struct module_data *, char *, int, const char *)' -> [False, False, False, True]:
    which parameters are pointers to const (the callee cannot write through them)"""
    m = re.match(r"^[^(]*\((.*)\)[^)]*$", fty)
    if not m:
        return []
    parts, depth, cur = [], 0, ""
    for ch in m.group(1):
        if ch == "," and depth == 0:
            parts.append(cur.strip())
            cur = ""
        else:
            depth += ch == "("
            depth -= ch == ")"
            cur += ch
    parts.append(cur.strip())
    return [bool(re.match(r"^const\s+[\w\s]+\*\s*(const|restrict|__restrict)?$", p)) for p in parts]


class _Fn:
    def __init__(self, node, repo):
        self.name = node.get("name")
        self.file = os.path.relpath(node["_loc"][0], repo) if node["_loc"][0] else "?"
        self.line = node["_loc"][1]
        self.static = node.get("storageClass") == "static"
        self.params, self.locals = [], {}
        self.calls, self.assigns, self.returns, self.nulltests, self.lenchecks = [], [], [], [], []
        self._guards = {}          # id(call node) -> (test kind, exits)
        body = None
        for c in node.get("inner", []):
            if c.get("kind") == "ParmVarDecl":
                self.params.append(c.get("name"))
            elif c.get("kind") == "CompoundStmt":
                body = c
        self.has_body = body is not None
        if body is not None:
            self.visit(body)

    def visit(self, n):
        k = n.get("kind")
        if k == "IfStmt":
            inner = n.get("inner", [])
            cond, then = inner[0], inner[1] if len(inner) > 1 else None
            tests, ops = [], set()
            _cond_tests(cond, tests, ops)
            ex = _exits(then)
            tb = (then.get("_b", (None, None))[1], then.get("_e", (None, None))[1]) if then else (None, None)
            if _has_strlen_of_path_field(cond) and "||" not in ops:
                self.lenchecks.append(tb)
            for (tk, subj, nid) in tests:
                self._guards[nid] = (tk, ex, sorted(ops))
                if subj[0] in ("member", "param"):
                    self.nulltests.append({"member": subj[1], "what": subj[0], "test": tk, "exits": ex, "ops": sorted(ops),
                                           "line": n["_b"][1], "then": tb})
        if k == "VarDecl":
            ty = n.get("type", {}).get("qualType", "")
            m = re.match(r".*\[(\d+)\]$", ty)
            self.locals[n.get("name")] = {"type": ty, "size": int(m.group(1)) if m else None,
                                          "storage": n.get("storageClass") or "auto"}
            if n.get("inner") and n.get("init"):
                self.assigns.append({"lhs": ["var", n.get("name")], "rhs": summ(n["inner"][-1]), "line": n["_loc"][1]})
        if k == "BinaryOperator" and n.get("opcode") == "=":
            self.assigns.append({"lhs": summ(n["inner"][0]), "rhs": summ(n["inner"][1]), "line": n["_b"][1]})
        if k == "ReturnStmt" and n.get("inner"):
            self.returns.append(summ(n["inner"][0]))
        if k == "CallExpr":
            c = _strip(n["inner"][0])
            name = c.get("referencedDecl", {}).get("name")
            g = self._guards.get(id(n))
            self.calls.append({"callee": name, "args": [summ(a) for a in n["inner"][1:]], "line": n["_b"][1],
                               "guard": list(g) if g else None, "ro": _const_params(c.get("type", {}).get("qualType", ""))})
        for c in n.get("inner", []) or []:
            if isinstance(c, dict):
                self.visit(c)

    def dump(self):
        return {"name": self.name, "file": self.file, "line": self.line, "static": self.static,
                "params": self.params, "locals": self.locals, "calls": self.calls, "assigns": self.assigns,
                "returns": self.returns, "nulltests": self.nulltests, "lenchecks": self.lenchecks}


def analyse_unit(args):
    path, flags, repo = args
    cmd = ["clang-14"] + flags + ["-w", "-Xclang", "-ast-dump=json", "-fsyntax-only", path]
    p = subprocess.run(cmd, stdout=subprocess.PIPE, stderr=subprocess.PIPE)
    if p.returncode != 0:
        return {"error": "%s: %s" % (path, p.stderr.decode("utf-8", "replace")[-500:])}
    tu = json.loads(p.stdout)
    _Loc().walk(tu)
    fns = []
    for n in tu.get("inner", []):
        if n.get("kind") != "FunctionDecl" or not n.get("_loc") or not n["_loc"][0]:
            continue
        if not os.path.abspath(n["_loc"][0]).startswith(os.path.abspath(repo) + os.sep):
            continue
        f = _Fn(n, repo)
        if f.has_body:
            fns.append(f.dump())
    globs = []
    for n in tu.get("inner", []):
        if n.get("kind") == "VarDecl" and n.get("_loc") and n["_loc"][0] and \
                os.path.abspath(n["_loc"][0]).startswith(os.path.abspath(repo) + os.sep):
            globs.append({"name": n.get("name"), "type": n.get("type", {}).get("qualType", ""),
                          "file": os.path.relpath(n["_loc"][0], repo)})
    return {"functions": fns, "globals": globs}


# ---------------------------------------------------------------------------
# whole program: provenance
# ---------------------------------------------------------------------------

class Analysis:
    def __init__(self, fns):
        self.fns = {}
        for f in fns:                      # header-defined statics appear once per TU: keep the first
            self.fns.setdefault((f["file"], f["name"]), f)
        self.by_name = {}
        for (fl, nm), f in self.fns.items():
            self.by_name.setdefault(nm, []).append(f)
        self.tracked = {}                  # callee name -> {arg index: set(libc sinks)}
        for s, k in PATH_SINKS.items():
            self.tracked[s] = {k: {s}}
        self.tracked["execvp"][0] = {"execvp"}
        for s in NOPATH_SINKS:
            self.tracked[s] = {}
        self.tempout = {}                  # function name -> set(param index) that return a temp file name

    # -- helpers -------------------------------------------------------------
    def exported(self, f):
        return (not f["static"]) and f["name"].startswith("xmp_")

    @staticmethod
    def mentions(term, var):
        """does the term denote the buffer `var` itself (V, &V, &V[0], V + k ...)?"""
        if term[0] in ("var", "param") and term[1] == var:
            return True
        if term[0] == "addr":
            t = term[1]
            return (t[0] in ("var", "param") and t[1] == var) or (t[0] == "index" and Analysis.mentions(t[1], var))
        return False

    def writers(self, f, var, aliases=None):
        """events that may change the contents of local/param `var` in f"""
        ev = []
        names = {var} | set(aliases or [])
        for a in f["assigns"]:
            l = a["lhs"]
            if l[0] in ("var",) and l[1] == var:
                ev.append(("assign", a["rhs"], a["line"]))
            elif l[0] == "index" and l[1][0] in ("var", "param") and l[1][1] in names:
                ev.append(("assign_elem", a["rhs"], a["line"]))
            elif l[0] == "deref" and l[1][0] in ("var", "param") and l[1][1] in names:
                ev.append(("assign_deref", a["rhs"], a["line"]))
        for c in f["calls"]:
            for i, t in enumerate(c["args"]):
                if any(self.mentions(t, v) for v in names):
                    if c["callee"] in READERS or (i < len(c["ro"]) and c["ro"][i]):
                        continue
                    if c["callee"] in ("snprintf", "sprintf", "fprintf", "printf") and i > 0:
                        continue        # printf family: only the destination is written
                    if c["callee"] in self.tracked and i in self.tracked[c["callee"]] \
                            and i not in self.tempout.get(c["callee"], ()):
                        continue        # forwarded as a path to a tracked callee: a use, listed as its own site
                    ev.append(("call", c, i))
        return ev

    def aliases_of(self, f, var):
        """pointer locals assigned from strchr/strrchr(var, ..): writes through them hit var"""
        out = []
        for a in f["assigns"]:
            r = a["rhs"]
            if a["lhs"][0] == "var" and r[0] == "call" and r[1] in ("strchr", "strrchr") and r[2] and self.mentions(r[2][0], var):
                out.append(a["lhs"][1])
        return out

    # -- the classifier --------------------------------------------------------
    def prov(self, f, t, depth=0):
        """provenance of expression term t inside function f -> dict(kind=..., ...)"""
        if depth > 6:
            return {"kind": "other", "why": "too deep"}
        k = t[0]
        if k == "lit":
            return {"kind": "literal", "s": t[1]}
        if k == "null":
            return {"kind": "null"}
        if k == "param":
            idx = f["params"].index(t[1]) if t[1] in f["params"] else -1
            ev = [e for e in self.writers(f, t[1]) if e[0] != "call"]
            if ev:
                return {"kind": "other", "why": "parameter %s is assigned in %s" % (t[1], f["name"])}
            if self.exported(f):
                return {"kind": "apiParam", "idx": idx}
            return {"kind": "wrapperParam", "idx": idx}
        if k == "index" and t[1][0] == "param":          # cmd[0] of an argv parameter
            return self.prov(f, t[1], depth + 1)
        if k == "deref" and t[1][0] == "param":           # *filename (out-parameter)
            ev = self.writers(f, t[1][1])
            rhs = [e[1] for e in ev if e[0] == "assign_deref"]
            calls = [e for e in ev if e[0] == "call" and e[1]["callee"] not in ("free",)]
            if rhs and not calls:
                ps = [self.prov(f, r, depth + 1) for r in rhs if r[0] != "null"]
                if ps and all(p["kind"] == "tempTemplate" for p in ps):
                    return {"kind": "tempName"}
            return {"kind": "other", "why": "*%s in %s" % (t[1][1], f["name"])}
        if k == "member":
            if t[1] == "dirname":
                return {"kind": "modDir"}
            if t[1] == "instrument_path":
                return {"kind": "insPath"}
            return {"kind": "other", "why": "member " + str(t[1])}
        if k == "call":
            name, args = t[1], t[2]
            if name in ("libxmp_strdup", "strdup") and args:
                return self.prov(f, args[0], depth + 1)
            if name == "getenv" and args and args[0][0] == "lit":
                return {"kind": "insPath", "env": args[0][1]} if "INSTRUMENT" in args[0][1] else {"kind": "env", "name": args[0][1]}
            cands = [g for g in self.by_name.get(name, []) if g["static"] and g["file"] == f["file"]] or self.by_name.get(name, [])
            if len(cands) == 1 and cands[0]["returns"]:
                g = cands[0]
                ps = [self.prov(g, r, depth + 1) for r in g["returns"] if r[0] != "null"]
                if ps:
                    return self.merge(ps)
            return {"kind": "other", "why": "result of %s()" % name}
        if k == "var":
            return self.prov_var(f, t[1], depth)
        if k == "cond":
            return self.merge([self.prov(f, t[1], depth + 1), self.prov(f, t[2], depth + 1)])
        return {"kind": "other", "why": "expression " + json.dumps(t)[:60]}

    @staticmethod
    def merge(ps):
        """several possible values of one path expression: equal classes merge; the literal "." (current
        directory) is a legitimate stand-in for an empty configured directory"""
        real = [p for p in ps if not (p["kind"] == "literal" and p.get("s") == ".")]
        if not real:
            return ps[0]
        kinds = {p["kind"] for p in real}
        if len(kinds) == 1 and real[0]["kind"] in ("insPath", "modDir", "apiParam", "wrapperParam", "tempName"):
            return real[0]
        if len(real) == 1 and len(ps) == 1:
            return real[0]
        return {"kind": "other", "why": "one of " + ",".join(sorted(p["kind"] for p in ps))}

    def prov_var(self, f, v, depth):
        if v not in f["locals"]:
            return {"kind": "other", "why": "global variable " + v}
        al = self.aliases_of(f, v)
        ev = self.writers(f, v, al)
        if not ev:
            return {"kind": "other", "why": "local %s never written" % v}
        calls = [e for e in ev if e[0] == "call"]
        assigns = [e for e in ev if e[0] == "assign"]
        elems = [e for e in ev if e[0] == "assign_elem"]
        callees = sorted({e[1]["callee"] or "?" for e in calls})

        # argv array: cmd[i++] = "literal" | NULL | <path parameter>
        if elems and not calls and not assigns:
            lits, others = [], []
            for e in elems:
                r = e[1]
                if r[0] == "lit":
                    lits.append(r[1])
                elif r[0] == "null":
                    lits.append(None)
                else:
                    p = self.prov(f, r, depth + 1)
                    lits.append("<path>")
                    if p["kind"] not in ("apiParam", "wrapperParam"):
                        others.append(p)
            return {"kind": "helperArgv", "items": lits, "clean": not others,
                    "pathParam": next((e[1][1] for e in elems if e[1][0] == "param"), None)}

        # plain pointer local assigned from something classifiable (ins_path = libxmp_get_instrument_path(m))
        if assigns and not calls and not elems:
            ps = [self.prov(f, e[1], depth + 1) for e in assigns if e[1][0] != "null"]
            if ps:
                return self.merge(ps)
            return {"kind": "null"}

        # temp-name out-parameter:  make_temp_file(&temp_name) / libxmp_decrunch(h, path, &temp)
        if calls and all(e[1]["callee"] in self.tempout and e[2] in self.tempout[e[1]["callee"]] for e in calls) \
                and all(e[1][0] == "null" for e in assigns) and not elems:
            return {"kind": "tempName"}

        if assigns or elems:
            return {"kind": "other", "why": "local %s: mixed writes (%s)" % (v, ",".join(callees))}

        # output of libxmp_find_instrument_file
        if callees == ["libxmp_find_instrument_file"]:
            c = calls[0][1]
            if len(calls) != 1 or calls[0][2] != 1:
                return {"kind": "other", "why": "find_instrument_file used unexpectedly"}
            find_checked = bool(c["guard"]) and c["guard"][0] == "==0" and c["guard"][1] and "&&" not in c["guard"][2]
            size_ok = (c["args"][2][0] == "sizeof" and c["args"][2][1] == ["var", v])
            name_arg = c["args"][3]
            res = {"kind": "found", "findChecked": find_checked and size_ok, "copyChecked": False, "n": 0, "buf": 0}
            if name_arg[0] == "var" and name_arg[1] in f["locals"]:
                nev = self.writers(f, name_arg[1])
                ncalls = [e for e in nev if e[0] == "call"]
                if len(nev) == 1 and len(ncalls) == 1 and ncalls[0][1]["callee"] == "libxmp_copy_name_for_fopen" \
                        and ncalls[0][2] == 0:
                    cc = ncalls[0][1]
                    g = cc["guard"]
                    res["copyChecked"] = bool(g) and g[0] in ("!=0", "<0") and g[1] and "&&" not in g[2] \
                        and cc["line"] <= c["line"]
                    res["n"] = cc["args"][2][1] if cc["args"][2][0] == "int" else 0
                    res["buf"] = f["locals"][name_arg[1]]["size"] or 0
                    return res
            return {"kind": "other", "why": "find_instrument_file name argument is not a sanitised local"}

        # snprintf(V, N, "%s%s<suffix>", m->dirname, m->basename) [+ strcpy(strrchr(V,..), ".set")]
        if set(callees) <= {"snprintf", "strcpy"} and "snprintf" in callees:
            sfx, ok, lines = [], True, []
            for e in calls:
                c = e[1]
                if c["callee"] == "snprintf":
                    a = c["args"]
                    size_ok = a[1][0] == "int" and (f["locals"][v]["size"] or 0) >= a[1][1] or \
                        (a[1][0] == "sizeof" and a[1][1] == ["var", v]) or \
                        (a[1][0] == "other")      # a macro constant folded into an expression
                    if e[2] != 0 or len(a) != 5 or a[2][0] != "lit" or not a[2][1].startswith("%s%s") or "%" in a[2][1][4:] \
                            or a[3][:2] != ["member", "dirname"] or a[4][:2] != ["member", "basename"] or not size_ok:
                        ok = False
                    else:
                        sfx.append(a[2][1][4:])
                        lines.append(c["line"])
                else:                      # strcpy through an alias obtained by strrchr(V, c)
                    a = c["args"]
                    if a[0][0] == "var" and a[0][1] in al and a[1][0] == "lit":
                        sfx.append("~" + a[1][1])
                        lines.append(c["line"])
                    else:
                        ok = False
            if not ok:
                return {"kind": "other", "why": "local %s: unrecognised snprintf/strcpy shape" % v}
            guard = all(self.null_guarded(f, m, ln) for m in ("dirname", "basename") for ln in lines)
            bufsize = f["locals"][v]["size"] or 0
            fits = all(any(b is not None and b <= ln <= e for (b, e) in f["lenchecks"]) for ln in lines)
            return {"kind": "dirBase", "suffixes": sfx, "nullGuard": guard, "buf": bufsize, "lenGuard": fits}

        # mkstemp template: get_temp_dir(tmp, ..) + strncat(tmp, "xmp_XXXXXX", ..)
        if "strncat" in callees and all(e[1]["callee"] == "strncat" or e[2] == 0 for e in calls):
            cats = [e[1] for e in calls if e[1]["callee"] == "strncat"]
            rest = [e[1]["callee"] for e in calls if e[1]["callee"] != "strncat"]
            if all(c["args"][1][0] == "lit" and re.fullmatch(r"[A-Za-z_]+XXXXXX", c["args"][1][1]) for c in cats) \
                    and all(re.fullmatch(r"get_temp_dir", r or "") for r in rest):
                return {"kind": "tempTemplate"}
        return {"kind": "other", "why": "local %s written by %s" % (v, ",".join(callees))}

    @staticmethod
    def null_guarded(f, member, line):
        for t in f["nulltests"]:
            if t["member"] != member:
                continue
            b, e = t["then"]
            if t["test"] == "!=0" and "||" not in t["ops"] and b is not None and b <= line <= e:
                return True
            if t["test"] == "==0" and "&&" not in t["ops"] and t["exits"] and t["line"] < line:
                return True
        return False

    # internal functions through which a path buffer travels although they are not OS sinks themselves
    PATH_HELPERS = {"libxmp_find_instrument_file": (1, 3), "libxmp_copy_name_for_fopen": (0,),
                    "libxmp_check_filename_case": (0, 1, 2), "get_temp_dir": (0,)}

    def path_buffers(self, globs):
        """every character buffer / string pointer *variable* that is handed, as a path, to an OS sink, to a function
        forwarding to one, or to the sanitiser / lookup functions, with its storage class"""
        rows = set()
        for f in self.fns.values():
            for c in f["calls"]:
                cal = c["callee"]
                idxs = set(self.tracked.get(cal, {})) | set(self.PATH_HELPERS.get(cal, ()))
                if cal in self.tempout:
                    idxs |= set(self.tempout[cal])
                for i in idxs:
                    if i >= len(c["args"]):
                        continue
                    t = c["args"][i]
                    while t[0] in ("addr", "index", "deref") and isinstance(t[1], list):
                        t = t[1]
                    if t[0] != "var":
                        continue
                    v = t[1]
                    if v in f["locals"]:
                        ty, st = f["locals"][v]["type"], f["locals"][v]["storage"]
                        st = "auto" if st in ("auto", "register") else ("staticLocal" if st == "static" else st)
                    else:
                        g = globs.get(v, {})
                        ty, st = g.get("type", "?"), "global"
                    if "char" not in ty:
                        continue
                    rows.add((f["file"], f["name"], v, ty, st))
        return sorted(rows)

    PATH_FIELDS = ("dirname", "basename", "instrument_path")

    def field_writes(self):
        """every assignment to m->dirname / m->basename / m->instrument_path in the program"""
        rows = set()
        for f in self.fns.values():
            for a in f["assigns"]:
                l = a["lhs"]
                if l[0] == "member" and l[1] in self.PATH_FIELDS:
                    r = a["rhs"]
                    if r[0] == "null":
                        w = ".null"
                    elif r[0] == "call" and r[2] and len(r[2]) == 1 and self.prov(f, r[2][0])["kind"] == "apiParam":
                        w = ".ofApiParam " + lean_str(r[1] or "?")
                    else:
                        w = ".other " + lean_str(json.dumps(r)[:60])
                    rows.add((f["file"], f["name"], l[1], w))
                elif l[0] == "index" and l[1][0] == "member" and l[1][1] in self.PATH_FIELDS:
                    r = a["rhs"]
                    w = ".patchChar %d" % r[1] if r[0] == "char" else ".other " + lean_str(json.dumps(r)[:60])
                    rows.add((f["file"], f["name"], l[1][1], w))
        return sorted(rows)

    # -- fixpoint over wrappers and temp out-parameters -------------------------
    def run(self):
        # temp-name out-parameters
        changed = True
        while changed:
            changed = False
            for f in self.fns.values():
                for i, p in enumerate(f["params"]):
                    if i in self.tempout.get(f["name"], ()):
                        continue
                    derefs = [a for a in f["assigns"] if a["lhs"] == ["deref", ["param", p]]]
                    passes = [(c, j) for c in f["calls"] for j, t in enumerate(c["args"]) if t == ["param", p]]
                    if not derefs and not passes:
                        continue
                    ok = True
                    strong = False
                    for a in derefs:
                        if a["rhs"][0] == "null":
                            continue
                        if self.prov(f, a["rhs"])["kind"] == "tempTemplate":
                            strong = True
                        else:
                            ok = False
                    for c, j in passes:
                        if j in self.tempout.get(c["callee"], ()):
                            strong = True
                        else:
                            ok = False
                    if ok and strong:
                        self.tempout.setdefault(f["name"], set()).add(i)
                        changed = True
        sites = {}
        changed = True
        rounds = 0
        while changed and rounds < 12:
            changed = False
            rounds += 1
            for f in self.fns.values():
                for c in f["calls"]:
                    cal = c["callee"]
                    if cal not in self.tracked:
                        continue
                    argidx = sorted(self.tracked[cal]) or [None]
                    for ai in argidx:
                        key = (f["file"], f["name"], cal, ai if ai is not None else 0, c["line"])
                        if ai is None:
                            p = {"kind": "noPath"}
                            sinks = {cal}
                        else:
                            if ai >= len(c["args"]):
                                continue
                            p = self.prov(f, c["args"][ai])
                            sinks = self.tracked[cal][ai]
                            if p["kind"] == "helperArgv":
                                p = dict(p)
                                p["clean"] = p["clean"] and p.get("pathParam") is not None \
                                    and self.null_guarded(f, p["pathParam"], c["line"])
                        if p["kind"] == "wrapperParam":
                            cur = self.tracked.setdefault(f["name"], {}).setdefault(p["idx"], set())
                            if not sinks <= cur:
                                cur |= sinks
                                changed = True
                        if p["kind"] == "helperArgv" and p.get("pathParam") in f["params"]:
                            cur = self.tracked.setdefault(f["name"], {}).setdefault(f["params"].index(p["pathParam"]), set())
                            if not sinks <= cur:
                                cur |= sinks
                                changed = True
                        if sites.get(key) != p:
                            sites[key] = p
        return sites


def lean_str(s):
    return '"' + s.replace("\\", "\\\\").replace('"', '\\"').replace("\n", "\\n").replace("\t", "\\t") + '"'


def lean_prov(p):
    k = p["kind"]
    b = lambda x: "true" if x else "false"
    if k in ("apiParam", "wrapperParam", "modDir", "insPath", "tempName", "null", "noPath"):
        return "." + k
    if k == "found":
        return ".found %s %s %d %d" % (b(p["copyChecked"]), b(p["findChecked"]), p["n"], p["buf"])
    if k == "dirBase":
        return ".dirBase [%s] %s %d %s" % (", ".join(lean_str(s) for s in p["suffixes"]), b(p["nullGuard"]), p["buf"], b(p["lenGuard"]))
    if k == "helperArgv":
        items = ", ".join("none" if s is None else "some " + lean_str(s) for s in p["items"])
        return ".helperArgv [%s] %s" % (items, b(p["clean"]))
    if k == "literal":
        return ".literal " + lean_str(p["s"])
    if k == "tempTemplate":
        return ".other \"unexpanded temp template\""
    return ".other " + lean_str(p.get("why", k))


HEADER = '''/-! GENERATED by tools/gen_open_sites.py from the compiled sources of /repo — do not edit.
Every call in the compiled libxmp sources that hands a path to the operating
system or starts a process, with the provenance class of that argument, plus
the internal functions that forward a path parameter to such a call (they are
callees themselves) and the libc sinks each of them reaches. -/
namespace Xmp.Gen.OpenSites

inductive Prov where
  | apiParam                                   -- parameter of an exported xmp_* function
  | wrapperParam                               -- parameter of an internal function (whose call sites are listed too)
  | found (copyChecked findChecked : Bool) (n buf : Nat)
                                               -- output of libxmp_find_instrument_file(…, name) where `name` (char[buf]) is
                                               -- written only by libxmp_copy_name_for_fopen(name, …, n); flags: both results tested
  | dirBase (suffixes : List String) (nullGuard : Bool) (buf : Nat) (lenGuard : Bool)
                                               -- snprintf("%s%s<suffix>", m->dirname, m->basename) into char[buf]; "~x": tail after
                                               -- the last occurrence of a character replaced by literal x; flags: both tested for
                                               -- NULL first / strlen of them tested first (no silent truncation)
  | modDir                                     -- m->dirname
  | insPath                                    -- m->instrument_path or getenv("XMP_INSTRUMENT_PATH")
  | tempName                                   -- name made by mkstemp from get_temp_dir() ++ "xmp_XXXXXX"
  | helperArgv (items : List (Option String)) (clean : Bool)
                                               -- argv array: literals, NULL (none) and "<path>" = a path parameter
  | literal (s : String)
  | null
  | noPath                                     -- the call takes no path (fork)
  | other (why : String)
  deriving Repr, DecidableEq

/-- what is stored into the path-carrying fields of `struct module_data` -/
inductive FieldWrite where
  | null
  | ofApiParam (via : String)                  -- f(path) with `path` a parameter of an exported xmp_* function
  | patchChar (c : Nat)                        -- one character of the string overwritten by a character literal
  | other (why : String)
  deriving Repr, DecidableEq

/-- storage class of a path buffer variable -/
inductive Storage where
  | auto            -- automatic (stack) variable of the function; a pointer held there may point to the heap
  | staticLocal     -- `static` inside a function: one instance for the whole process
  | global          -- file scope
  deriving Repr, DecidableEq

structure Site where
  file : String
  func : String
  callee : String
  arg : Nat
  prov : Prov
  deriving Repr, DecidableEq

'''


def generate(bdir=None, repo=None):
    repo = repo or vlib.REPO
    bdir = bdir or vlib.build_repo("asan")
    units = compile_units(bdir)
    with ProcessPoolExecutor(max_workers=vlib.NCPU) as ex:
        res = list(ex.map(analyse_unit, [(f, fl, repo) for f, fl in units], chunksize=4))
    fns, globs = [], {}
    for r in res:
        if "error" in r:
            raise vlib.InfraError("clang AST dump failed: " + r["error"])
        fns += r["functions"]
        for g in r["globals"]:
            globs.setdefault(g["name"], g)
    an = Analysis(fns)
    sites = an.run()
    # one entry per (file, function, callee, arg, provenance); line numbers are dropped on purpose
    rows = sorted({(k[0], k[1], k[2], k[3], lean_prov(p)) for k, p in sites.items()})
    libc = set(PATH_SINKS) | NOPATH_SINKS
    wrappers = sorted((n, i, sorted(s)) for n, d in an.tracked.items() if n not in libc for i, s in d.items())
    out = [HEADER]
    out.append("def sites : List Site := [\n" + ",\n".join(
        "  ⟨%s, %s, %s, %d, %s⟩" % (lean_str(a), lean_str(b), lean_str(c), d, e) for a, b, c, d, e in rows) + "]\n")
    out.append("/-- internal functions forwarding parameter `arg` to the listed libc sinks -/")
    out.append("def wrappers : List (String × Nat × List String) := [\n" + ",\n".join(
        "  (%s, %d, [%s])" % (lean_str(n), i, ", ".join(lean_str(x) for x in s)) for n, i, s in wrappers) + "]\n")
    out.append("/-- functions that return the name of a temporary file through parameter `arg` -/")
    out.append("def tempOutParams : List (String × Nat) := [%s]\n" % ", ".join(
        "(%s, %d)" % (lean_str(n), i) for n, s in sorted(an.tempout.items()) for i in sorted(s)))
    pb = an.path_buffers(globs)
    out.append("/-- every character buffer / string variable handed as a path to an OS call, to a function forwarding to one, or to the")
    out.append("sanitiser / lookup functions: (file, function, variable, C type, storage class).  A buffer with static storage would be")
    out.append("shared by all contexts and threads. -/")
    out.append("def pathBuffers : List (String × String × String × String × Storage) := [\n" + ",\n".join(
        "  (%s, %s, %s, %s, .%s)" % (lean_str(a), lean_str(b), lean_str(c), lean_str(d), e if e in ("auto", "staticLocal", "global") else "global")
        for a, b, c, d, e in pb) + "]\n")
    fw = an.field_writes()
    out.append("/-- every assignment to `dirname`, `basename`, `instrument_path` of `struct module_data`: (file, function, field, value) -/")
    out.append("def fieldWrites : List (String × String × String × FieldWrite) := [\n" + ",\n".join(
        "  (%s, %s, %s, %s)" % (lean_str(a), lean_str(b), lean_str(c), d) for a, b, c, d in fw) + "]\n")
    src = open(os.path.join(repo, "src", "depackers", "depacker.c")).read()
    mh = re.search(r"headersize\s*<\s*(\d+)\s*\)", src)
    out.append("/-- `if (headersize < N) return 0;` in libxmp_decrunch: files shorter than N bytes are never unpacked (0 = not found) -/")
    out.append("def decrunchMinHeader : Nat := %d\n" % (int(mh.group(1)) if mh else 0))
    flt = [p for k, p in sites.items() if k[1] == "flt_load" and p["kind"] == "dirBase"]
    out.append("/-- does flt_load test the length of dirname/basename before it formats the companion name into its buffer? -/")
    out.append("def fltLengthChecked : Bool := %s" % ("true" if flt and all(p["lenGuard"] for p in flt) else "false"))
    out.append("def fltBufSize : Nat := %d" % (flt[0]["buf"] if flt else 1024))
    mfp = [p for k, p in sites.items() if k[1] == "mfp_load" and p["kind"] == "dirBase"]
    out.append("/-- size of mfp_load's smp_filename buffer (XMP_MAXPATH) -/")
    out.append("def mfpBufSize : Nat := %d\n" % (mfp[0]["buf"] if mfp and mfp[0]["buf"] else 4096))
    out.append("/-- number of translation units and function bodies examined -/")
    out.append("def unitsExamined : Nat := %d" % len(units))
    out.append("def functionsExamined : Nat := %d\n" % len(an.fns))
    out.append("end Xmp.Gen.OpenSites\n")
    text = "\n".join(out)
    changed = vlib.write_if_changed(os.path.join(vlib.LEAN, "XmpModel", "Gen", "OpenSites.lean"), text)
    return {"sites": rows, "wrappers": wrappers, "units": len(units), "functions": len(an.fns), "changed": changed, "field_writes": fw, "path_buffers": pb, "min_header": int(mh.group(1)) if mh else 0,
            "tempout": {k: sorted(v) for k, v in an.tempout.items()}}


if __name__ == "__main__":
    import time
    t0 = time.time()
    r = generate()
    for row in r["sites"]:
        print(row)
    print("wrappers", r["wrappers"])
    print("tempout", r["tempout"])
    print("%d units, %d functions, %.1fs" % (r["units"], r["functions"], time.time() - t0))
