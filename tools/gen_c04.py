#!/usr/bin/env python3
"""Translator for C04: extracts the unwinding structure (which label every failing acquisition
jumps to, what every label block releases) of xmp_start_player (src/player.c) and make_temp_file
(src/tempfile.c) from /repo's working tree into lean/XmpModel/Gen/StartCfg.lean.

The Lean model `Xmp.Resource.startPlayer` / `makeTempFile` is parametrised by this table; the
theorems `C04_start_atomic` / `C04_tempfile` hold for every table satisfying the decidable
predicate `Sound`; the check evaluates `Sound` on the generated table on every run (drv_c04).
Anything the patterns below do not recognise inside a label block is emitted as "unknown:<text>",
which makes the table unsound (conservative)."""
import os
import re
import sys

sys.path.insert(0, os.path.dirname(os.path.abspath(__file__)))
import vlib  # noqa: E402


def function_body(src, header_re):
    m = re.search(header_re, src, re.M)
    if not m:
        raise vlib.InfraError("gen_c04: function not found: " + header_re)
    i = src.index("{", m.end() - 1)
    j = src.index("\n}\n", i)
    body = src[i:j]
    # drop preprocessor lines and comments (full, non-core build is what the harness links)
    body = re.sub(r"/\*.*?\*/", " ", body, flags=re.S)
    body = "\n".join(l for l in body.split("\n") if not l.lstrip().startswith("#"))
    return body


def failure_branch(body, pos):
    """first `goto L;` or `return E;` after pos; whether `ret = -...` is assigned in between"""
    m = re.compile(r"\bgoto\s+(\w+)\s*;|\breturn\s+([^;]+);").search(body, pos)
    if not m:
        raise vlib.InfraError("gen_c04: no failure branch found")
    between = body[pos:m.start()]
    ret_set = re.search(r"\bret\s*=\s*-", between) is not None
    if m.group(1):
        return m.group(1), ret_set
    return "", m.group(2).strip().startswith("-")


def split_labels(body, actions):
    out = []
    ms = list(re.finditer(r"^\s*(\w+):\s*$", body, re.M))
    for k, m in enumerate(ms):
        end = ms[k + 1].start() if k + 1 < len(ms) else len(body)
        block = body[m.end():end]
        acts = []
        # statement by statement, in order
        for st in re.split(r";", block):
            st = " ".join(st.split()).lstrip("{} ").rstrip("{} ")
            if not st or st.startswith("return"):
                continue
            hit = None
            for name, pat in actions:
                if re.search(pat, st):
                    hit = name
                    break
            if hit:
                if hit != "-":
                    acts.append(hit)
            else:
                acts.append("unknown:" + re.sub(r'[^A-Za-z0-9_>().*=, -]', "", st)[:40])
        ret_set = re.search(r"\bret\s*=\s*-", block) is not None
        out.append((m.group(1), acts, ret_set))
    return out


START_SITES = [("mixer_on", r"libxmp_mixer_on\s*\("), ("virt_on", r"libxmp_virt_on\s*\("),
               ("flow_loop", r"f->loop\s*=[^;]*alloc"), ("xc_data", r"p->xc_data\s*=[^;]*alloc"),
               ("channel_extras", r"libxmp_new_channel_extras\s*\(")]
START_ACTIONS = [("channel_extras", r"libxmp_release_channel_extras\s*\("), ("xc_data", r"^free\(p->xc_data\)$"),
                 ("flow_loop", r"^free\(f->loop\)$"), ("virt_off", r"^libxmp_virt_off\(ctx\)$"),
                 ("mixer_off", r"^libxmp_mixer_off\(ctx\)$"),
                 ("-", r"^ret = -"), ("-", r"^p->xc_data = NULL$"), ("-", r"^f->loop = NULL$"),
                 ("-", r"^for \(i = 0$"), ("-", r"^i < p->virt\.virt_channels$"), ("-", r"^i\+\+\)")]
TEMP_SITES = [("strdup", r"libxmp_strdup\s*\("), ("mkstemp", r"\bmkstemp\s*\("), ("fdopen", r"\bfdopen\s*\(")]
TEMP_ACTIONS = [("close_fd", r"^close\(fd\)$"), ("unlink_name", r"^unlink\(\*filename\)$"),
                ("free_name", r"^free\(\*filename\)$"), ("null_name", r"^\*filename = NULL$")]


def lean_str(s):
    return '"' + s.replace("\\", "\\\\").replace('"', '\\"') + '"'


def lean_bool(b):
    return "true" if b else "false"


def generate():
    player = open(os.path.join(vlib.REPO, "src", "player.c")).read()
    body = function_body(player, r"^int xmp_start_player\s*\(")
    sites = []
    for name, pat in START_SITES:
        m = re.search(pat, body)
        if not m:
            raise vlib.InfraError("gen_c04: acquisition %s not found in xmp_start_player" % name)
        label, ret_neg = failure_branch(body, m.end())
        sites.append((name, label, ret_neg, m.start()))
    sites.sort(key=lambda s: s[3])
    # label blocks live after the success return
    tail = body[body.index("return 0;"):] if "return 0;" in body else body
    labels = split_labels(tail, START_ACTIONS)
    # the for-loop that releases the channel extras ends with "}" glued to the next statement
    labels = [(l, [a for a in acts if a not in ("unknown:}",)], r) for l, acts, r in labels]

    temp = open(os.path.join(vlib.REPO, "src", "tempfile.c")).read()
    tbody = function_body(temp, r"^FILE \*make_temp_file\s*\(")
    tsites = []
    for name, pat in TEMP_SITES:
        m = re.search(pat, tbody)
        if not m:
            raise vlib.InfraError("gen_c04: %s not found in make_temp_file" % name)
        label, _ = failure_branch(tbody, m.end())
        tsites.append((name, label, m.start()))
    tsites.sort(key=lambda s: s[2])
    ttail = tbody[tbody.index("return temp;"):] if "return temp;" in tbody else tbody
    tlabels = split_labels(ttail, TEMP_ACTIONS)

    # libxmp_virt_on: which of the counts it sets before allocating are zeroed again by the block that every
    # failure path ends in (the last label block, reached by fall-through)
    virt = open(os.path.join(vlib.REPO, "src", "virtual.c")).read()
    vbody = function_body(virt, r"^int libxmp_virt_on\s*\(")
    vtail = vbody[vbody.rindex("return 0;"):] if "return 0;" in vbody else ""
    vlabels = list(re.finditer(r"^\s*(\w+):\s*$", vtail, re.M))
    vzero = []
    if vlabels:
        last = vtail[vlabels[-1].end():]
        for st in last.split(";"):
            st = " ".join(st.split())
            if re.search(r"=\s*0$", st):
                vzero += re.findall(r"p->virt\.(\w+)\s*=", st)
    vzero = sorted(set(vzero))

    # xmp_smix_load_sample: does the commit release what the slot held before?
    smix = open(os.path.join(vlib.REPO, "src", "smix.c")).read()
    sbody = function_body(smix, r"^int xmp_smix_load_sample\s*\(")
    smix_rel = re.search(r"\bxmp_smix_release_sample\s*\(\s*opaque\s*,\s*num\s*\)", sbody) is not None
    # ... and is the slot written only after the last failure branch (no `xxi->`/`xxs->` assignment before it)?
    last_goto = max([m.end() for m in re.finditer(r"\bgoto\s+\w+\s*;", sbody)] or [0])
    smix_early = sorted(set(re.findall(r"\b(xx[is]->\w+)\s*(?:\[[^\]]*\]\s*\.\s*\w+\s*)?[+-]?=[^=]", sbody[:last_goto])))

    # hio_reopen_mem / hio_reopen_file: do they bail out when closing the old stream reports an error?
    hio = open(os.path.join(vlib.REPO, "src", "hio.c")).read()
    reopen_bails = []
    for fn in ("hio_reopen_mem", "hio_reopen_file"):
        b = function_body(hio, r"^int %s\s*\(" % fn)
        m = re.search(r"(\w+)\s*=\s*hio_close_internal\s*\(\s*h\s*\)\s*;\s*if\s*\(\s*\1\s*<\s*0\s*\)", b)
        if m or not re.search(r"hio_close_internal\s*\(\s*h\s*\)", b):
            reopen_bails.append(fn)

    txt = ["/-! GENERATED by tools/gen_c04.py from /repo/src/player.c (xmp_start_player) and /repo/src/tempfile.c",
           "(make_temp_file) - do not edit.  Regenerated on every run of the C04 check.",
           "",
           "`startSites`: the acquisitions of xmp_start_player in source order with the label their failure",
           "branch jumps to (\"\" = plain `return`) and whether `ret` holds a negative value at that jump.",
           "`startLabels`: the unwinding label blocks in source order (control falls through downwards) with",
           "the release actions each block performs and whether the block assigns a negative `ret`. -/",
           "namespace Xmp.Gen.StartCfg", "",
           "def startSites : List (String × String × Bool) :=",
           "  [" + ", ".join("(%s, %s, %s)" % (lean_str(n), lean_str(l), lean_bool(r)) for n, l, r, _ in sites) + "]", "",
           "def startLabels : List (String × List String × Bool) :=",
           "  [" + ", ".join("(%s, [%s], %s)" % (lean_str(l), ", ".join(lean_str(a) for a in acts), lean_bool(r))
                             for l, acts, r in labels) + "]", "",
           "/-- make_temp_file: acquisitions in order with the label of their failure branch -/",
           "def tempSites : List (String × String) :=",
           "  [" + ", ".join("(%s, %s)" % (lean_str(n), lean_str(l)) for n, l, _ in tsites) + "]", "",
           "/-- make_temp_file label blocks (fall through downwards) -/",
           "def tempLabels : List (String × List String) :=",
           "  [" + ", ".join("(%s, [%s])" % (lean_str(l), ", ".join(lean_str(a) for a in acts)) for l, acts, _ in tlabels) + "]",
           "",
           "/-- members of `p->virt` that the block every failure path of libxmp_virt_on ends in sets to 0 -/",
           "def virtOnFailZeroes : List String :=",
           "  [" + ", ".join(lean_str(z) for z in vzero) + "]",
           "",
           "/-- xmp_smix_load_sample releases the previous contents of the slot before it stores the new ones -/",
           "def smixLoadReleasesOld : Bool := " + lean_bool(smix_rel),
           "",
           "/-- members of the slot (`xxi->…`, `xxs->…`) that xmp_smix_load_sample assigns before its last failure branch -/",
           "def smixLoadEarlyWrites : List String :=",
           "  [" + ", ".join(lean_str(z) for z in smix_early) + "]",
           "",
           "/-- hio_reopen_mem and hio_reopen_file switch the handle to the new stream whatever closing the old one reported -/",
           "def reopenIgnoresCloseResult : Bool := " + lean_bool(not reopen_bails),
           "", "end Xmp.Gen.StartCfg", ""]
    path = os.path.join(vlib.LEAN, "XmpModel", "Gen", "StartCfg.lean")
    changed = vlib.write_if_changed(path, "\n".join(txt))
    return {"changed": changed, "startSites": [(n, l, r) for n, l, r, _ in sites], "startLabels": labels,
            "tempSites": [(n, l) for n, l, _ in tsites], "tempLabels": [(l, a) for l, a, _ in tlabels],
            "virtOnFailZeroes": vzero, "smixLoadReleasesOld": smix_rel, "smixLoadEarlyWrites": smix_early,
            "reopenBailsOnCloseFailure": reopen_bails}


if __name__ == "__main__":
    import json
    print(json.dumps(generate(), indent=1))
