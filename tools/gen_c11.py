#!/usr/bin/env python3
"""Translator for the TestLoad model (C11): regenerates
lean/XmpModel/Gen/TestLoadConsts.lean from /repo's working tree.

* XMP_NAME_SIZE, XMP_ERROR_*                     : `gcc -E -dM` on include/xmp.h
* the values libxmp_prepare_scan can return       : regex on its `return` statements (load_helpers.c)
* the format_loaders[] table (order, loader names): regex on src/format.c + the `const struct format_loader`
                                                    initialisers in src/loaders/*.c
* the ProWizard format names                      : pw_formats[] in prowizard/prowiz.c + `const struct pw_format`
* size of the local title buffer of pw_check and of the memcpy into info->name
* whether pw_check initialises that buffer before the detectors run (F15)
"""
import glob
import os
import re
import sys

sys.path.insert(0, os.path.dirname(os.path.abspath(__file__)))
import vlib  # noqa: E402

OUT = os.path.join(vlib.LEAN, "XmpModel", "Gen", "TestLoadConsts.lean")
MACROS = ["XMP_NAME_SIZE", "XMP_ERROR_FORMAT", "XMP_ERROR_LOAD", "XMP_ERROR_DEPACK", "XMP_ERROR_SYSTEM",
          "XMP_ERROR_INVALID"]


def strip_c_comments(t):
    return re.sub(r"/\*.*?\*/", " ", t, flags=re.S)


def macros():
    rc, out = vlib.sh(["gcc", "-E", "-dM", "-I" + os.path.join(vlib.REPO, "include"), "-x", "c", "-"],
                      input=b'#include "xmp.h"\n')
    if rc != 0:
        raise vlib.InfraError("gcc -E -dM on xmp.h failed:\n" + out[-2000:])
    vals = {}
    for m in re.finditer(r"^#define (\w+) (.+)$", out, re.M):
        vals[m.group(1)] = m.group(2).strip()
    res = {}
    for n in MACROS:
        if n not in vals or not re.fullmatch(r"[0-9a-fA-FxX() ]+", vals[n]):
            raise vlib.InfraError("macro %s missing or unexpected in xmp.h" % n)
        res[n] = int(eval(vals[n], {"__builtins__": {}}))
    return res


def function_body(text, name):
    m = re.search(r"^[\w \*]*\b%s\s*\([^;{]*\)\s*\{" % re.escape(name), text, re.M)
    if not m:
        raise vlib.InfraError("function %s not found" % name)
    i = m.end()
    depth = 1
    while i < len(text) and depth:
        depth += (text[i] == "{") - (text[i] == "}")
        i += 1
    return text[m.start():i]


def lean_str_list(xs):
    return "[" + ", ".join('"%s"' % x.replace("\\", "\\\\").replace('"', '\\"') for x in xs) + "]"


def generate():
    mac = macros()
    src = os.path.join(vlib.REPO, "src")
    # --- libxmp_prepare_scan return values
    lh = strip_c_comments(open(os.path.join(src, "load_helpers.c")).read())
    body = function_body(lh, "libxmp_prepare_scan")
    rets = []
    for m in re.finditer(r"\breturn\s+([^;]+);", body):
        e = m.group(1).strip()
        mm = re.fullmatch(r"(-?)\s*(XMP_ERROR_\w+|\d+)", e)
        if not mm:
            raise vlib.InfraError("libxmp_prepare_scan: cannot evaluate `return %s`" % e)
        v = mac.get(mm.group(2)) if mm.group(2) in mac else (int(mm.group(2)) if mm.group(2).isdigit() else None)
        if v is None:
            raise vlib.InfraError("libxmp_prepare_scan: unknown macro in `return %s`" % e)
        v = -v if mm.group(1) else v
        if v not in rets:
            rets.append(v)
    # --- format_loaders[]
    fc = strip_c_comments(open(os.path.join(src, "format.c")).read())
    m = re.search(r"format_loaders\s*\[[^\]]*\]\s*=\s*\{(.*?)\};", fc, re.S)
    if not m:
        raise vlib.InfraError("format_loaders[] not found in format.c")
    syms = re.findall(r"&\s*(libxmp_loader_\w+)", m.group(1))
    names = {}
    for p in sorted(glob.glob(os.path.join(src, "loaders", "*.c"))):
        t = strip_c_comments(open(p, errors="replace").read())
        # full (non-core) build: keep the #else branch of `#ifdef LIBXMP_CORE_PLAYER`
        t = re.sub(r"#\s*ifdef\s+LIBXMP_CORE_PLAYER\b.*?#\s*else(.*?)#\s*endif", r"\1", t, flags=re.S)
        for mm in re.finditer(r"const\s+struct\s+format_loader\s+(libxmp_loader_\w+)\s*=\s*\{\s*\"((?:[^\"\\]|\\.)*)\"", t):
            names[mm.group(1)] = mm.group(2)
    missing = [s for s in syms if s not in names]
    if missing:
        raise vlib.InfraError("loader initialisers not found for %s" % missing)
    # --- ProWizard
    pc = strip_c_comments(open(os.path.join(src, "loaders", "prowizard", "prowiz.c")).read())
    m = re.search(r"pw_formats\s*\[[^\]]*\]\s*=\s*\{(.*?)\};", pc, re.S)
    if not m:
        raise vlib.InfraError("pw_formats[] not found")
    pwsyms = re.findall(r"&\s*(pw_\w+)", m.group(1))
    pwnames = {}
    pwuntitled = set()     # detectors whose source file never calls pw_read_title: they leave `title` untouched
    for p in sorted(glob.glob(os.path.join(src, "loaders", "prowizard", "*.c"))):
        t = strip_c_comments(open(p, errors="replace").read())
        for mm in re.finditer(r"const\s+struct\s+pw_format\s+(pw_\w+)\s*=\s*\{\s*\"((?:[^\"\\]|\\.)*)\"", t):
            pwnames[mm.group(1)] = mm.group(2)
            if not re.search(r"\bpw_read_title\s*\(", t):
                pwuntitled.add(mm.group(1))
    missing = [s for s in pwsyms if s not in pwnames]
    if missing:
        raise vlib.InfraError("pw_format initialisers not found for %s" % missing)
    chk = function_body(pc, "pw_check")
    m = re.search(r"char\s+title\s*\[\s*(\d+)\s*\]", chk)
    if not m:
        raise vlib.InfraError("pw_check: `char title[N]` not found")
    tsize = int(m.group(1))
    m = re.search(r"memcpy\s*\(\s*info->name\s*,\s*title\s*,\s*(\d+|sizeof\s*\(?\s*title\s*\)?)\s*\)", chk)
    if not m:
        raise vlib.InfraError("pw_check: memcpy(info->name, title, N) not found")
    csize = tsize if m.group(1).startswith("sizeof") else int(m.group(1))
    # is `title` given a defined content before a detector runs? (everything of pw_check textually before the
    # `->test(` call: declaration initialiser, memset, or a store to its first byte)
    k = chk.find("->test(")
    head = chk[:k] if k >= 0 else chk
    full_inits = bool(re.search(r"title\s*\[\s*(?:\d+)?\s*\]\s*=\s*(?:\{|\")", head) or
                      re.search(r"memset\s*\(\s*title\s*,\s*0\s*,\s*(?:sizeof\s*\(?\s*title\s*\)?|%d)\s*\)" % tsize, head))
    inits = bool(full_inits or re.search(r"\btitle\s*\[\s*0\s*\]\s*=", head) or re.search(r"\*\s*title\s*=", head))

    # --- load.c: is the local title buffer of test_module initialised, do the wrappers reset `info` themselves?
    lc = strip_c_comments(open(os.path.join(src, "load.c")).read())
    tm = function_body(lc, "test_module")
    kt = tm.find("->test(")
    kl = tm.find("for (")
    init_pat = r"(?:\bbuf\s*\[\s*0\s*\]\s*=|\*\s*buf\s*=|memset\s*\(\s*buf\s*,\s*0\b)"
    decl_init = bool(re.search(r"char\s+buf\s*\[[^\]]*\]\s*=", tm))
    if kt < 0 or kl < 0 or kl > kt:
        raise vlib.InfraError("test_module: loop / ->test( call not found")
    if re.search(init_pat, tm[kl:kt]):
        buf_init = 2          # before every probe
    elif decl_init or re.search(init_pat, tm[:kl]):
        buf_init = 1          # once, before the loop
    else:
        buf_init = 0
    reset_pat = r"(?:\*\s*info->name\s*=\s*(?:0|'\\0')|info->name\s*\[\s*0\s*\]\s*=\s*(?:0|'\\0'))"
    resetters = []
    for mm in re.finditer(r"^static\s+(?:inline\s+)?void\s+(\w+)\s*\(\s*struct\s+xmp_test_info\s*\*", lc, re.M):
        if re.search(reset_pat, function_body(lc, mm.group(1))):
            resetters.append(mm.group(1))
    wrappers_reset = True
    for fn in ("xmp_test_module", "xmp_test_module_from_memory", "xmp_test_module_from_file", "xmp_test_module_from_callbacks"):
        body = function_body(lc, fn)
        head = body[:body.find("return")] if "return" in body else body
        ok = bool(re.search(reset_pat, head)) or any(re.search(r"\b%s\s*\(" % r, head) for r in resetters)
        wrappers_reset = wrappers_reset and ok

    L = []
    L.append("/-! GENERATED by tools/gen_c11.py from /repo (include/xmp.h, src/load_helpers.c, src/format.c,")
    L.append("    src/loaders/*.c, src/loaders/prowizard/*.c). Do not edit; regenerated on every run of the C11 check. -/")
    L.append("namespace Xmp.TestLoad.Gen")
    L.append("")
    for n in MACROS:
        L.append("def %s : Nat := %d" % (n, mac[n]))
    L.append("")
    L.append("/-- every value a `return` statement of `libxmp_prepare_scan` can yield -/")
    L.append("def prepareScanReturns : List Int := [%s]" % ", ".join(str(v) for v in rets))
    L.append("")
    L.append("/-- `format_loaders[]` (src/format.c) in table order: the `name` field of every entry -/")
    L.append("def formatLoaderNames : List String := " + lean_str_list([names[s] for s in syms]))
    L.append("")
    L.append("/-- `pw_formats[]` (prowizard/prowiz.c) in table order: the `name` field of every entry -/")
    L.append("def pwFormatNames : List String := " + lean_str_list([pwnames[s] for s in pwsyms]))
    L.append("")
    L.append("/-- ProWizard formats whose detector (source file) never calls `pw_read_title` -/")
    L.append("def pwUntitledFormats : List String := " + lean_str_list([pwnames[s] for s in pwsyms if s in pwuntitled]))
    L.append("")
    L.append("/-- `char title[N]` in `pw_check` and the size of `memcpy(info->name, title, N)` -/")
    L.append("def pwTitleBuf : Nat := %d" % tsize)
    L.append("def pwTitleCopy : Nat := %d" % csize)
    L.append("/-- `pw_check` gives `title` a defined first byte / a fully defined content before the detectors run -/")
    L.append("def pwTitleInitFirst : Bool := %s" % ("true" if inits else "false"))
    L.append("def pwTitleInitAll : Bool := %s" % ("true" if full_inits else "false"))
    L.append("/-- `test_module`: the local `buf[XMP_NAME_SIZE]` gets a defined first byte: 0 never, 1 once before the")
    L.append("loop, 2 before every `->test(h, buf, 0)` -/")
    L.append("def testBufInit : Nat := %d" % buf_init)
    L.append("/-- every `xmp_test_module*` wrapper empties `info->name`/`info->type` before its first `return` -/")
    L.append("def wrappersResetInfo : Bool := %s" % ("true" if wrappers_reset else "false"))
    L.append("")
    L.append("end Xmp.TestLoad.Gen")
    changed = vlib.write_if_changed(OUT, "\n".join(L) + "\n")
    return dict(changed=changed, n_loaders=len(syms), n_pw=len(pwsyms), prepare_returns=rets,
                pw_title_init=inits, buf_init=buf_init, wrappers_reset=wrappers_reset, pw_untitled=[pwnames[s] for s in pwsyms if s in pwuntitled], syms=syms, names=[names[s] for s in syms], pwnames=[pwnames[s] for s in pwsyms])


if __name__ == "__main__":
    print(generate())
