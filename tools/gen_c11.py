#!/usr/bin/env python3
"""Translator for the TestLoad model (C11): regenerates
lean/XmpModel/Gen/TestLoadConsts.lean from /repo's working tree.

* XMP_NAME_SIZE, XMP_ERROR_*                     : `gcc -E -dM` on include/xmp.h
* the values libxmp_prepare_scan can return       : regex on its `return` statements (load_helpers.c)
* the format_loaders[] table (order, loader names): regex on src/format.c + the `const struct format_loader`
                                                    initialisers in src/loaders/*.c
* the ProWizard format names                      : pw_formats[] in prowizard/prowiz.c + `const struct pw_format`
* size of the local title buffer of pw_check and of the memcpy into info->name
* whether pw_check initialises that buffer before the detectors run (F15)
"""
import glob
import os
import re
import sys

sys.path.insert(0, os.path.dirname(os.path.abspath(__file__)))
import vlib  # noqa: E402

OUT = os.path.join(vlib.LEAN, "XmpModel", "Gen", "TestLoadConsts.lean")
MACROS = ["XMP_NAME_SIZE", "XMP_ERROR_FORMAT", "XMP_ERROR_LOAD", "XMP_ERROR_DEPACK", "XMP_ERROR_SYSTEM",
          "XMP_ERROR_INVALID"]


def strip_c_comments(t):
    return re.sub(r"/\*.*?\*/", " ", t, flags=re.S)


def macros():
    rc, out = vlib.sh(["gcc", "-E", "-dM", "-I" + os.path.join(vlib.REPO, "include"), "-x", "c", "-"],
                      input=b'#include "xmp.h"\n')
    if rc != 0:
        raise vlib.InfraError("gcc -E -dM on xmp.h failed:\n" + out[-2000:])
    vals = {}
    for m in re.finditer(r"^#define (\w+) (.+)$", out, re.M):
        vals[m.group(1)] = m.group(2).strip()
    res = {}
    for n in MACROS:
        if n not in vals or not re.fullmatch(r"[0-9a-fA-FxX() ]+", vals[n]):
            raise vlib.InfraError("macro %s missing or unexpected in xmp.h" % n)
        res[n] = int(eval(vals[n], {"__builtins__": {}}))
    return res


def function_body(text, name):
    m = re.search(r"^[\w \*]*\b%s\s*\([^;{]*\)\s*\{" % re.escape(name), text, re.M)
    if not m:
        raise vlib.InfraError("function %s not found" % name)
    i = m.end()
    depth = 1
    while i < len(text) and depth:
        depth += (text[i] == "{") - (text[i] == "}")
        i += 1
    return text[m.start():i]


UNDEFINED = {"LIBXMP_CORE_PLAYER", "LIBXMP_CORE_DISABLE_IT", "LIBXMP_NO_PROWIZARD", "LIBXMP_NO_DEPACKERS"}


def cond_strip(text):
    """Resolve the conditionals whose outcome is fixed for the full build (`#if 0`, `#if 1`, `#ifdef X` /
    `#ifndef X` / `#if defined(X)` / `#if !defined(X)` with X in UNDEFINED); lines under other conditionals are
    kept (both branches).  Directive lines themselves are dropped."""
    out = []
    stack = []          # entries: [known(bool), active_now(bool), parent_active(bool)]
    active = True
    for line in text.split("\n"):
        m = re.match(r"\s*#\s*(ifdef|ifndef|if|elif|else|endif)\b(.*)", line)
        if not m:
            if active:
                out.append(line)
            continue
        kw, rest = m.group(1), m.group(2).strip()
        if kw in ("ifdef", "ifndef", "if"):
            val = None
            if kw == "ifdef" and rest.split()[0] in UNDEFINED:
                val = False
            elif kw == "ifndef" and rest.split()[0] in UNDEFINED:
                val = True
            elif kw == "if":
                mm = re.fullmatch(r"(!?)\s*defined\s*\(?\s*(\w+)\s*\)?", rest)
                if rest in ("0", "1"):
                    val = rest == "1"
                elif mm and mm.group(2) in UNDEFINED:
                    val = bool(mm.group(1))
            stack.append([val, active])
            if val is not None:
                active = active and val
        elif kw == "elif":
            if stack and stack[-1][0] is not None:
                # a known `#if` followed by `#elif`: the elif branch is unknown unless the first was taken
                taken = stack[-1][0]
                active = stack[-1][1] and not taken
                stack[-1][0] = True if taken else None
        elif kw == "else":
            if stack and stack[-1][0] is not None:
                active = stack[-1][1] and not stack[-1][0]
        elif kw == "endif":
            if stack:
                _, active = stack.pop()
        # directive line dropped
    return "\n".join(out)


def split_args(s):
    """split a C argument list at top-level commas"""
    args, depth, cur, q = [], 0, "", None
    for ch in s:
        if q:
            cur += ch
            if ch == q and not cur.endswith("\\" + q):
                q = None
            continue
        if ch in "\"'":
            q = ch
            cur += ch
        elif ch in "([{":
            depth += 1
            cur += ch
        elif ch in ")]}":
            depth -= 1
            cur += ch
        elif ch == "," and depth == 0:
            args.append(cur.strip())
            cur = ""
        else:
            cur += ch
    if cur.strip():
        args.append(cur.strip())
    return args


def call_args(text, k):
    """text[k] is the '(' of a call: returns (argument text, index after the matching ')')"""
    depth, i, q = 0, k, None
    while i < len(text):
        ch = text[i]
        if q:
            if ch == q and text[i - 1] != "\\":
                q = None
        elif ch in "\"'":
            q = ch
        elif ch == "(":
            depth += 1
        elif ch == ")":
            depth -= 1
            if depth == 0:
                return text[k + 1:i], i + 1
        i += 1
    raise vlib.InfraError("unbalanced call in test function")


CALL_RE = re.compile(r"\b(hio_\w+|libxmp_read_title|libxmp_copy_adjust|pw_test_format)\s*\(")


def norm(e):
    return re.sub(r"\s+", " ", e).strip()


def test_calls(body):
    """the stream / title calls of a test function in source order, normalised: the handle, the title pointer
    and destination buffers are dropped from the argument lists"""
    k = body.find("{")
    calls = []
    for m in CALL_RE.finditer(body, k):
        fn = m.group(1)
        args, _ = call_args(body, m.end() - 1)
        a = [norm(x) for x in split_args(args)]
        if fn == "hio_read":
            a = a[1:3]                      # (buf, size, num, f) -> size, num
        elif fn == "libxmp_read_title":
            a = a[2:]                       # (f, t, len) -> len
        elif fn == "libxmp_copy_adjust":
            a = ["t" if a and a[0] == "t" else "other"]
        elif fn == "pw_test_format":
            a = []
        else:
            a = [x for x in a if x not in ("f", "h")]
        calls.append("%s(%s)" % (fn, ", ".join(a)))
    return calls


def title_writes(body):
    """how the function stores a title through its pointer `t`, by class, in source order"""
    k = body.find("{")
    b = body[k:]
    found = []
    for m in re.finditer(r"libxmp_read_title\s*\(", b):
        args, _ = call_args(b, m.end() - 1)
        a = [norm(x) for x in split_args(args)]
        ln = a[2] if len(a) > 2 else "?"
        found.append((m.start(), "read_title:" + (ln if re.fullmatch(r"\d+", ln) else "expr")))
    for m in re.finditer(r"libxmp_copy_adjust\s*\(\s*t\s*,", b):
        found.append((m.start(), "copy_adjust"))
    for m in re.finditer(r"pw_test_format\s*\(\s*\w+\s*,\s*t\s*,", b):
        found.append((m.start(), "pw_test_format"))
    for m in re.finditer(r"(?:\*\s*t|t\s*\[\s*0\s*\])\s*=\s*(?:0|'\\0')\s*;", b):
        found.append((m.start(), "empty"))
    # anything else that stores through t
    for m in re.finditer(r"\bt\s*\[[^\]]*\]\s*=[^=]|\b(?:strncpy|strcpy|memcpy|memset|snprintf|sprintf|strlcpy|strncat|strcat)\s*\(\s*t\s*[,)]|"
                         r"\bhio_read\s*\(\s*t\s*,", b):
        if re.match(r"t\s*\[\s*0\s*\]\s*=\s*(?:0|'\\0')\s*;", b[m.start():]):
            continue
        found.append((m.start(), "other"))
    return [c for _, c in sorted(found)]


NAME_DST = r"(?:mod->name|m->mod\.name)"


def load_title_stores(text):
    """every store of a title into mod->name in a loader's source file: (widths, all_literal).  A width is the number of
    bytes the call may copy (strncpy/memcpy/libxmp_copy_adjust: third argument; hio_read: size * num;
    libxmp_read_title: its length; snprintf with "%.Ns": N); anything that is not a decimal literal makes the
    list non-literal (macros, sizeof, variables)."""
    widths, literal = [], True
    for m in re.finditer(r"\b(strncpy|memcpy|libxmp_copy_adjust|hio_read|libxmp_read_title|snprintf)\s*\(", text):
        args, _ = call_args(text, m.end() - 1)
        a = [norm(x) for x in split_args(args)]
        fn = m.group(1)
        w = None
        if fn in ("strncpy", "memcpy", "libxmp_copy_adjust") and len(a) == 3 and re.fullmatch(NAME_DST, a[0]):
            w = a[2]
        elif fn == "hio_read" and len(a) == 4 and re.fullmatch(NAME_DST, a[0]):
            w = str(int(a[1]) * int(a[2])) if a[1].isdigit() and a[2].isdigit() else "expr"
        elif fn == "libxmp_read_title" and len(a) == 3 and re.fullmatch(NAME_DST, a[1]):
            w = a[2]
        elif fn == "snprintf" and len(a) >= 3 and re.fullmatch(NAME_DST, a[0]):
            mm = re.fullmatch(r'"%\.(\d+)s"', a[2])
            w = mm.group(1) if mm else "expr"
        if w is None:
            continue
        if re.fullmatch(r"\d+", w):
            widths.append(int(w))
        else:
            literal = False
    return widths, literal


def test_chunk_steps(body):
    """the relative seeks of a test function whose distance is not a literal (a chunk walker's step), each described as
    `exact:<reader>` when the distance is a plain variable assigned from one fixed-width read (`len = hio_read32l(f)`),
    `param` when it is the function's own `start` parameter, otherwise the normalised expression text"""
    k = body.find("{")
    steps = []
    for m in re.finditer(r"\bhio_seek\s*\(", body[k:]):
        args, _ = call_args(body[k:], m.end() - 1)
        a = [norm(x) for x in split_args(args)]
        if len(a) != 3 or a[2] != "SEEK_CUR" or re.fullmatch(r"[\d\s*+()-]+", a[1]):
            continue
        e = a[1]
        if e == "start":
            steps.append("param")
            continue
        if re.fullmatch(r"\w+", e):
            defs = re.findall(r"\b%s\s*=\s*(hio_read\w+)\s*\(\s*\w+\s*\)\s*;" % re.escape(e), body[k:])
            if defs and len(set(defs)) == 1:
                steps.append("exact:" + defs[0])
                continue
        steps.append("expr:" + e)
    return steps


def loader_iff_steps(text):
    """how the IFF walker of a loader steps from chunk to chunk, one entry per libxmp_iff_new() in the file (in order,
    paired with the following libxmp_iff_set_quirk calls up to the next libxmp_iff_load): the size reader, then
    `+align2` / `+align4` / `+full` / `+embedded` for the quirks that change the step"""
    out = []
    for seg in re.split(r"\blibxmp_iff_new\s*\(", text)[1:]:
        seg = seg.split("libxmp_iff_load", 1)[0]
        flags = " ".join(re.findall(r"libxmp_iff_set_quirk\s*\(\s*\w+\s*,\s*([^)]*)\)", seg))
        step = "hio_read32l" if "IFF_LITTLE_ENDIAN" in flags else "hio_read32b"
        for f, tag in (("IFF_CHUNK_ALIGN2", "+align2"), ("IFF_CHUNK_ALIGN4", "+align4"), ("IFF_FULL_CHUNK_SIZE", "+full"),
                       ("IFF_SKIP_EMBEDDED", "+embedded"), ("IFF_CHUNK_TRUNC4", "+trunc4")):
            if f in flags:
                step += tag
        out.append(step)
    return out


def type_key(t):
    """same key as tools/checks/c11.py derives from a format name"""
    w = re.sub(r"[^a-z0-9 ]", "", t.lower()).split()
    if not w:
        return "none"
    return w[0] + (w[-1] if len(w) > 1 and w[-1].isdigit() else "")


def lean_str_list(xs):
    return "[" + ", ".join('"%s"' % x.replace("\\", "\\\\").replace('"', '\\"') for x in xs) + "]"


def generate():
    mac = macros()
    src = os.path.join(vlib.REPO, "src")
    # --- libxmp_prepare_scan return values
    lh = strip_c_comments(open(os.path.join(src, "load_helpers.c")).read())
    body = function_body(lh, "libxmp_prepare_scan")
    rets = []
    for m in re.finditer(r"\breturn\s+([^;]+);", body):
        e = m.group(1).strip()
        mm = re.fullmatch(r"(-?)\s*(XMP_ERROR_\w+|\d+)", e)
        if not mm:
            raise vlib.InfraError("libxmp_prepare_scan: cannot evaluate `return %s`" % e)
        v = mac.get(mm.group(2)) if mm.group(2) in mac else (int(mm.group(2)) if mm.group(2).isdigit() else None)
        if v is None:
            raise vlib.InfraError("libxmp_prepare_scan: unknown macro in `return %s`" % e)
        v = -v if mm.group(1) else v
        if v not in rets:
            rets.append(v)
    # --- format_loaders[]
    fc = strip_c_comments(open(os.path.join(src, "format.c")).read())
    m = re.search(r"format_loaders\s*\[[^\]]*\]\s*=\s*\{(.*?)\};", fc, re.S)
    if not m:
        raise vlib.InfraError("format_loaders[] not found in format.c")
    syms = re.findall(r"&\s*(libxmp_loader_\w+)", m.group(1))
    names = {}
    for p in sorted(glob.glob(os.path.join(src, "loaders", "*.c"))):
        t = strip_c_comments(open(p, errors="replace").read())
        # full (non-core) build: keep the #else branch of `#ifdef LIBXMP_CORE_PLAYER`
        t = re.sub(r"#\s*ifdef\s+LIBXMP_CORE_PLAYER\b.*?#\s*else(.*?)#\s*endif", r"\1", t, flags=re.S)
        for mm in re.finditer(r"const\s+struct\s+format_loader\s+(libxmp_loader_\w+)\s*=\s*\{\s*\"((?:[^\"\\]|\\.)*)\"", t):
            names[mm.group(1)] = mm.group(2)
    missing = [s for s in syms if s not in names]
    if missing:
        raise vlib.InfraError("loader initialisers not found for %s" % missing)
    # --- every loader's test function: file, stream/title calls, title writes (full build)
    facts = {}
    for p in sorted(glob.glob(os.path.join(src, "loaders", "*.c"))):
        t = cond_strip(strip_c_comments(open(p, errors="replace").read()))
        for mm in re.finditer(r"const\s+struct\s+format_loader\s+(libxmp_loader_\w+)\s*=\s*\{([^}]*)\}", t):
            parts = split_args(mm.group(2))
            if len(parts) < 3:
                raise vlib.InfraError("%s: unexpected format_loader initialiser" % mm.group(1))
            tf = parts[1]
            try:
                fb = function_body(t, tf)
            except vlib.InfraError:
                raise vlib.InfraError("%s: test function %s not defined in %s" % (mm.group(1), tf, os.path.basename(p)))
            lw, lit = load_title_stores(t)
            dels = []
            for d in re.findall(r"\b(libxmp_loader_\w+)\s*\.\s*loader\s*\(", t):
                if d not in dels:
                    dels.append(d)
            facts[mm.group(1)] = dict(file=os.path.basename(p), fn=tf, calls=test_calls(fb), writes=title_writes(fb),
                                      load_widths=lw, load_literal=lit, delegates=dels,
                                      chunk_steps=test_chunk_steps(fb), iff_steps=loader_iff_steps(t))
    missing = [s for s in syms if s not in facts]
    if missing:
        raise vlib.InfraError("test functions not found for %s" % missing)
    # --- constants of the four core test functions
    def c_string(lit):
        return bytes(lit, "latin-1").decode("unicode_escape")
    mt = cond_strip(strip_c_comments(open(os.path.join(src, "loaders", "mod_load.c")).read()))
    m = re.search(r"struct\s+mod_magic\s+mod_magic\s*\[\s*\]\s*=\s*\{(.*?)\}\s*;", mt, re.S)
    if not m:
        raise vlib.InfraError("mod_magic[] not found in mod_load.c")
    mod_magic = [(c_string(a), int(b)) for a, b in re.findall(r"\{\s*\"((?:[^\"\\]|\\.)*)\"\s*,\s*(\d+)\s*,", m.group(1))]
    if not mod_magic or any(len(a) != 4 or not a.isascii() for a, _ in mod_magic):
        raise vlib.InfraError("mod_magic[]: unexpected entries %r" % mod_magic)
    magic4 = {}
    for fn, mac4 in (("s3m_load.c", "MAGIC_SCRM"), ("it_load.c", "MAGIC_IMPM")):
        tt = strip_c_comments(open(os.path.join(src, "loaders", fn)).read())
        m = re.search(r"#\s*define\s+%s\s+MAGIC4\s*\(\s*'(.)'\s*,\s*'(.)'\s*,\s*'(.)'\s*,\s*'(.)'\s*\)" % mac4, tt)
        if not m:
            raise vlib.InfraError("%s not found in %s" % (mac4, fn))
        magic4[mac4] = int.from_bytes("".join(m.groups()).encode("latin-1"), "big")
    xt = cond_strip(strip_c_comments(open(os.path.join(src, "loaders", "xm_load.c")).read()))
    m = re.search(r"memcmp\s*\(\s*buf\s*,\s*\"((?:[^\"\\]|\\.)*)\"\s*,\s*(\d+)\s*\)", function_body(xt, facts["libxmp_loader_xm"]["fn"]))
    if not m:
        raise vlib.InfraError("xm_test: memcmp(buf, \"...\", N) not found")
    xm_id, xm_idlen = c_string(m.group(1)), int(m.group(2))
    # --- known title findings (known_findings.json, status "known", signature title:<key>) -> loader symbols
    deviants = []
    try:
        import json
        kf = json.load(open(os.path.join(vlib.VERIF, "known_findings.json")))["findings"]
    except (OSError, ValueError, KeyError):
        kf = []
    for k in kf:
        sig = k.get("signature", "")
        if k.get("property") == "C11" and k.get("status") == "known" and sig.startswith("title:") and "prowizard" not in sig:
            # the finding's text names the test function ("masi_test (Epic MegaGames MASI) only looks ...")
            fns = set(re.findall(r"\b(\w+_test)\b", k.get("what", "")))
            for s in syms:
                if facts[s]["fn"] in fns and re.fullmatch(sig[len("title:"):], type_key(names[s])) and s not in deviants:
                    deviants.append(s)
    # --- ProWizard
    pc = strip_c_comments(open(os.path.join(src, "loaders", "prowizard", "prowiz.c")).read())
    m = re.search(r"pw_formats\s*\[[^\]]*\]\s*=\s*\{(.*?)\};", pc, re.S)
    if not m:
        raise vlib.InfraError("pw_formats[] not found")
    pwsyms = re.findall(r"&\s*(pw_\w+)", m.group(1))
    pwnames = {}
    pwuntitled = set()     # detectors whose source file never calls pw_read_title: they leave `title` untouched
    for p in sorted(glob.glob(os.path.join(src, "loaders", "prowizard", "*.c"))):
        t = strip_c_comments(open(p, errors="replace").read())
        for mm in re.finditer(r"const\s+struct\s+pw_format\s+(pw_\w+)\s*=\s*\{\s*\"((?:[^\"\\]|\\.)*)\"", t):
            pwnames[mm.group(1)] = mm.group(2)
            if not re.search(r"\bpw_read_title\s*\(", t):
                pwuntitled.add(mm.group(1))
    missing = [s for s in pwsyms if s not in pwnames]
    if missing:
        raise vlib.InfraError("pw_format initialisers not found for %s" % missing)
    chk = function_body(pc, "pw_check")
    m = re.search(r"char\s+title\s*\[\s*(\d+)\s*\]", chk)
    if not m:
        raise vlib.InfraError("pw_check: `char title[N]` not found")
    tsize = int(m.group(1))
    m = re.search(r"memcpy\s*\(\s*info->name\s*,\s*title\s*,\s*(\d+|sizeof\s*\(?\s*title\s*\)?)\s*\)", chk)
    if not m:
        raise vlib.InfraError("pw_check: memcpy(info->name, title, N) not found")
    csize = tsize if m.group(1).startswith("sizeof") else int(m.group(1))
    # is `title` given a defined content before a detector runs? (everything of pw_check textually before the
    # `->test(` call: declaration initialiser, memset, or a store to its first byte)
    k = chk.find("->test(")
    head = chk[:k] if k >= 0 else chk
    full_inits = bool(re.search(r"title\s*\[\s*(?:\d+)?\s*\]\s*=\s*(?:\{|\")", head) or
                      re.search(r"memset\s*\(\s*title\s*,\s*0\s*,\s*(?:sizeof\s*\(?\s*title\s*\)?|%d)\s*\)" % tsize, head))
    inits = bool(full_inits or re.search(r"\btitle\s*\[\s*0\s*\]\s*=", head) or re.search(r"\*\s*title\s*=", head))

    # --- load.c: is the local title buffer of test_module initialised, do the wrappers reset `info` themselves?
    lc = strip_c_comments(open(os.path.join(src, "load.c")).read())
    tm = function_body(lc, "test_module")
    kt = tm.find("->test(")
    kl = tm.find("for (")
    init_pat = r"(?:\bbuf\s*\[\s*0\s*\]\s*=|\*\s*buf\s*=|memset\s*\(\s*buf\s*,\s*0\b)"
    decl_init = bool(re.search(r"char\s+buf\s*\[[^\]]*\]\s*=", tm))
    if kt < 0 or kl < 0 or kl > kt:
        raise vlib.InfraError("test_module: loop / ->test( call not found")
    if re.search(init_pat, tm[kl:kt]):
        buf_init = 2          # before every probe
    elif decl_init or re.search(init_pat, tm[:kl]):
        buf_init = 1          # once, before the loop
    else:
        buf_init = 0
    reset_pat = r"(?:\*\s*info->name\s*=\s*(?:0|'\\0')|info->name\s*\[\s*0\s*\]\s*=\s*(?:0|'\\0'))"
    resetters = []
    for mm in re.finditer(r"^static\s+(?:inline\s+)?void\s+(\w+)\s*\(\s*struct\s+xmp_test_info\s*\*", lc, re.M):
        if re.search(reset_pat, function_body(lc, mm.group(1))):
            resetters.append(mm.group(1))
    wrappers_reset = True
    for fn in ("xmp_test_module", "xmp_test_module_from_memory", "xmp_test_module_from_file", "xmp_test_module_from_callbacks"):
        body = function_body(lc, fn)
        head = body[:body.find("return")] if "return" in body else body
        ok = bool(re.search(reset_pat, head)) or any(re.search(r"\b%s\s*\(" % r, head) for r in resetters)
        wrappers_reset = wrappers_reset and ok

    L = []
    L.append("/-! GENERATED by tools/gen_c11.py from /repo (include/xmp.h, src/load_helpers.c, src/format.c,")
    L.append("    src/loaders/*.c, src/loaders/prowizard/*.c). Do not edit; regenerated on every run of the C11 check. -/")
    L.append("namespace Xmp.TestLoad.Gen")
    L.append("")
    for n in MACROS:
        L.append("def %s : Nat := %d" % (n, mac[n]))
    L.append("")
    L.append("/-- every value a `return` statement of `libxmp_prepare_scan` can yield -/")
    L.append("def prepareScanReturns : List Int := [%s]" % ", ".join(str(v) for v in rets))
    L.append("")
    L.append("/-- `format_loaders[]` (src/format.c) in table order: the `name` field of every entry -/")
    L.append("def formatLoaderNames : List String := " + lean_str_list([names[s] for s in syms]))
    L.append("")
    L.append("/-- `pw_formats[]` (prowizard/prowiz.c) in table order: the `name` field of every entry -/")
    L.append("def pwFormatNames : List String := " + lean_str_list([pwnames[s] for s in pwsyms]))
    L.append("")
    L.append("/-- ProWizard formats whose detector (source file) never calls `pw_read_title` -/")
    L.append("def pwUntitledFormats : List String := " + lean_str_list([pwnames[s] for s in pwsyms if s in pwuntitled]))
    L.append("")
    L.append("/-- `char title[N]` in `pw_check` and the size of `memcpy(info->name, title, N)` -/")
    L.append("def pwTitleBuf : Nat := %d" % tsize)
    L.append("def pwTitleCopy : Nat := %d" % csize)
    L.append("/-- `pw_check` gives `title` a defined first byte / a fully defined content before the detectors run -/")
    L.append("def pwTitleInitFirst : Bool := %s" % ("true" if inits else "false"))
    L.append("def pwTitleInitAll : Bool := %s" % ("true" if full_inits else "false"))
    L.append("/-- `test_module`: the local `buf[XMP_NAME_SIZE]` gets a defined first byte: 0 never, 1 once before the")
    L.append("loop, 2 before every `->test(h, buf, 0)` -/")
    L.append("def testBufInit : Nat := %d" % buf_init)
    L.append("/-- every `xmp_test_module*` wrapper empties `info->name`/`info->type` before its first `return` -/")
    L.append("def wrappersResetInfo : Bool := %s" % ("true" if wrappers_reset else "false"))
    L.append("")
    L.append("/-! ## the core test functions (xm_test, mod_test, it_test, s3m_test) -/")
    L.append("")
    L.append("/-- `mod_magic[]` (loaders/mod_load.c): magic, flag (\"detected\") -/")
    L.append("def modMagic : List (String × Nat) := [%s]" % ", ".join('(%s, %d)' % (lean_str_list([a])[1:-1], b) for a, b in mod_magic))
    L.append("def MAGIC_SCRM : Nat := 0x%08x" % magic4["MAGIC_SCRM"])
    L.append("def MAGIC_IMPM : Nat := 0x%08x" % magic4["MAGIC_IMPM"])
    L.append("/-- `memcmp(buf, xmIdText, xmIdLen)` in xm_test -/")
    L.append("def xmIdText : String := %s" % lean_str_list([xm_id])[1:-1])
    L.append("def xmIdLen : Nat := %d" % xm_idlen)
    L.append("")
    L.append("/-! ## every entry of `format_loaders[]`: where its test function lives and what it does to the stream and")
    L.append("to the title pointer, syntactically (full build; calls in source order, handle / title pointer / destination")
    L.append("buffers dropped from the argument lists) -/")
    L.append("")
    L.append("structure TestFacts where")
    L.append("  sym : String")
    L.append("  name : String")
    L.append("  file : String")
    L.append("  fn : String")
    L.append("  /-- `hio_*`, `libxmp_read_title`, `libxmp_copy_adjust`, `pw_test_format` calls -/")
    L.append("  calls : List String")
    L.append("  /-- stores through the title pointer by class: `read_title:<n>` (literal length), `read_title:expr`,")
    L.append("  `copy_adjust`, `pw_test_format`, `empty` (`*t = 0`), `other` -/")
    L.append("  writes : List String")
    L.append("  /-- the non-zero literal lengths passed to `libxmp_read_title` by the test function, in source order, and")
    L.append("  whether every title store of the test function is a `libxmp_read_title` with a literal length -/")
    L.append("  testWidths : List Nat")
    L.append("  testLiteral : Bool")
    L.append("  /-- widths of the stores into `mod->name` found in the loader's source file (strncpy / memcpy /")
    L.append("  libxmp_copy_adjust / hio_read / libxmp_read_title / snprintf \"%.Ns\") that are decimal literals, and whether")
    L.append("  every such store has a literal width -/")
    L.append("  loadWidths : List Nat")
    L.append("  loadLiteral : Bool")
    L.append("  /-- loaders whose `loader` function this one calls (wrappers: UMX, MUSE) -/")
    L.append("  delegates : List String")
    L.append("  /-- relative seeks of the test function by a non-literal distance (a chunk walker's step): `exact:<reader>` = a")
    L.append("  variable assigned from that fixed-width read, `param` = the `start` parameter, `expr:<text>` otherwise -/")
    L.append("  chunkSteps : List String")
    L.append("  /-- the step of each IFF walk of the loader's file: size reader and the quirks that change the step -/")
    L.append("  iffSteps : List String")
    L.append("")
    L.append("def testFacts : List TestFacts := [")
    rows = []
    for s in syms:
        f = facts[s]
        rows.append("  { sym := %s, name := %s, file := %s, fn := %s,\n    calls := %s,\n    writes := %s,\n    testWidths := %s, testLiteral := %s, loadWidths := %s, loadLiteral := %s, delegates := %s,\n    chunkSteps := %s, iffSteps := %s }" % (
            lean_str_list([s])[1:-1], lean_str_list([names[s]])[1:-1], lean_str_list([f["file"]])[1:-1],
            lean_str_list([f["fn"]])[1:-1], lean_str_list(f["calls"]), lean_str_list(f["writes"]),
            "[" + ", ".join(w.split(":")[1] for w in f["writes"] if re.fullmatch(r"read_title:[1-9]\d*", w)) + "]",
            "true" if f["writes"] and all(re.fullmatch(r"read_title:\d+", w) for w in f["writes"]) else "false",
            "[" + ", ".join(str(w) for w in f["load_widths"]) + "]", "true" if f["load_literal"] else "false",
            lean_str_list(f["delegates"]), lean_str_list(f["chunk_steps"]), lean_str_list(f["iff_steps"])))
    L.append(",\n".join(rows) + "]")
    L.append("")
    L.append("/-- loaders named by a known title finding (known_findings.json: property C11, status known, `title:<key>`) -/")
    L.append("def titleDeviants : List String := " + lean_str_list(deviants))
    L.append("")
    L.append("end Xmp.TestLoad.Gen")
    changed = vlib.write_if_changed(OUT, "\n".join(L) + "\n")
    return dict(changed=changed, n_loaders=len(syms), n_pw=len(pwsyms), prepare_returns=rets,
                pw_title_init=inits, buf_init=buf_init, wrappers_reset=wrappers_reset, pw_untitled=[pwnames[s] for s in pwsyms if s in pwuntitled], syms=syms, names=[names[s] for s in syms], pwnames=[pwnames[s] for s in pwsyms],
                mod_magic=mod_magic, deviants=deviants,
                walkers=[names[s] for s in syms if any(c.startswith(("exact:", "expr:")) for c in facts[s]["chunk_steps"])])


if __name__ == "__main__":
    print(generate())
