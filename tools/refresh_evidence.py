#!/usr/bin/env python3
"""Runs every registered check's quick command on /repo (unchanged tree), verifies exit 0 and that the
evidence file validates against the schema; prints a summary.  Use before committing evidence."""
import json, os, subprocess, sys, time
V = os.path.dirname(os.path.dirname(os.path.abspath(__file__)))
man = json.load(open(os.path.join(V, "MANIFEST.json")))
only = sys.argv[1:]
bad = []
for c in man["checks"]:
    pid = c["property_id"]
    if only and pid not in only:
        continue
    t0 = time.time()
    env = dict(os.environ, VERIF_SEED=os.environ.get("VERIF_SEED", "1"), VERIF_TIER="quick")
    p = subprocess.run(c["quick_cmd"], shell=True, cwd=V, stdout=subprocess.PIPE, stderr=subprocess.STDOUT, env=env)
    out = p.stdout.decode("utf-8", "replace")
    ok = p.returncode == 0 and "VIOLATION" not in out
    val = subprocess.run(["python3-vt", "-c", "import json,jsonschema,sys;jsonschema.validate(json.load(open(sys.argv[1])),json.load(open('/root/.vp/EVIDENCE.schema.json')))",
                          os.path.join(V, c["evidence_file"])], stdout=subprocess.PIPE, stderr=subprocess.STDOUT)
    ev_ok = val.returncode == 0
    print("%s exit=%d evidence=%s %.0fs %s" % (pid, p.returncode, "valid" if ev_ok else "INVALID", time.time() - t0,
                                              "" if ok else out.strip().splitlines()[-3:]), flush=True)
    if not ok or not ev_ok:
        bad.append(pid)
print("refresh: %s" % ("all ok" if not bad else "PROBLEMS: " + " ".join(bad)))
