#!/usr/bin/env python3
"""C09 helpers: independent archive writers, payload generators, fault enumeration.

Encoders are independent of libxmp: python's zlib / bz2 / lzma / zipfile (C libraries zlib,
libbz2, liblzma) and small writers of our own for ARC (stored, RLE90), ArcFS (stored, RLE90)
and LZX (stored), whose check codes are computed by the *bitwise* Python CRCs below (not by any
table of libxmp).
"""
import bz2
import hashlib
import io
import lzma
import os
import struct
import zipfile
import zlib

import vlib


# --------------------------------------------------------------------------
# independent check codes (bitwise)
# --------------------------------------------------------------------------

def crc16_arc(data, crc=0):
    for b in data:
        crc ^= b
        for _ in range(8):
            crc = (crc >> 1) ^ 0xA001 if crc & 1 else crc >> 1
    return crc


def crc32_bitwise(data, crc=0):
    crc ^= 0xFFFFFFFF
    for b in data:
        crc ^= b
        for _ in range(8):
            crc = (crc >> 1) ^ 0xEDB88320 if crc & 1 else crc >> 1
    return crc ^ 0xFFFFFFFF


def crc32_bz(data):
    crc = 0xFFFFFFFF
    for b in data:
        crc ^= b << 24
        for _ in range(8):
            crc = ((crc << 1) ^ 0x04C11DB7) & 0xFFFFFFFF if crc & 0x80000000 else (crc << 1) & 0xFFFFFFFF
    return crc ^ 0xFFFFFFFF


# --------------------------------------------------------------------------
# payloads
# --------------------------------------------------------------------------

PERIODS = [856, 808, 762, 720, 678, 640, 604, 570, 538, 508, 480, 453, 428, 404, 381, 360, 339, 320, 302, 285, 269,
           254, 240, 226, 214, 202, 190, 180, 170, 160, 151, 143, 135, 127, 120, 113]


def synth_mod(rng, compressible=True, tiny=False):
    """A small valid 4-channel ProTracker module (M.K.).  `tiny`: one pattern, one short sample,
    a handful of notes -- deflates to < 256 bytes, so that single-byte faults reach every size field."""
    nsmp = 1 if tiny else rng.randint(1, 4)
    npat = 1 if tiny else rng.randint(1, 2)
    title = ("c09 synth %d" % rng.randrange(10 ** 6)).encode()[:20].ljust(20, b"\0")
    hdr = bytearray(title)
    samples = []
    for i in range(31):
        if i < nsmp:
            n = rng.randint(8, 12 if tiny else 200 if compressible else 600) * 2
            if compressible:
                base = bytes(rng.randrange(256) for _ in range(rng.randint(2, 8)))
                data = (base * (n // len(base) + 1))[:n]
            else:
                data = bytes(rng.randrange(256) for _ in range(n))
            data = b"\0\0" + data[2:]
            samples.append(data)
            name = ("smp%d" % i).encode().ljust(22, b"\0")
            hdr += name + struct.pack(">HBBHH", n // 2, rng.randrange(16), rng.randint(16, 64), 0, 1)
        else:
            hdr += b"\0" * 22 + struct.pack(">HBBHH", 0, 0, 0, 0, 1)
    songlen = rng.randint(1, 4)
    orders = [rng.randrange(npat) for _ in range(songlen)]
    orders[rng.randrange(songlen)] = npat - 1
    hdr += bytes([songlen, 0x7F]) + bytes(orders).ljust(128, b"\0") + b"M.K."
    pats = bytearray()
    for _ in range(npat):
        p = bytearray(1024)
        for _ in range(rng.randint(2, 4) if tiny else rng.randint(4, 24) if compressible else 160):
            row, ch = rng.randrange(64), rng.randrange(4)
            per = rng.choice(PERIODS)
            ins = rng.randint(1, nsmp)
            fx, fp = rng.choice([(0, 0), (0xC, rng.randrange(65)), (0xA, rng.randrange(16)), (0xF, rng.randint(3, 8))])
            o = (row * 4 + ch) * 4
            p[o] = (ins & 0xF0) | (per >> 8)
            p[o + 1] = per & 0xFF
            p[o + 2] = ((ins & 0x0F) << 4) | fx
            p[o + 3] = fp
        pats += p
    return bytes(hdr) + bytes(pats) + b"".join(samples)


def synth_mod_big(rng, nbytes=230000):
    """A valid M.K. module whose two samples are ~nbytes of incompressible data: libbz2 at level 1
    (100 kB blocks) needs >= 3 blocks for it."""
    per = min(131070, nbytes // 2) // 2 * 2
    title = ("c09 big %d" % rng.randrange(10 ** 6)).encode()[:20].ljust(20, b"\0")
    hdr = bytearray(title)
    samples = []
    for i in range(31):
        if i < 2:
            data = b"\0\0" + rng.randbytes(per - 2)
            samples.append(data)
            hdr += ("big%d" % i).encode().ljust(22, b"\0") + struct.pack(">HBBHH", per // 2, 0, 64, 0, 1)
        else:
            hdr += b"\0" * 22 + struct.pack(">HBBHH", 0, 0, 0, 0, 1)
    hdr += bytes([1, 0x7F]) + bytes(128) + b"M.K."
    pat = bytearray(1024)
    pat[0:4] = bytes([0x01, 0xAC, 0x10, 0x00])
    pat[4:8] = bytes([0x01, 0xAC, 0x20, 0x00])
    return bytes(hdr) + bytes(pat) + b"".join(samples)


_BZ_TAB = None


def crc32_bz_fast(data, crc=0xFFFFFFFF):
    """table-driven form of crc32_bz (table built from the bitwise definition above); returns the
    running register (not inverted)"""
    global _BZ_TAB
    if _BZ_TAB is None:
        _BZ_TAB = []
        for i in range(256):
            c = i << 24
            for _ in range(8):
                c = ((c << 1) ^ 0x04C11DB7) & 0xFFFFFFFF if c & 0x80000000 else (c << 1) & 0xFFFFFFFF
            _BZ_TAB.append(c)
    t = _BZ_TAB
    for b in data:
        crc = ((crc << 8) & 0xFFFFFFFF) ^ t[(crc >> 24) ^ b]
    return crc


def bz_find_bits(data, magic48):
    """bit offsets at which the 48-bit pattern occurs in `data`"""
    pat = magic48.to_bytes(6, "big")
    v = int.from_bytes(data, "big")
    out = []
    for s in range(8):
        b = ((v << s) & ((1 << (len(data) * 8)) - 1)).to_bytes(len(data), "big")
        i = b.find(pat)
        while i >= 0:
            out.append(i * 8 + s)
            i = b.find(pat, i + 1)
    return sorted(out)


def bz_layout(data, payload):
    """Independent parse of a bzip2 file written by libbz2: bit offsets of the block header CRCs and of the
    stream CRC, the CRC values, and the split of the payload into the blocks (found by matching
    the running bitwise-defined CRC against each block's header CRC).  None if it cannot be established."""
    blocks = bz_find_bits(data, 0x314159265359)
    eos = bz_find_bits(data, 0x177245385090)
    if not blocks or not eos:
        return None
    eos = eos[-1]
    v = int.from_bytes(data, "big")
    nb = len(data) * 8

    def bits(off, n):
        return (v >> (nb - off - n)) & ((1 << n) - 1)
    hcs = [bits(o + 48, 32) for o in blocks]
    parts, start = [], 0
    for i, hc in enumerate(hcs):
        if i == len(hcs) - 1:
            end = len(payload)
            if crc32_bz_fast(payload[start:end]) ^ 0xFFFFFFFF != hc:
                return None
        else:
            crc, end = 0xFFFFFFFF, None
            t = None
            crc32_bz_fast(b"")
            t = _BZ_TAB
            for k in range(start, len(payload)):
                crc = ((crc << 8) & 0xFFFFFFFF) ^ t[(crc >> 24) ^ payload[k]]
                if crc ^ 0xFFFFFFFF == hc and k + 1 - start >= 50000:
                    end = k + 1
                    break
            if end is None:
                return None
        parts.append(payload[start:end])
        start = end
    return {"block_bits": blocks, "eos_bit": eos, "hdr_crcs": hcs, "stream_crc": bits(eos + 48, 32), "parts": parts}


def make_bz2_multi(rng, payload):
    data = bz2.compress(payload, 1)
    lay = bz_layout(data, payload)
    if lay is None or len(lay["parts"]) < 2:
        return None
    n = len(data)
    fields = {"magic": (0, 4), "blockhdr": (4, 10), "trailer": (max(0, n - 11), min(11, n))}
    for i, o in enumerate(lay["block_bits"][1:], 1):
        fields["blockhdr%d" % i] = (o // 8, 11)
    return _arch("bzip2", "multi%d" % len(lay["parts"]), "song.bz2", data, payload, fields, extra={"bz": lay})


ARCHIVE_MAGICS = (b"PK", b"\x1f\x8b", b"BZh", b"\xfd7zXZ", b"LZX", b"Archive\0", b"\x1a", b"PP20", b"ziRCONia", b"XPKF",
                  b"\x1f\x9d", b"S404")


def corpus_candidates(max_size):
    out = []
    for f in vlib.corpus_files():
        try:
            n = os.path.getsize(f)
        except OSError:
            continue
        if 200 <= n <= max_size:
            out.append(f)
    return out


# --------------------------------------------------------------------------
# writers
# --------------------------------------------------------------------------

def _arch(fmt, variant, name, data, payload, fields, crc16=False, extra=None):
    d = {"fmt": fmt, "variant": variant, "name": name, "data": bytes(data), "payload": payload,
         "fields": {k: v for k, v in fields.items() if v[1] > 0}, "crc16": crc16}
    if extra:
        d.update(extra)
    return d


def make_gzip(rng, payload, level=None):
    level = rng.randrange(10) if level is None else level
    flg = 0
    for bit, pct in ((1, 30), (2, 30), (4, 30), (8, 50), (16, 30)):
        if rng.randrange(100) < pct:
            flg |= bit
    hdr = bytearray(b"\x1f\x8b\x08" + bytes([flg]) + struct.pack("<I", rng.randrange(2 ** 32)) +
                    bytes([rng.choice([0, 2, 4]), rng.choice([0, 3, 255])]))
    if flg & 4:
        x = bytes(rng.randrange(256) for _ in range(rng.randrange(0, 12)))
        hdr += struct.pack("<H", len(x)) + x
    if flg & 8:
        hdr += b"song.mod\0"
    if flg & 16:
        hdr += b"made by c09\0"
    if flg & 2:
        hdr += struct.pack("<H", zlib.crc32(bytes(hdr)) & 0xFFFF)
    co = zlib.compressobj(level, zlib.DEFLATED, -15)
    body = co.compress(payload) + co.flush()
    data = bytes(hdr) + body + struct.pack("<II", zlib.crc32(payload) & 0xFFFFFFFF, len(payload) & 0xFFFFFFFF)
    n = len(data)
    return _arch("gzip", "l%d-f%02x" % (level, flg), "song.gz", data, payload,
                 {"magic": (0, 4), "hdr": (4, len(hdr) - 4), "crc32": (n - 8, 4), "isize": (n - 4, 4)},
                 extra={"start": len(hdr)})


def make_bz2(rng, payload, level=None):
    level = rng.randint(1, 9) if level is None else level
    data = bz2.compress(payload, level)
    n = len(data)
    return _arch("bzip2", "l%d" % level, "song.bz2", data, payload,
                 {"magic": (0, 4), "blockhdr": (4, 10), "trailer": (max(0, n - 11), min(11, n))})


def make_xz(rng, payload):
    # (the delta filter is not implemented by libxmp's xz decoder: such streams are refused as a whole)
    if rng.randrange(2) == 0:
        data = lzma.compress(payload, format=lzma.FORMAT_XZ, check=lzma.CHECK_CRC32, preset=rng.randrange(7))
        var = "preset"
    else:
        filt = [{"id": lzma.FILTER_LZMA2, "dict_size": 1 << rng.randint(12, 20), "lc": rng.randint(0, 3), "lp": 0,
                 "pb": rng.randint(0, 2)}]
        data = lzma.compress(payload, format=lzma.FORMAT_XZ, check=lzma.CHECK_CRC32, filters=filt)
        var = "filters"
    n = len(data)
    bsz = (struct.unpack("<I", data[n - 8:n - 4])[0] + 1) * 4     # index size incl. its CRC
    idx = n - 12 - bsz
    bh = (data[12] + 1) * 4
    return _arch("xz", var, "song.xz", data, payload,
                 {"streamhdr": (0, 12), "blockhdr": (12, bh), "check": (idx - 4, 4), "index": (idx, bsz),
                  "footer": (n - 12, 12)})


def _vli(v):
    out = bytearray()
    while v >= 0x80:
        out.append((v & 0x7F) | 0x80)
        v >>= 7
    out.append(v)
    return bytes(out)


def lzma2_stored(part):
    """raw LZMA2 stream of uncompressed chunks only (control 0x01 = dictionary reset, then 0x02), written here"""
    out = bytearray()
    first = True
    for i in range(0, len(part), 65536):
        c = part[i:i + 65536]
        out += bytes([1 if first else 2]) + struct.pack(">H", len(c) - 1) + c
        first = False
    return bytes(out) + b"\0"


def make_xz_multi(rng, payload, nblocks=None, check=1, stored=None):
    """xz container written HERE (python), Block data by liblzma's *raw* LZMA2 encoder: several Blocks,
    optional Compressed/Uncompressed Size fields (multi-byte VLIs), header padding, Block Padding,
    Index with one Record per Block.  Check type `check`: 1 = CRC-32 (bitwise python CRC), 0 = none."""
    nblocks = rng.randint(2, 4) if nblocks is None else nblocks
    nblocks = max(1, min(nblocks, max(1, len(payload))))
    cuts = sorted(rng.sample(range(1, len(payload)), nblocks - 1)) if nblocks > 1 else []
    parts = [payload[a:b] for a, b in zip([0] + cuts, cuts + [len(payload)])]
    flags = bytes([0, check])
    data = bytearray(b"\xfd7zXZ\0" + flags + struct.pack("<I", crc32_bitwise(flags)))
    fields = {"streamhdr": (0, 12)}
    records = []
    csz = {0: 0, 1: 4}[check]
    for i, part in enumerate(parts):
        k = rng.randint(12, 20)
        filt = [{"id": lzma.FILTER_LZMA2, "dict_size": 1 << k, "lc": rng.randint(0, 3), "lp": 0, "pb": rng.randint(0, 2)}]
        # some Blocks carry their data in *uncompressed* LZMA2 chunks: a flipped data bit there is invisible to the
        # LZMA2 decoder (no range coder involved), only the Block's Check can notice it
        st_i = (stored[i] if stored is not None else (rng.randrange(2) == 0 or (i == len(parts) - 1 and i > 0))) and len(part) > 0
        body = lzma2_stored(part) if st_i else lzma.compress(part, format=lzma.FORMAT_RAW, filters=filt)
        if st_i:
            fields["blockstored%d" % i] = (len(data) + 16, 0)      # marker only (length 0 is dropped by _arch)
        bflags = 0
        opt = b""
        if rng.randrange(2):
            bflags |= 0x40
            opt += _vli(len(body))
        if rng.randrange(2):
            bflags |= 0x80
            opt += _vli(len(part))
        core = bytes([bflags]) + opt + bytes([0x21, 0x01, 2 * (k - 12)])
        hsize = (1 + len(core) + 4 + 3) // 4 * 4 + 4 * rng.randrange(2)     # sometimes extra header padding
        hdr = bytes([hsize // 4 - 1]) + core
        hdr = hdr.ljust(hsize - 4, b"\0")
        hdr += struct.pack("<I", crc32_bitwise(hdr))
        fields["blockhdr%d" % i] = (len(data), hsize)
        data += hdr
        fields["blockdata%d_head" % i] = (len(data), min(4, len(body)))
        data += body
        pad = (-len(body)) % 4
        if pad:
            fields["blockpad%d" % i] = (len(data), pad)
        data += b"\0" * pad
        if csz:
            fields["check%d" % i] = (len(data), 4)
            data += struct.pack("<I", crc32_bitwise(part))
        records.append((hsize + len(body) + csz, len(part)))
    ipos = len(data)
    idx = b"\0" + _vli(len(records)) + b"".join(_vli(u) + _vli(n) for u, n in records)
    idx += b"\0" * ((-len(idx)) % 4)
    idx += struct.pack("<I", crc32_bitwise(idx))
    fields["index"] = (ipos, len(idx))
    data += idx
    tail = struct.pack("<I", len(idx) // 4 - 1) + flags
    fields["footer"] = (len(data), 12)
    data += struct.pack("<I", crc32_bitwise(tail)) + tail + b"YZ"
    data = bytes(data)
    if lzma.decompress(data, format=lzma.FORMAT_XZ) != payload:
        raise RuntimeError("make_xz_multi: liblzma does not decode our container to the payload")
    return _arch("xz", "multi%d-c%d" % (len(parts), check), "song.xz", data, payload, fields)


def xz_gate_only(rng, payload):
    """xz streams whose check type carries no check libxmp implements (none / CRC64 / SHA-256: the Check field is
    skipped): outside the property and the oracle, inside the container model's correspondence."""
    out = [make_xz_multi(rng, payload, check=0)]
    for chk, nm, sz in ((lzma.CHECK_NONE, "none", 0), (lzma.CHECK_CRC64, "crc64", 8), (lzma.CHECK_SHA256, "sha256", 32)):
        data = lzma.compress(payload, format=lzma.FORMAT_XZ, check=chk, preset=rng.randrange(4))
        n = len(data)
        bsz = (struct.unpack("<I", data[n - 8:n - 4])[0] + 1) * 4
        idx = n - 12 - bsz
        bh = (data[12] + 1) * 4
        f = {"streamhdr": (0, 12), "blockhdr0": (12, bh), "index": (idx, bsz), "footer": (n - 12, 12)}
        if sz:
            f["check0"] = (idx - sz, sz)
        a = _arch("xz", "lzma-" + nm, "song.xz", data, payload, f)
        out.append(a)
    for a in out:
        a["oracle"] = False
    return out


README = (b"This archive contains a music module.\r\nIt was packed for the C09 corruption check of the libxmp "
          b"verification framework.\r\n" + b"Nothing to see here, this is only filler text so that the member is "
          b"long enough.\r\n" * 3)


class _Unseekable:
    """write-only sink without seek/tell: zipfile then writes local headers with zero CRC/sizes, general
    purpose bit 3, and a data descriptor after each member"""

    def __init__(self):
        self.buf = bytearray()

    def write(self, b):
        self.buf += b
        return len(b)

    def flush(self):
        pass


def make_zip(rng, payload, method=None, streamed=False):
    method = rng.choice([zipfile.ZIP_STORED, zipfile.ZIP_DEFLATED]) if method is None else method
    comp = rng.choice(["none", "before", "after", "both"])
    bio = _Unseekable() if streamed else io.BytesIO()
    with zipfile.ZipFile(bio, "w") as z:
        def add(name, data, m):
            zi = zipfile.ZipInfo(name, date_time=(1996, 1, 1, 0, 0, 0))
            zi.compress_type = m
            z.writestr(zi, data)
        if comp in ("before", "both"):
            add("README", README, zipfile.ZIP_DEFLATED)
        add("song.mod", payload, method)
        if comp in ("after", "both"):
            add("file_id.diz", README, zipfile.ZIP_STORED)
    data = bytes(bio.buf) if streamed else bio.getvalue()
    eocd = data.rindex(b"PK\x05\x06")
    cd = struct.unpack("<I", data[eocd + 16:eocd + 20])[0]
    fields = {"eocd": (eocd, 22)}
    p = cd
    st = None
    while data[p:p + 4] == b"PK\x01\x02":
        nl, el, cl = struct.unpack("<HHH", data[p + 28:p + 34])
        name = data[p + 46:p + 46 + nl]
        if name == b"song.mod":
            lho = struct.unpack("<I", data[p + 42:p + 46])[0]
            lnl, lel = struct.unpack("<HH", data[lho + 26:lho + 30])
            fields.update({"cdh": (p, 46), "cdh_name": (p + 46, nl), "lh": (lho, 30 + lnl)})
            st = {"cdh": p, "lho": lho, "data": lho + 30 + lnl + lel}
            if streamed:
                csz = struct.unpack("<I", data[p + 20:p + 24])[0]
                fields["datadesc"] = (st["data"] + csz, 16)
        else:
            fields["cdh_other_%d" % p] = (p + 28, 18 + nl)
        p += 46 + nl + el + cl
    return _arch("zip", "%s-%s%s" % ("stored" if method == zipfile.ZIP_STORED else "deflate", comp, "-dd" if streamed else ""),
                 "song.zip", data,
                 payload, fields, extra={"zip": st})


def rle90(data):
    out = bytearray()
    i, n = 0, len(data)
    while i < n:
        x = data[i]
        run = 1
        while i + run < n and data[i + run] == x:
            run += 1
        out.append(x)
        if x == 0x90:
            out.append(0)
        rem = run - 1
        while rem > 0:
            if rem < 3:
                for _ in range(rem):
                    out.append(x)
                    if x == 0x90:
                        out.append(0)
                rem = 0
            else:
                k = min(rem, 254)
                out += bytes([0x90, k + 1])
                rem -= k
        i += run
    return bytes(out)


def make_arc(rng, payload, method=None):
    method = rng.choice([1, 2, 3]) if method is None else method
    body = rle90(payload) if method == 3 else payload
    name = b"SONG.MOD".ljust(13, b"\0")
    hdr = bytes([0x1A, method]) + name + struct.pack("<IHHH", len(body), 0x2A21, 0x6000, crc16_arc(payload))
    if method != 1:
        hdr += struct.pack("<I", len(payload))
    data = hdr + body + b"\x1a\x00"
    fields = {"magic": (0, 2), "name": (2, 13), "csize": (15, 4), "crc16": (23, 2)}
    if method != 1:
        fields["usize"] = (25, 4)
    return _arch("arc", "m%d" % method, "song.arc", data, payload, fields, crc16=True,
                 extra={"crc_at": 23})


def make_arcfs(rng, payload, method=None, allow_zero=False):
    method = rng.choice([2, 3]) if method is None else method
    if crc16_arc(payload) == 0 and not allow_zero:
        return None
    body = rle90(payload) if method == 3 else payload
    pad = rng.choice([0, 0, 4, 36])
    nent = 2
    data_offset = 96 + 36 * nent + pad
    hdr = b"Archive\0" + struct.pack("<IIIII", 36 * nent, data_offset, 200, 200, 0x0A)
    hdr = hdr.ljust(96, b"\0")
    ent = bytearray(36)
    ent[0] = 0x80 | method
    ent[1:12] = b"song_mod".ljust(11, b"\0")
    ent[12:16] = struct.pack("<I", len(payload))
    ent[16:24] = struct.pack("<II", 0xFFFFFF00 | 0x3F, 0x12345678)
    ent[24] = 0x03
    ent[25] = 0
    ent[26:28] = struct.pack("<H", crc16_arc(payload))
    ent[28:32] = struct.pack("<I", len(body))
    ent[32:36] = struct.pack("<I", 0)
    data = hdr + bytes(ent) + bytes(36) + b"\0" * pad + body
    return _arch("arcfs", "m%d" % method, "song.arcfs", data, payload,
                 {"magic": (0, 8), "hdr": (8, 20), "entry": (96, 36)}, crc16=True, extra={"crc_at": 96 + 26})


def make_lzx_stored(rng, payload):
    hdr = b"LZX" + bytes([0, 0x0C, 0, 0x0A, 0x04, 0, 0])
    name = b"song.mod"
    ent = bytearray(31)
    ent[2:6] = struct.pack("<I", len(payload))
    ent[6:10] = struct.pack("<I", len(payload))
    ent[10] = 0x0A
    ent[11] = 0
    ent[12] = 0
    ent[14] = 0
    ent[15] = 0x0A
    ent[18:22] = struct.pack(">I", rng.randrange(2 ** 32))
    ent[22:26] = struct.pack("<I", crc32_bitwise(payload))
    ent[30] = len(name)
    ent[26:30] = struct.pack("<I", crc32_bitwise(bytes(ent) + name))
    data = hdr + bytes(ent) + name + payload
    return _arch("lzx", "stored", "song.lzx", data, payload,
                 {"magic": (0, 10), "entry": (10, 31), "name": (41, len(name))})


# --------------------------------------------------------------------------
# boundary check values: payloads whose check code is 0 / all ones
# --------------------------------------------------------------------------

def force_tail(crcfn, data, nbytes, target):
    """`data` with its last `nbytes` bytes chosen such that crcfn(result) == target.  Every CRC here is affine over
    GF(2) in the message bits and a bijection on the last `width` bits: solve the 8*nbytes x width system."""
    prefix = bytes(data[:len(data) - nbytes])
    n = 8 * nbytes
    base = crcfn(prefix + bytes(nbytes))
    cols = [crcfn(prefix + (1 << i).to_bytes(nbytes, "little")) ^ base for i in range(n)]
    want = target ^ base
    # Gaussian elimination: rows = output bits, unknowns = message bits
    rows = []
    for bit in range(n):
        coeff = 0
        for i in range(n):
            if (cols[i] >> bit) & 1:
                coeff |= 1 << i
        rows.append([coeff, (want >> bit) & 1])
    x = 0
    piv = []
    r = 0
    for c in range(n):
        k = next((j for j in range(r, len(rows)) if (rows[j][0] >> c) & 1), None)
        if k is None:
            continue
        rows[r], rows[k] = rows[k], rows[r]
        for j in range(len(rows)):
            if j != r and (rows[j][0] >> c) & 1:
                rows[j][0] ^= rows[r][0]
                rows[j][1] ^= rows[r][1]
        piv.append((r, c))
        r += 1
    for (ri, c) in piv:
        if rows[ri][1]:
            x |= 1 << c
    out = prefix + x.to_bytes(nbytes, "little")
    if crcfn(out) != target:
        raise RuntimeError("force_tail: no solution")
    return out


CHECK_FNS = {"crc16": (crc16_arc, 2, (0x0000, 0xFFFF)),
             "crc32": (crc32_bitwise, 4, (0x00000000, 0xFFFFFFFF)),
             "bz": (crc32_bz, 4, (0x00000000, 0xFFFFFFFF))}


def boundary_payloads(rng):
    """[(kind, target, payload)]: tiny valid modules whose last sample bytes are chosen so that the check code of the
    whole payload is 0 resp. all ones (the values a `stored == 0 -> skip` or `~stored` slip would mistreat)."""
    out = []
    for kind, (fn, nb, targets) in sorted(CHECK_FNS.items()):
        for t in targets:
            p = force_tail(fn, synth_mod(rng, tiny=True), nb, t)
            out.append((kind, t, p))
    return out


def boundary_archives(rng):
    """archives of the boundary payloads in every format whose gate compares that check code"""
    out = []
    for kind, t, p in boundary_payloads(rng):
        tag = "chk%0*x" % (4 if kind == "crc16" else 8, t)
        if kind == "crc16":
            arcs = [make_arc(rng, p, 1), make_arc(rng, p, 2), make_arc(rng, p, 3),
                    make_arcfs(rng, p, 2, allow_zero=True), make_arcfs(rng, p, 3, allow_zero=True)]
        elif kind == "crc32":
            arcs = [make_gzip(rng, p), make_gzip(rng, p, level=0), make_zip(rng, p, zipfile.ZIP_STORED),
                    make_zip(rng, p, zipfile.ZIP_DEFLATED), make_xz(rng, p),
                    make_xz_multi(rng, p, nblocks=1, stored=[True]), make_lzx_stored(rng, p)]
        else:
            arcs = [make_bz2(rng, p, level=1)]
        for a in arcs:
            if a is None:
                continue
            a["variant"] += "-" + tag
            a["pname"] = "boundary-%s-%s" % (kind, tag)
            a["budget"] = (60, 25, 15)
            if a["fmt"] == "arcfs" and t == 0:
                a["oracle"] = False          # stored CRC 0 = "not recorded", unchecked by design (arcfs.c): model tie only
            out.append(a)
    return out


# --------------------------------------------------------------------------
# archives with several loadable members
# --------------------------------------------------------------------------

TEXT = b"this member is not a module\r\n" * 3


def _arc_entry(name, payload, method):
    body = rle90(payload) if method == 3 else payload
    hdr = bytes([0x1A, method]) + name.ljust(13, b"\0") + struct.pack("<IHHH", len(body), 0x2A21, 0x6000, crc16_arc(payload))
    if method != 1:
        hdr += struct.pack("<I", len(payload))
    return hdr, body


def make_arc_multi(rng, payloads):
    """ARC: an excluded text member, then the modules; libxmp takes the first loadable one"""
    data = bytearray()
    fields = {}
    ents = [(b"README", TEXT, 2)] + [(b"SONG%d.MOD" % i, p, rng.choice([2, 3])) for i, p in enumerate(payloads)]
    for k, (name, p, m) in enumerate(ents):
        hdr, body = _arc_entry(name, p, m)
        fields["hdr%d" % k] = (len(data), len(hdr))
        data += hdr
        fields["blockdata%d_head" % k] = (len(data), min(8, len(body)))
        data += body
    data += b"\x1a\x00"
    return _arch("arc", "multi%d" % len(payloads), "songs.arc", bytes(data), payloads[0], fields, crc16=True,
                 extra={"members": [md5hex(p) for p in payloads[1:]]})


def make_arcfs_multi(rng, payloads):
    ents = [(b"README", TEXT, 2)] + [(b"song%d_mod" % i, p, rng.choice([2, 3])) for i, p in enumerate(payloads)]
    if any(crc16_arc(p) == 0 for _, p, _ in ents):
        return None
    nent = len(ents) + 1
    data_offset = 96 + 36 * nent
    hdr = (b"Archive\0" + struct.pack("<IIIII", 36 * nent, data_offset, 200, 200, 0x0A)).ljust(96, b"\0")
    table, area = bytearray(), bytearray()
    fields = {"magic": (0, 8), "hdr": (8, 20)}
    for k, (name, p, m) in enumerate(ents):
        body = rle90(p) if m == 3 else p
        ent = bytearray(36)
        ent[0] = 0x80 | m
        ent[1:12] = name.ljust(11, b"\0")
        ent[12:16] = struct.pack("<I", len(p))
        ent[16:24] = struct.pack("<II", 0xFFFFFF00 | 0x3F, 0x12345678)
        ent[24] = 0x03
        ent[26:28] = struct.pack("<H", crc16_arc(p))
        ent[28:32] = struct.pack("<I", len(body))
        ent[32:36] = struct.pack("<I", len(area))
        fields["entry%d" % k] = (96 + 36 * k, 36)
        fields["blockdata%d_head" % k] = (data_offset + len(area), min(8, len(body)))
        table += ent
        area += body
    data = hdr + bytes(table) + bytes(36) + bytes(area)
    return _arch("arcfs", "multi%d" % len(payloads), "songs.arcfs", data, payloads[0], fields, crc16=True,
                 extra={"members": [md5hex(p) for p in payloads[1:]]})


def make_lzx_multi(rng, payloads):
    data = bytearray(b"LZX" + bytes([0, 0x0C, 0, 0x0A, 0x04, 0, 0]))
    fields = {"magic": (0, 10)}
    ents = [(b"song.txt", TEXT)] + [(b"song%d.mod" % i, p) for i, p in enumerate(payloads)]
    for k, (name, p) in enumerate(ents):
        ent = bytearray(31)
        ent[2:6] = struct.pack("<I", len(p))
        ent[6:10] = struct.pack("<I", len(p))
        ent[10] = 0x0A
        ent[15] = 0x0A
        ent[18:22] = struct.pack(">I", rng.randrange(2 ** 32))
        ent[22:26] = struct.pack("<I", crc32_bitwise(p))
        ent[30] = len(name)
        ent[26:30] = struct.pack("<I", crc32_bitwise(bytes(ent) + name))
        fields["entry%d" % k] = (len(data), 31)
        data += ent + name
        fields["blockdata%d_head" % k] = (len(data), min(8, len(p)))
        data += p
    return _arch("lzx", "multi%d" % len(payloads), "songs.lzx", bytes(data), payloads[0], fields,
                 extra={"members": [md5hex(p) for p in payloads[1:]]})


def make_zip_multi(rng, payloads, streamed=False):
    bio = _Unseekable() if streamed else io.BytesIO()
    names = []
    with zipfile.ZipFile(bio, "w") as z:
        def add(name, data, m):
            zi = zipfile.ZipInfo(name, date_time=(1996, 1, 1, 0, 0, 0))
            zi.compress_type = m
            z.writestr(zi, data)
            names.append(name)
        add("README", README, zipfile.ZIP_DEFLATED)
        for i, p in enumerate(payloads):
            add("song%d.mod" % i, p, rng.choice([zipfile.ZIP_STORED, zipfile.ZIP_DEFLATED]))
            if i == 0:
                add("file_id.diz", README, zipfile.ZIP_STORED)
    data = bytes(bio.buf) if streamed else bio.getvalue()
    eocd = data.rindex(b"PK\x05\x06")
    cd = struct.unpack("<I", data[eocd + 16:eocd + 20])[0]
    fields = {"eocd": (eocd, 22)}
    p = cd
    st = None
    k = 0
    while data[p:p + 4] == b"PK\x01\x02":
        nl, el, cl = struct.unpack("<HHH", data[p + 28:p + 34])
        name = data[p + 46:p + 46 + nl]
        lho = struct.unpack("<I", data[p + 42:p + 46])[0]
        lnl, lel = struct.unpack("<HH", data[lho + 26:lho + 30])
        if name == b"song0.mod":
            fields.update({"cdh": (p, 46), "cdh_name": (p + 46, nl), "lh": (lho, 30 + lnl)})
            st = {"cdh": p, "lho": lho, "data": lho + 30 + lnl + lel}
            csz = struct.unpack("<I", data[p + 20:p + 24])[0]
            fields["blockdata0_head"] = (st["data"], min(8, csz))
            fields["blockdata0_tail"] = (st["data"] + max(0, csz - 8), min(8, csz))
        else:
            fields["cdh%d" % k] = (p, 46)
        k += 1
        p += 46 + nl + el + cl
    return _arch("zip", "multi%d%s" % (len(payloads), "-dd" if streamed else ""), "songs.zip", data, payloads[0], fields,
                 extra={"zip": st, "members": [md5hex(q) for q in payloads[1:]]})


def multi_member_archives(rng, payloads):
    """2-3 loadable modules plus non-module members, in every format that can hold several members"""
    ps = list(payloads)
    out = [make_zip_multi(rng, ps), make_zip_multi(rng, ps[:2], streamed=True), make_arc_multi(rng, ps),
           make_arcfs_multi(rng, ps), make_lzx_multi(rng, ps[:2])]
    out = [a for a in out if a is not None]
    for a in out:
        a["pname"] = "multi"
        a["budget"] = (150, 50, 20)
    return out


# --------------------------------------------------------------------------
# members at every nesting depth of containers that have directories
# --------------------------------------------------------------------------

def _locate(data, blob, what):
    i = data.find(blob)
    if i < 0 or data.find(blob, i + 1) >= 0:
        raise RuntimeError("nested writer: cannot locate %s uniquely" % what)
    return i


def _nested_fields(data, hdr_len, entry, cdata_len):
    """fields of the (single) loadable member `entry` (header + packed data) inside `data`"""
    o = _locate(data, entry, "member")
    return {"hdrN": (o, hdr_len), "blockdataN_head": (o + hdr_len, min(8, cdata_len)),
            "blockdataN_tail": (o + hdr_len + max(0, cdata_len - 8), min(8, cdata_len))}, o


def make_arc_nested(rng, payload, spark, depth, method=None):
    """ARC 6 (type 30 directory records, closed by type 31) or Spark (method 0x82 + filetype &DDC) archive written by
    tools/c08_writers.arc_tree: an excluded text member, then `depth` nested directories, the module inside the
    innermost one (depth 0 = flat)."""
    import c08_writers as W
    method = rng.choice([2, 3, 4, 8]) if method is None else method
    node = [("file", "SONG.MOD", payload, method)]
    for d in range(depth):
        node = [("file", "NOTE%d.TXT" % d, TEXT, 2), ("dir", "DIR%d" % d, node)]
    nodes = [("file", "README", TEXT, 2)] + node
    data = W.arc_tree(nodes, spark=spark)
    entry = W.arc_entry("SONG.MOD", payload, method, spark)
    hlen = 29 + (12 if spark else 0)
    fields, o = _nested_fields(data, hlen, entry, len(entry) - hlen)
    # the directory records on the way down (their CRC-16 of the nested archive is never verified by arc_read)
    k = 0
    p = 0
    while True:
        p = data.find(b"\x1a\x82" if spark else b"\x1a\x1e", p)
        if p < 0 or p >= o:
            break
        if data[p + 2:p + 5] == b"DIR":
            fields["dirhdr%d" % k] = (p, hlen)
            k += 1
        p += 1
    return _arch("arc", "%s-depth%d-m%d" % ("spark" if spark else "arc6", depth, method), "nested.arc", data, payload, fields,
                 crc16=True, extra={"crc_at": o + 23, "nested": depth})


def make_arcfs_nested(rng, payload, depth, method=None):
    """ArcFS: `depth` directory entries (bit 31 of the info word) precede the module's entry in the entry table"""
    method = rng.choice([2, 3]) if method is None else method
    if crc16_arc(payload) == 0:
        return None
    body = rle90(payload) if method == 3 else payload
    ents = []

    def entry(m, name, usize, crc, csize, info):
        e = bytearray(36)
        e[0] = 0x80 | m
        e[1:12] = name.ljust(11, b"\0")
        e[12:16] = struct.pack("<I", usize)
        e[16:24] = struct.pack("<II", 0xFFFFFF00 | 0x3F, 0x12345678)
        e[24] = 0x03
        e[26:28] = struct.pack("<H", crc)
        e[28:32] = struct.pack("<I", csize)
        e[32:36] = struct.pack("<I", info)
        return bytes(e)
    ents.append(entry(2, b"README", len(TEXT), crc16_arc(TEXT), len(TEXT), 0))
    for d in range(depth):
        ents.append(entry(2, b"dir%d" % d, 0, 0, 0, 0x80000000 | (36 * (len(ents) + 1))))
    mod_at = 96 + 36 * len(ents)
    ents.append(entry(method, b"song_mod", len(payload), crc16_arc(payload), len(body), len(TEXT)))
    for d in range(depth):
        ents.append(bytes(36))                       # end-of-directory markers
    ents.append(bytes(36))
    data_offset = 96 + 36 * len(ents)
    hdr = (b"Archive\0" + struct.pack("<IIIII", 36 * len(ents), data_offset, 200, 200, 0x0A)).ljust(96, b"\0")
    data = hdr + b"".join(ents) + TEXT + body
    dstart = data_offset + len(TEXT)
    fields = {"magic": (0, 8), "hdr": (8, 20), "entryN": (mod_at, 36), "blockdataN_head": (dstart, min(8, len(body))),
              "blockdataN_tail": (dstart + max(0, len(body) - 8), min(8, len(body)))}
    for d in range(depth):
        fields["direntry%d" % d] = (96 + 36 * (1 + d), 36)
    return _arch("arcfs", "depth%d-m%d" % (depth, method), "nested.arcfs", data, payload, fields, crc16=True,
                 extra={"crc_at": mod_at + 26, "nested": depth})


def make_zip_nested(rng, payload, depth, streamed=False):
    import c08_writers as W
    path = "".join("dir%d/" % d for d in range(depth))
    members = [("README", README, "deflated")]
    acc = ""
    for d in range(depth):
        acc += "dir%d/" % d
        if not streamed:
            members.append((acc, b"", None))
    meth = rng.choice(["stored", "deflated"])
    members.append((path + "song.mod", payload, meth))
    data = W.zip_streamed(members) if streamed else W.zip_archive(members)
    eocd = data.rindex(b"PK\x05\x06")
    p = struct.unpack("<I", data[eocd + 16:eocd + 20])[0]
    fields = {"eocd": (eocd, 22)}
    st = None
    while data[p:p + 4] == b"PK\x01\x02":
        nl, el, cl = struct.unpack("<HHH", data[p + 28:p + 34])
        if data[p + 46:p + 46 + nl].endswith(b"song.mod"):
            lho = struct.unpack("<I", data[p + 42:p + 46])[0]
            lnl, lel = struct.unpack("<HH", data[lho + 26:lho + 30])
            csz = struct.unpack("<I", data[p + 20:p + 24])[0]
            st = {"cdh": p, "lho": lho, "data": lho + 30 + lnl + lel}
            fields.update({"cdh": (p, 46), "lh": (lho, 30), "blockdataN_head": (st["data"], min(8, csz)),
                           "blockdataN_tail": (st["data"] + max(0, csz - 8), min(8, csz))})
        p += 46 + nl + el + cl
    return _arch("zip", "depth%d-%s%s" % (depth, meth, "-dd" if streamed else ""), "nested.zip", data, payload, fields,
                 extra={"zip": st, "nested": depth})


def make_lzx_nested(rng, payload, depth):
    import c08_writers as W
    path = "".join("dir%d/" % d for d in range(depth))
    data = W.lzx_archive([("song.txt", TEXT), (path + "song.mod", payload)])
    o = data.rindex(payload)
    hdr = o - 31 - len(path + "song.mod")
    return _arch("lzx", "depth%d" % depth, "nested.lzx", data, payload,
                 {"magic": (0, 10), "entryN": (hdr, 31), "blockdataN_head": (o, 8), "blockdataN_tail": (o + len(payload) - 8, 8)},
                 extra={"nested": depth})


def make_lha_nested(rng, payload, depth, level):
    """LHA with -lhd- directory entries and a path prefix: libxmp/lhasa never compares the member's data CRC-16, so a
    damaged member is *unverifiable* (counted, not a violation); still swept for aborts"""
    import c08_writers as W
    members = [("README", TEXT)]
    acc = ""
    for d in range(depth):
        acc += "dir%d/" % d
        members.append((acc, b""))
    members.append(((acc if level == 0 else "") + "song.mod", payload))
    data = W.lha_archive(members, level=level)
    o = data.rindex(payload)
    a = _arch("lha", "depth%d-l%d" % (depth, level), "nested.lha", data, payload,
              {"blockdataN_head": (o, 8), "blockdataN_tail": (o + len(payload) - 8, 8)}, extra={"nested": depth})
    a["unverifiable"] = True
    return a


def nested_archives(rng, payload, quick=True):
    """the module as a member at nesting depth 0, 1, 2 of every container that has directories"""
    out = []
    for spark in (False, True):
        for depth in (1, 2):
            out.append(make_arc_nested(rng, payload, spark, depth, method=2))               # stored: only the CRC-16 can notice
            out.append(make_arc_nested(rng, payload, spark, depth, method=rng.choice([3, 4, 8])))
    out.append(make_arc_nested(rng, payload, False, 0, method=2))
    out.append(make_arc_nested(rng, payload, True, 0, method=2))
    for depth in (1, 2):
        out.append(make_arcfs_nested(rng, payload, depth, method=2))
        out.append(make_zip_nested(rng, payload, depth))
        out.append(make_lzx_nested(rng, payload, depth))
        out.append(make_lha_nested(rng, payload, depth, level=depth - 1))
    out.append(make_zip_nested(rng, payload, 1, streamed=True))
    out = [a for a in out if a is not None]
    for a in out:
        a["pname"] = "nested"
        a["budget"] = (120, 40, 15)
    return out


SEEDS = [("arc", "arc-method2", True), ("arc", "arc-method3", True), ("arc", "arc-method4", True),
         ("arc", "arc-method8-rle", True), ("arc", "arc-method9", True), ("arcfs", "arcfsdata", True),
         ("lzx", "lzxdata", False), ("lzx", "lzxstore", False),
         # two loadable members: damage to the first entry legitimately selects the second -> gate correspondence only
         ("lzx", "lzxmerge", False, "gates-only"),
         ("zip", "ponylips.64.zip", False), ("gzip", "adlibsp.rad.gz", False), ("gzip", "gzipdata", False),
         ("bzip2", "bzip2data", False), ("xz", "xzdata", False)]


def seed_archives(max_size=400000):
    out = []
    for ent in SEEDS:
        fmt, name, c16 = ent[:3]
        p = os.path.join(vlib.REPO, "test-dev", "data", name)
        try:
            data = open(p, "rb").read()
        except OSError:
            continue
        if len(data) > max_size:
            continue
        a = _arch(fmt, "repo:" + name, name, data, None, {}, crc16=c16)
        a["oracle"] = len(ent) < 4
        if fmt == "xz" and (len(data) < 12 or data[7] != 1):
            continue                 # check type other than CRC-32: no implemented check
        if fmt == "arcfs" and len(data) >= 132 and data[96 + 26] == 0 and data[96 + 27] == 0:
            a["oracle"] = False      # stored CRC 0 = unchecked by design (arcfs.c): carries no check
        if fmt == "arcfs":
            a["crc_at"] = 96 + 26
        if fmt == "arc":
            a["crc_at"] = 23
        out.append(a)
    return out


def all_writers(rng, payload):
    out = [make_gzip(rng, payload), make_gzip(rng, payload, level=0), make_bz2(rng, payload), make_xz(rng, payload),
           make_xz_multi(rng, payload),
           make_zip(rng, payload, zipfile.ZIP_STORED), make_zip(rng, payload, zipfile.ZIP_DEFLATED),
           make_zip(rng, payload, streamed=True),
           make_arc(rng, payload, 2), make_arc(rng, payload, 3), make_arc(rng, payload, 1),
           make_arcfs(rng, payload, 2), make_arcfs(rng, payload, 3), make_lzx_stored(rng, payload)]
    return [a for a in out if a is not None and len(a["data"]) >= 100]


# --------------------------------------------------------------------------
# faults
# --------------------------------------------------------------------------

def gen_faults(arch, tier, rng, budget=None):
    """List of fault tuples, first ("none",)."""
    data = arch["data"]
    n = len(data)
    faults = [("none",)]
    seen = set()

    def add(f):
        if f not in seen:
            seen.add(f)
            faults.append(f)

    def subs(off, k):
        cur = data[off]
        vals = [v for v in (0x00, 0xFF) if v != cur]
        while len(vals) < k:
            v = rng.randrange(256)
            if v != cur and v not in vals:
                vals.append(v)
        for v in vals[:k]:
            add(("sub", off, v))

    if tier == "thorough" and n <= 2048:
        for off in range(n):
            for bit in range(8):
                add(("flip", off, bit))
            subs(off, 3)
        for ln in range(n):
            add(("trunc", ln))
        return faults
    for (off, ln) in arch["fields"].values():
        for o in range(off, min(off + ln, n)):
            for bit in range(8):
                add(("flip", o, bit))
            subs(o, 4)
    # always: the first bytes and the last bytes of the file (end of the packed data, trailers, end markers)
    for o in list(range(0, min(4, n))) + list(range(max(0, n - 16), n)):
        for bit in range(8):
            add(("flip", o, bit))
    if budget is None:
        budget = (150, 60, 40) if tier == "quick" else (1500, 500, 300)
    nf, ns, nt = budget
    for _ in range(nf):
        add(("flip", rng.randrange(n), rng.randrange(8)))
    for _ in range(ns):
        subs(rng.randrange(n), 1)
    for k in range(1, 13):
        if n - k >= 0:
            add(("trunc", n - k))
    for _ in range(nt):
        add(("trunc", rng.randrange(n)))
    return faults


def xz_consistent_edits(arch, rng, per_region=6):
    """CRC-consistent edits of an xz container: one bit flipped inside a CRC-32-protected region (Stream Flags, a
    Block Header, the Index, the footer's Backward Size + flags) and that region's stored CRC-32 recomputed
    (bitwise python CRC).  They reach the checks that sit BEHIND the CRCs (size fields, flag comparison, Backward
    Size, Index records vs blocks).  Outside the property's fault class: correspondence only."""
    d = arch["data"]
    regions = []
    for name, (off, ln) in sorted(arch["fields"].items()):
        if name == "streamhdr":
            regions.append((6, 2, 8))
        elif name.startswith("blockhdr"):
            regions.append((off, ln - 4, off + ln - 4))
        elif name == "index":
            regions.append((off, ln - 4, off + ln - 4))
        elif name == "footer":
            regions.append((off + 4, 6, off))
    out = []
    for (ro, rl, co) in regions:
        picks = [(o, b) for o in range(ro, ro + rl) for b in range(8)]
        if len(picks) > per_region * 8:
            picks = rng.sample(picks, per_region * 8)
        for o, b in picks:
            m = bytearray(d[ro:ro + rl])
            m[o - ro] ^= 1 << b
            crc = struct.pack("<I", crc32_bitwise(bytes(m)))
            out.append(("msub", ((o, m[o - ro]),) + tuple((co + k, crc[k]) for k in range(4))))
    return out


def apply_fault(data, f):
    b = bytearray(data)
    if f[0] == "flip":
        b[f[1]] ^= 1 << f[2]
    elif f[0] == "sub":
        b[f[1]] = f[2]
    elif f[0] == "trunc":
        b = b[:f[1]]
    elif f[0] == "msub":
        # several substitutions at once ((off, val), ...): used only for CRC-consistent edits in the gate correspondence
        for off, val in f[1]:
            b[off] = val
    return bytes(b)


def fault_line(f):
    return " ".join(str(x) for x in f)


def md5hex(b):
    return hashlib.md5(b).hexdigest()
