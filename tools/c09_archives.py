#!/usr/bin/env python3
"""C09 helpers: independent archive writers, payload generators, fault enumeration.

Encoders are independent of libxmp: python's zlib / bz2 / lzma / zipfile (C libraries zlib,
libbz2, liblzma) and small writers of our own for ARC (stored, RLE90), ArcFS (stored, RLE90)
and LZX (stored), whose check codes are computed by the *bitwise* Python CRCs below (not by any
table of libxmp).
"""
import bz2
import hashlib
import io
import lzma
import os
import struct
import zipfile
import zlib

import vlib


# --------------------------------------------------------------------------
# independent check codes (bitwise)
# --------------------------------------------------------------------------

def crc16_arc(data, crc=0):
    for b in data:
        crc ^= b
        for _ in range(8):
            crc = (crc >> 1) ^ 0xA001 if crc & 1 else crc >> 1
    return crc


def crc32_bitwise(data, crc=0):
    crc ^= 0xFFFFFFFF
    for b in data:
        crc ^= b
        for _ in range(8):
            crc = (crc >> 1) ^ 0xEDB88320 if crc & 1 else crc >> 1
    return crc ^ 0xFFFFFFFF


def crc32_bz(data):
    crc = 0xFFFFFFFF
    for b in data:
        crc ^= b << 24
        for _ in range(8):
            crc = ((crc << 1) ^ 0x04C11DB7) & 0xFFFFFFFF if crc & 0x80000000 else (crc << 1) & 0xFFFFFFFF
    return crc ^ 0xFFFFFFFF


# --------------------------------------------------------------------------
# payloads
# --------------------------------------------------------------------------

PERIODS = [856, 808, 762, 720, 678, 640, 604, 570, 538, 508, 480, 453, 428, 404, 381, 360, 339, 320, 302, 285, 269,
           254, 240, 226, 214, 202, 190, 180, 170, 160, 151, 143, 135, 127, 120, 113]


def synth_mod(rng, compressible=True, tiny=False):
    """A small valid 4-channel ProTracker module (M.K.).  `tiny`: one pattern, one short sample,
    a handful of notes -- deflates to < 256 bytes, so that single-byte faults reach every size field."""
    nsmp = 1 if tiny else rng.randint(1, 4)
    npat = 1 if tiny else rng.randint(1, 2)
    title = ("c09 synth %d" % rng.randrange(10 ** 6)).encode()[:20].ljust(20, b"\0")
    hdr = bytearray(title)
    samples = []
    for i in range(31):
        if i < nsmp:
            n = rng.randint(8, 12 if tiny else 200 if compressible else 600) * 2
            if compressible:
                base = bytes(rng.randrange(256) for _ in range(rng.randint(2, 8)))
                data = (base * (n // len(base) + 1))[:n]
            else:
                data = bytes(rng.randrange(256) for _ in range(n))
            data = b"\0\0" + data[2:]
            samples.append(data)
            name = ("smp%d" % i).encode().ljust(22, b"\0")
            hdr += name + struct.pack(">HBBHH", n // 2, rng.randrange(16), rng.randint(16, 64), 0, 1)
        else:
            hdr += b"\0" * 22 + struct.pack(">HBBHH", 0, 0, 0, 0, 1)
    songlen = rng.randint(1, 4)
    orders = [rng.randrange(npat) for _ in range(songlen)]
    orders[rng.randrange(songlen)] = npat - 1
    hdr += bytes([songlen, 0x7F]) + bytes(orders).ljust(128, b"\0") + b"M.K."
    pats = bytearray()
    for _ in range(npat):
        p = bytearray(1024)
        for _ in range(rng.randint(2, 4) if tiny else rng.randint(4, 24) if compressible else 160):
            row, ch = rng.randrange(64), rng.randrange(4)
            per = rng.choice(PERIODS)
            ins = rng.randint(1, nsmp)
            fx, fp = rng.choice([(0, 0), (0xC, rng.randrange(65)), (0xA, rng.randrange(16)), (0xF, rng.randint(3, 8))])
            o = (row * 4 + ch) * 4
            p[o] = (ins & 0xF0) | (per >> 8)
            p[o + 1] = per & 0xFF
            p[o + 2] = ((ins & 0x0F) << 4) | fx
            p[o + 3] = fp
        pats += p
    return bytes(hdr) + bytes(pats) + b"".join(samples)


ARCHIVE_MAGICS = (b"PK", b"\x1f\x8b", b"BZh", b"\xfd7zXZ", b"LZX", b"Archive\0", b"\x1a", b"PP20", b"ziRCONia", b"XPKF",
                  b"\x1f\x9d", b"S404")


def corpus_candidates(max_size):
    out = []
    for f in vlib.corpus_files():
        try:
            n = os.path.getsize(f)
        except OSError:
            continue
        if 200 <= n <= max_size:
            out.append(f)
    return out


# --------------------------------------------------------------------------
# writers
# --------------------------------------------------------------------------

def _arch(fmt, variant, name, data, payload, fields, crc16=False, extra=None):
    d = {"fmt": fmt, "variant": variant, "name": name, "data": bytes(data), "payload": payload,
         "fields": {k: v for k, v in fields.items() if v[1] > 0}, "crc16": crc16}
    if extra:
        d.update(extra)
    return d


def make_gzip(rng, payload, level=None):
    level = rng.randrange(10) if level is None else level
    flg = 0
    for bit, pct in ((1, 30), (2, 30), (4, 30), (8, 50), (16, 30)):
        if rng.randrange(100) < pct:
            flg |= bit
    hdr = bytearray(b"\x1f\x8b\x08" + bytes([flg]) + struct.pack("<I", rng.randrange(2 ** 32)) +
                    bytes([rng.choice([0, 2, 4]), rng.choice([0, 3, 255])]))
    if flg & 4:
        x = bytes(rng.randrange(256) for _ in range(rng.randrange(0, 12)))
        hdr += struct.pack("<H", len(x)) + x
    if flg & 8:
        hdr += b"song.mod\0"
    if flg & 16:
        hdr += b"made by c09\0"
    if flg & 2:
        hdr += struct.pack("<H", zlib.crc32(bytes(hdr)) & 0xFFFF)
    co = zlib.compressobj(level, zlib.DEFLATED, -15)
    body = co.compress(payload) + co.flush()
    data = bytes(hdr) + body + struct.pack("<II", zlib.crc32(payload) & 0xFFFFFFFF, len(payload) & 0xFFFFFFFF)
    n = len(data)
    return _arch("gzip", "l%d-f%02x" % (level, flg), "song.gz", data, payload,
                 {"magic": (0, 4), "hdr": (4, len(hdr) - 4), "crc32": (n - 8, 4), "isize": (n - 4, 4)},
                 extra={"start": len(hdr)})


def make_bz2(rng, payload, level=None):
    level = rng.randint(1, 9) if level is None else level
    data = bz2.compress(payload, level)
    n = len(data)
    return _arch("bzip2", "l%d" % level, "song.bz2", data, payload,
                 {"magic": (0, 4), "blockhdr": (4, 10), "trailer": (max(0, n - 11), min(11, n))})


def make_xz(rng, payload):
    # (the delta filter is not implemented by libxmp's xz decoder: such streams are refused as a whole)
    if rng.randrange(2) == 0:
        data = lzma.compress(payload, format=lzma.FORMAT_XZ, check=lzma.CHECK_CRC32, preset=rng.randrange(7))
        var = "preset"
    else:
        filt = [{"id": lzma.FILTER_LZMA2, "dict_size": 1 << rng.randint(12, 20), "lc": rng.randint(0, 3), "lp": 0,
                 "pb": rng.randint(0, 2)}]
        data = lzma.compress(payload, format=lzma.FORMAT_XZ, check=lzma.CHECK_CRC32, filters=filt)
        var = "filters"
    n = len(data)
    bsz = (struct.unpack("<I", data[n - 8:n - 4])[0] + 1) * 4     # index size incl. its CRC
    idx = n - 12 - bsz
    bh = (data[12] + 1) * 4
    return _arch("xz", var, "song.xz", data, payload,
                 {"streamhdr": (0, 12), "blockhdr": (12, bh), "check": (idx - 4, 4), "index": (idx, bsz),
                  "footer": (n - 12, 12)})


README = (b"This archive contains a music module.\r\nIt was packed for the C09 corruption check of the libxmp "
          b"verification framework.\r\n" + b"Nothing to see here, this is only filler text so that the member is "
          b"long enough.\r\n" * 3)


def make_zip(rng, payload, method=None):
    method = rng.choice([zipfile.ZIP_STORED, zipfile.ZIP_DEFLATED]) if method is None else method
    comp = rng.choice(["none", "before", "after", "both"])
    bio = io.BytesIO()
    with zipfile.ZipFile(bio, "w") as z:
        def add(name, data, m):
            zi = zipfile.ZipInfo(name, date_time=(1996, 1, 1, 0, 0, 0))
            zi.compress_type = m
            z.writestr(zi, data)
        if comp in ("before", "both"):
            add("README", README, zipfile.ZIP_DEFLATED)
        add("song.mod", payload, method)
        if comp in ("after", "both"):
            add("file_id.diz", README, zipfile.ZIP_STORED)
    data = bio.getvalue()
    eocd = data.rindex(b"PK\x05\x06")
    cd = struct.unpack("<I", data[eocd + 16:eocd + 20])[0]
    fields = {"eocd": (eocd, 22)}
    p = cd
    st = None
    while data[p:p + 4] == b"PK\x01\x02":
        nl, el, cl = struct.unpack("<HHH", data[p + 28:p + 34])
        name = data[p + 46:p + 46 + nl]
        if name == b"song.mod":
            lho = struct.unpack("<I", data[p + 42:p + 46])[0]
            lnl, lel = struct.unpack("<HH", data[lho + 26:lho + 30])
            fields.update({"cdh": (p, 46), "cdh_name": (p + 46, nl), "lh": (lho, 30 + lnl)})
            st = {"cdh": p, "lho": lho, "data": lho + 30 + lnl + lel}
        else:
            fields["cdh_other_%d" % p] = (p + 28, 18 + nl)
        p += 46 + nl + el + cl
    return _arch("zip", "%s-%s" % ("stored" if method == zipfile.ZIP_STORED else "deflate", comp), "song.zip", data,
                 payload, fields, extra={"zip": st})


def rle90(data):
    out = bytearray()
    i, n = 0, len(data)
    while i < n:
        x = data[i]
        run = 1
        while i + run < n and data[i + run] == x:
            run += 1
        out.append(x)
        if x == 0x90:
            out.append(0)
        rem = run - 1
        while rem > 0:
            if rem < 3:
                for _ in range(rem):
                    out.append(x)
                    if x == 0x90:
                        out.append(0)
                rem = 0
            else:
                k = min(rem, 254)
                out += bytes([0x90, k + 1])
                rem -= k
        i += run
    return bytes(out)


def make_arc(rng, payload, method=None):
    method = rng.choice([1, 2, 3]) if method is None else method
    body = rle90(payload) if method == 3 else payload
    name = b"SONG.MOD".ljust(13, b"\0")
    hdr = bytes([0x1A, method]) + name + struct.pack("<IHHH", len(body), 0x2A21, 0x6000, crc16_arc(payload))
    if method != 1:
        hdr += struct.pack("<I", len(payload))
    data = hdr + body + b"\x1a\x00"
    fields = {"magic": (0, 2), "name": (2, 13), "csize": (15, 4), "crc16": (23, 2)}
    if method != 1:
        fields["usize"] = (25, 4)
    return _arch("arc", "m%d" % method, "song.arc", data, payload, fields, crc16=True,
                 extra={"crc_at": 23})


def make_arcfs(rng, payload, method=None):
    method = rng.choice([2, 3]) if method is None else method
    if crc16_arc(payload) == 0:
        return None
    body = rle90(payload) if method == 3 else payload
    pad = rng.choice([0, 0, 4, 36])
    nent = 2
    data_offset = 96 + 36 * nent + pad
    hdr = b"Archive\0" + struct.pack("<IIIII", 36 * nent, data_offset, 200, 200, 0x0A)
    hdr = hdr.ljust(96, b"\0")
    ent = bytearray(36)
    ent[0] = 0x80 | method
    ent[1:12] = b"song_mod".ljust(11, b"\0")
    ent[12:16] = struct.pack("<I", len(payload))
    ent[16:24] = struct.pack("<II", 0xFFFFFF00 | 0x3F, 0x12345678)
    ent[24] = 0x03
    ent[25] = 0
    ent[26:28] = struct.pack("<H", crc16_arc(payload))
    ent[28:32] = struct.pack("<I", len(body))
    ent[32:36] = struct.pack("<I", 0)
    data = hdr + bytes(ent) + bytes(36) + b"\0" * pad + body
    return _arch("arcfs", "m%d" % method, "song.arcfs", data, payload,
                 {"magic": (0, 8), "hdr": (8, 20), "entry": (96, 36)}, crc16=True, extra={"crc_at": 96 + 26})


def make_lzx_stored(rng, payload):
    hdr = b"LZX" + bytes([0, 0x0C, 0, 0x0A, 0x04, 0, 0])
    name = b"song.mod"
    ent = bytearray(31)
    ent[2:6] = struct.pack("<I", len(payload))
    ent[6:10] = struct.pack("<I", len(payload))
    ent[10] = 0x0A
    ent[11] = 0
    ent[12] = 0
    ent[14] = 0
    ent[15] = 0x0A
    ent[18:22] = struct.pack(">I", rng.randrange(2 ** 32))
    ent[22:26] = struct.pack("<I", crc32_bitwise(payload))
    ent[30] = len(name)
    ent[26:30] = struct.pack("<I", crc32_bitwise(bytes(ent) + name))
    data = hdr + bytes(ent) + name + payload
    return _arch("lzx", "stored", "song.lzx", data, payload,
                 {"magic": (0, 10), "entry": (10, 31), "name": (41, len(name))})


SEEDS = [("arc", "arc-method2", True), ("arc", "arc-method3", True), ("arc", "arc-method4", True),
         ("arc", "arc-method8-rle", True), ("arc", "arc-method9", True), ("arcfs", "arcfsdata", True),
         ("lzx", "lzxdata", False), ("lzx", "lzxstore", False),
         # two loadable members: damage to the first entry legitimately selects the second -> gate correspondence only
         ("lzx", "lzxmerge", False, "gates-only"),
         ("zip", "ponylips.64.zip", False), ("gzip", "adlibsp.rad.gz", False), ("gzip", "gzipdata", False),
         ("bzip2", "bzip2data", False), ("xz", "xzdata", False)]


def seed_archives(max_size=400000):
    out = []
    for ent in SEEDS:
        fmt, name, c16 = ent[:3]
        p = os.path.join(vlib.REPO, "test-dev", "data", name)
        try:
            data = open(p, "rb").read()
        except OSError:
            continue
        if len(data) > max_size:
            continue
        a = _arch(fmt, "repo:" + name, name, data, None, {}, crc16=c16)
        a["oracle"] = len(ent) < 4
        if fmt == "xz" and (len(data) < 12 or data[7] != 1):
            continue                 # check type other than CRC-32: no implemented check
        if fmt == "arcfs" and len(data) >= 132 and data[96 + 26] == 0 and data[96 + 27] == 0:
            a["oracle"] = False      # stored CRC 0 = unchecked by design (arcfs.c): carries no check
        if fmt == "arcfs":
            a["crc_at"] = 96 + 26
        if fmt == "arc":
            a["crc_at"] = 23
        out.append(a)
    return out


def all_writers(rng, payload):
    out = [make_gzip(rng, payload), make_gzip(rng, payload, level=0), make_bz2(rng, payload), make_xz(rng, payload),
           make_zip(rng, payload, zipfile.ZIP_STORED), make_zip(rng, payload, zipfile.ZIP_DEFLATED),
           make_arc(rng, payload, 2), make_arc(rng, payload, 3), make_arc(rng, payload, 1),
           make_arcfs(rng, payload, 2), make_arcfs(rng, payload, 3), make_lzx_stored(rng, payload)]
    return [a for a in out if a is not None and len(a["data"]) >= 100]


# --------------------------------------------------------------------------
# faults
# --------------------------------------------------------------------------

def gen_faults(arch, tier, rng, budget=None):
    """List of fault tuples, first ("none",)."""
    data = arch["data"]
    n = len(data)
    faults = [("none",)]
    seen = set()

    def add(f):
        if f not in seen:
            seen.add(f)
            faults.append(f)

    def subs(off, k):
        cur = data[off]
        vals = [v for v in (0x00, 0xFF) if v != cur]
        while len(vals) < k:
            v = rng.randrange(256)
            if v != cur and v not in vals:
                vals.append(v)
        for v in vals[:k]:
            add(("sub", off, v))

    if tier == "thorough" and n <= 2048:
        for off in range(n):
            for bit in range(8):
                add(("flip", off, bit))
            subs(off, 3)
        for ln in range(n):
            add(("trunc", ln))
        return faults
    for (off, ln) in arch["fields"].values():
        for o in range(off, min(off + ln, n)):
            for bit in range(8):
                add(("flip", o, bit))
            subs(o, 4)
    # always: the first bytes and the last bytes of the file (end of the packed data, trailers, end markers)
    for o in list(range(0, min(4, n))) + list(range(max(0, n - 16), n)):
        for bit in range(8):
            add(("flip", o, bit))
    if budget is None:
        budget = (150, 60, 40) if tier == "quick" else (1500, 500, 300)
    nf, ns, nt = budget
    for _ in range(nf):
        add(("flip", rng.randrange(n), rng.randrange(8)))
    for _ in range(ns):
        subs(rng.randrange(n), 1)
    for k in range(1, 13):
        if n - k >= 0:
            add(("trunc", n - k))
    for _ in range(nt):
        add(("trunc", rng.randrange(n)))
    return faults


def apply_fault(data, f):
    b = bytearray(data)
    if f[0] == "flip":
        b[f[1]] ^= 1 << f[2]
    elif f[0] == "sub":
        b[f[1]] = f[2]
    elif f[0] == "trunc":
        b = b[:f[1]]
    return bytes(b)


def fault_line(f):
    return " ".join(str(x) for x in f)


def md5hex(b):
    return hashlib.md5(b).hexdigest()
