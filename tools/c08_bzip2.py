"""C08 / C09 sub-check: the bzip2 decoder (src/depackers/bunzip2.c) against the Lean model XmpModel.Bzip2.

Called by tools/checks/c08.py at the end of its run (`run(ck)`).

proof  : XmpProps.C08Bzip2 (namespace Xmp.Bzip2) over XmpModel.Bzip2: final run-length stage, inverse BWT,
         MTF/RUNA/RUNB stage, canonical decode tables, block and stream round trip, work bounds.
tie    : harness/c08_bzip2.c includes bunzip2.c and calls (1) the depacker entry point libxmp uses and (2) the same
         start_bunzip / write_bunzip_data sequence with the internal status and CRC registers visible; the native
         driver drv_c08b runs the Lean decoder on the same streams.  Streams: python bz2 (levels 1..9), CLI bzip2,
         the independent bit-level writer below (any code lengths / groups / selectors / run counts / header
         fields, valid and invalid), the Lean encoder of the theorems, and mutations of all of them.
"""
import bz2
import os
import re
import subprocess
import sys
import time

import vlib

# ---------------------------------------------------------------------------------------------------------
# an independent bit-level bzip2 writer (small blocks; every field can be forced)
# ---------------------------------------------------------------------------------------------------------

_BZ_TABLE = []
for _i in range(256):
    _c = _i << 24
    for _ in range(8):
        _c = ((_c << 1) ^ 0x04C11DB7) & 0xFFFFFFFF if _c & 0x80000000 else (_c << 1) & 0xFFFFFFFF
    _BZ_TABLE.append(_c)


def bz_crc(data):
    c = 0xFFFFFFFF
    for b in data:
        c = ((c << 8) & 0xFFFFFFFF) ^ _BZ_TABLE[(c >> 24) ^ b]
    return c ^ 0xFFFFFFFF


def bz_combine(total, d):
    return (((total << 1) | (total >> 31)) & 0xFFFFFFFF) ^ d


class BitW:
    def __init__(self):
        self.bits = []

    def put(self, n, v):
        for k in range(n - 1, -1, -1):
            self.bits.append((v >> k) & 1)

    def bytes(self, pad=0):
        b = self.bits + [pad] * ((-len(self.bits)) % 8)
        out = bytearray()
        for i in range(0, len(b), 8):
            v = 0
            for x in b[i:i + 8]:
                v = (v << 1) | x
            out.append(v)
        return bytes(out)


def rle1(data, maxrun=255, split=None):
    """first run-length stage: 4 equal bytes + count byte (0..maxrun-4).  `split(run)` may cut a run shorter."""
    out = bytearray()
    i, n = 0, len(data)
    while i < n:
        j = i
        while j < n and data[j] == data[i] and j - i < maxrun:
            j += 1
        run = j - i
        if split:
            r = max(1, min(run, split(run)))
            if r >= 4:          # a cut is legal only behind a count byte (the decoder's run state resets there)
                run = r
        if run >= 4:
            out += bytes([data[i]]) * 4 + bytes([run - 4])
        else:
            out += bytes([data[i]]) * run
        i += run
    return bytes(out)


def bwt(block):
    """(last column, index of the original rotation) by sorting rotations (small blocks only)"""
    n = len(block)
    if n == 0:
        return b"", 0
    dbl = block + block
    order = sorted(range(n), key=lambda i: (dbl[i:i + n], i))
    return bytes(dbl[i + n - 1] for i in order), order.index(0)


def mtf_rle2(last, symmap=None):
    """symbols of the second stage: RUNA=0, RUNB=1, literals mtfpos+1, EOB = nused+1"""
    used = sorted(set(last) | set(symmap or ()))
    mtf = list(range(len(used)))
    idx = {b: k for k, b in enumerate(used)}
    syms = []
    run = 0

    def flush():
        nonlocal run
        r = run
        while r > 0:
            if r & 1:
                syms.append(0)
                r = (r - 1) >> 1
            else:
                syms.append(1)
                r = (r - 2) >> 1
        run = 0

    for b in last:
        k = mtf.index(idx[b])
        if k == 0:
            run += 1
            continue
        flush()
        syms.append(k + 1)
        mtf.insert(0, mtf.pop(k))
    flush()
    syms.append(len(used) + 1)
    return used, syms


def huff_lengths(freq, maxlen=17):
    """code lengths of a Huffman code for the frequencies (every symbol gets a code; lengths <= maxlen)"""
    import heapq
    n = len(freq)
    f = [max(1, x) for x in freq]
    while True:
        heap = [(w, i, (i,)) for i, w in enumerate(f)]
        heapq.heapify(heap)
        depth = [0] * n
        tick = n
        if n == 1:
            return [1]
        while len(heap) > 1:
            a = heapq.heappop(heap)
            b = heapq.heappop(heap)
            for s in a[2] + b[2]:
                depth[s] += 1
            heapq.heappush(heap, (a[0] + b[0], tick, a[2] + b[2]))
            tick += 1
        if max(depth) <= maxlen:
            return depth
        f = [1 + x // 2 for x in f]


def canon_codes(lengths):
    """canonical code values as the format defines them: by increasing length, then by symbol"""
    code = 0
    out = [None] * len(lengths)
    for ln in range(1, 33):
        for s, l in enumerate(lengths):
            if l == ln:
                out[s] = (code, ln)
                code += 1
        code <<= 1
    return out


def bz_block(payload_block, rng=None, ngroups=2, lengths="huff", sel="cycle", randomised=0, orig=None,
             nsel_extra=0, sel_unary=None, block_crc=None, symmap=None, pre_rle=True, rle_maxrun=255, rle_split=None,
             extra_syms=None, magic=0x314159265359):
    """one compressed block as a bit writer callback: returns (put(bitw), crc of the block's data).
    `lengths`: "huff" | "flat" | int (flat at that length) | list of per-group length lists
    `sel`: "cycle" | "zero" | "random" | list of group numbers
    `sel_unary`: forced list of MTF positions written in unary for the selectors (may be out of range)
    `extra_syms(syms, nused)` -> symbol list actually written (hook for invalid symbol streams)"""
    crc = bz_crc(payload_block) if block_crc is None else block_crc
    d = rle1(payload_block, rle_maxrun, rle_split) if pre_rle else payload_block
    last, optr = bwt(d)
    used, syms = mtf_rle2(last, symmap)
    if extra_syms:
        syms = extra_syms(syms, len(used))
    nsym = len(used) + 2
    nsel = (len(syms) + 49) // 50 + nsel_extra
    if sel == "cycle":
        sels = [k % ngroups for k in range(nsel)]
    elif sel == "zero":
        sels = [0] * nsel
    elif sel == "random":
        sels = [rng.randrange(ngroups) for _ in range(nsel)]
    else:
        sels = list(sel) + [0] * (nsel - len(sel))
        nsel = len(sels)
    # code lengths per group
    if isinstance(lengths, list):
        glens = lengths
    else:
        glens = []
        for g in range(ngroups):
            if lengths == "huff":
                freq = [0] * nsym
                for k, s in enumerate(syms):
                    if k // 50 < len(sels) and sels[k // 50] == g:
                        freq[s] += 1
                glens.append(huff_lengths(freq))
            elif lengths == "flat":
                ln = max(1, (nsym - 1).bit_length())
                glens.append([ln] * nsym)
            else:
                glens.append([int(lengths)] * nsym)
    codes = [canon_codes(gl) for gl in glens]

    def put(w):
        w.put(48, magic)
        w.put(32, crc)
        w.put(1, randomised)
        w.put(24, optr if orig is None else orig)
        # symbol map
        present = set(used)
        hi = 0
        for i in range(16):
            if any((16 * i + j) in present for j in range(16)):
                hi |= 1 << (15 - i)
        w.put(16, hi)
        for i in range(16):
            if hi & (1 << (15 - i)):
                v = 0
                for j in range(16):
                    if (16 * i + j) in present:
                        v |= 1 << (15 - j)
                w.put(16, v)
        w.put(3, ngroups)
        w.put(15, nsel)
        if sel_unary is not None:
            un = list(sel_unary)
        else:
            m = list(range(ngroups))
            un = []
            for s in sels:
                k = m.index(s)
                un.append(k)
                m.insert(0, m.pop(k))
        for k in un:
            for _ in range(k):
                w.put(1, 1)
            w.put(1, 0)
        for gl in glens:
            cur = gl[0]
            w.put(5, cur)
            for l in gl:
                while cur < l:
                    w.put(2, 2)
                    cur += 1
                while cur > l:
                    w.put(2, 3)
                    cur -= 1
                w.put(1, 0)
        for k, s in enumerate(syms):
            g = sels[k // 50] if k // 50 < len(sels) else 0
            g = min(g, len(codes) - 1)
            if s < len(codes[g]) and codes[g][s] is not None:
                c, ln = codes[g][s]
                w.put(ln, c)
    return put, crc


def bz_stream(blocks, level=1, stream_crc=None, trailer=b"", end_magic=0x177245385090, head=b"BZh"):
    """blocks: list of (put, crc) from bz_block"""
    w = BitW()
    for ch in head:
        w.put(8, ch)
    w.put(8, 0x30 + level)
    total = 0
    for put, crc in blocks:
        put(w)
        total = bz_combine(total, crc)
    w.put(48, end_magic)
    w.put(32, total if stream_crc is None else stream_crc)
    return w.bytes() + trailer


def bz_simple(payload, **kw):
    level = kw.pop("level", 1)
    blocksize = kw.pop("blocksize", None)
    if blocksize:
        parts = [payload[i:i + blocksize] for i in range(0, len(payload), blocksize)]
    else:
        parts = [payload] if payload else []
    return bz_stream([bz_block(p, **kw) for p in parts], level=level)


# ---------------------------------------------------------------------------------------------------------
# translator: facts of bunzip2.c the model depends on
# ---------------------------------------------------------------------------------------------------------

class TranslatorError(Exception):
    pass


FACTS_LEAN = os.path.join(vlib.LEAN, "XmpModel", "Gen", "Bzip2Facts.lean")


def read_facts():
    src = open(os.path.join(vlib.REPO, "src", "depackers", "bunzip2.c")).read()
    f = {}
    for name, key in (("MAX_GROUPS", "maxGroups"), ("GROUP_SIZE", "groupSize"), ("MAX_HUFCODE_BITS", "maxHufCodeBits"),
                      ("MAX_SYMBOLS", "maxSymbols"), ("IOBUF_SIZE", "iobufSize")):
        m = re.search(r"^#define\s+%s\s+(\d+)" % name, src, re.M)
        if not m:
            raise TranslatorError("bunzip2.c: #define %s not found" % name)
        f[key] = int(m.group(1))
    import gen_depack_limits
    f["depackLimit"] = gen_depack_limits.const_value("LIBXMP_DEPACK_LIMIT")
    m = re.search(r"bw->writeRun\s*=\s*(-?\d+)\s*;", src)
    if not m:
        raise TranslatorError("bunzip2.c: initial value of bw->writeRun not found")
    f["writeRunInit"] = int(m.group(1))
    m = re.search(r"if\s*\(\s*run\+\+\s*==\s*(\d+)\s*\)", src)
    if not m:
        raise TranslatorError("bunzip2.c: `if (run++ == k)` not found")
    f["runTrigger"] = int(m.group(1))
    m = re.search(r"bw->origPtr\s*=\s*get_bits\(bd,\s*24\)\)\s*(>=|>)\s*bd->dbufSize\)\s*return\s+RETVAL_DATA_ERROR", src)
    if not m:
        raise TranslatorError("bunzip2.c: origPtr range test not recognised")
    f["origPtrEqAccepted"] = (m.group(1) == ">")
    m = re.search(r"for\s*\(\s*jj\s*=\s*0\s*;\s*get_bits\(bd,\s*1\)\s*;\s*jj\+\+\s*\)\s*if\s*\(\s*(jj\s*\+\s*1|jj)\s*>=\s*bd->groupCount\s*\)\s*return\s+RETVAL_DATA_ERROR", src)
    if not m:
        raise TranslatorError("bunzip2.c: selector position test not recognised")
    f["selectorEqAccepted"] = (m.group(1).replace(" ", "") == "jj")
    # the run branch of read_huffman_data: is runPos bounded before `hh += (runPos << nextSym)` ?
    m = re.search(r"if\s*\(\s*!runPos\s*\)\s*\{\s*runPos\s*=\s*1;\s*hh\s*=\s*0;\s*\}(.*?)hh\s*\+=\s*\(runPos\s*<<\s*nextSym\)", src, re.S)
    if not m:
        raise TranslatorError("bunzip2.c: RUNA/RUNB accumulation not recognised")
    between = re.sub(r"/\*.*?\*/", " ", m.group(1), flags=re.S)
    between = re.sub(r"//[^\n]*", " ", between).strip()
    if between == "":
        f["runPosBounded"] = False
    elif re.fullmatch(r"if\s*\(\s*runPos\s*>\s*bd->dbufSize\s*\)\s*return\s+RETVAL_DATA_ERROR\s*;", between):
        f["runPosBounded"] = True
    else:
        raise TranslatorError("bunzip2.c: unrecognised statement before the run accumulation: %r" % between[:200])
    return f


def facts_text(f):
    b = lambda x: "true" if x else "false"
    i = lambda x: str(x) if x >= 0 else "-%d" % -x
    return """/-! GENERATED by tools/c08_bzip2.py from src/depackers/bunzip2.c and src/common.h -- do not edit. -/
namespace Xmp.Bzip2.Gen

/-- `#define MAX_GROUPS` -/
def maxGroups : Nat := %d
/-- `#define GROUP_SIZE` -/
def groupSize : Nat := %d
/-- `#define MAX_HUFCODE_BITS` -/
def maxHufCodeBits : Nat := %d
/-- `#define MAX_SYMBOLS` -/
def maxSymbols : Nat := %d
/-- `#define IOBUF_SIZE` -/
def iobufSize : Nat := %d
/-- `LIBXMP_DEPACK_LIMIT` (common.h) -/
def depackLimit : Nat := %d
/-- `bw->writeRun = <k>;` in `burrows_wheeler_prep` -/
def writeRunInit : Int := %s
/-- `if (run++ == <k>)` in `write_bunzip_data` -/
def runTrigger : Int := %s
/-- the origPtr test of `read_block_header` is `> bd->dbufSize` (true: origPtr == dbufSize passes) rather than `>=` -/
def origPtrEqAccepted : Bool := %s
/-- the selector loop tests `jj>=bd->groupCount` after the increment only (true: position == groupCount passes) -/
def selectorEqAccepted : Bool := %s
/-- `if (runPos > bd->dbufSize) return RETVAL_DATA_ERROR;` stands before `hh += (runPos << nextSym)` -/
def runPosBounded : Bool := %s

end Xmp.Bzip2.Gen
""" % (f["maxGroups"], f["groupSize"], f["maxHufCodeBits"], f["maxSymbols"], f["iobufSize"], f["depackLimit"],
       i(f["writeRunInit"]), i(f["runTrigger"]), b(f["origPtrEqAccepted"]), b(f["selectorEqAccepted"]), b(f["runPosBounded"]))


def gen_facts():
    f = read_facts()
    vlib.write_if_changed(FACTS_LEAN, facts_text(f))
    return f


# ---------------------------------------------------------------------------------------------------------
# the check
# ---------------------------------------------------------------------------------------------------------

REQUIRED = ["Xmp.Bzip2." + n for n in (
    "C08_bzip2_source_facts", "C08_bzip2_unrle1", "C08_bzip2_ibwt", "C08_bzip2_mtfrle", "C08_bzip2_huffman_canonical", "C08_bzip2_huffman_flat",
    "C08_bzip2_block", "C08_bzip2_roundtrip", "C08_pipeline_bzip2", "C08_bzip2_gate", "C08_bzip2_gate_crcs",
    "C08_bzip2_work_progress", "C08_bzip2_work_output", "C08_bzip2_work_block")]

ASAN_ENV = {"ASAN_OPTIONS": "detect_leaks=0:abort_on_error=0:allocator_may_return_null=1", "UBSAN_OPTIONS": "print_stacktrace=1"}


def hx(b):
    return b.hex() if b else "-"


def text_like(rng, n):
    words = [b"the", b"quick", b"brown", b"fox", b"module", b"pattern", b"sample", b"and", b"of", b"tracker", b"\n", b"  "]
    out = bytearray()
    while len(out) < n:
        out += rng.choice(words) + b" "
    return bytes(out[:n])


def payload_classes(rng, quick):
    """(class name, payload) list: the boundary classes of the two run-length stages, the seeded-defect class
    (first bytes equal the last ones), plain random / text, long runs"""
    P = []
    P.append(("empty", b""))
    for n in range(1, 6):
        P.append(("len%d" % n, bytes(rng.randrange(256) for _ in range(n))))
        P.append(("eq%d" % n, bytes([rng.randrange(256)]) * n))
    # runs of every length around the RLE1 boundaries, alone and embedded
    for n in list(range(1, 12)) + [250, 254, 255, 256, 257, 258, 259, 260, 261, 262, 263, 264, 509, 510, 511, 512, 513, 514, 515, 516, 517, 518, 519, 520]:
        b = rng.randrange(256)
        P.append(("run%d" % n, bytes([b]) * n))
        c = (b + 1 + rng.randrange(255)) % 256
        P.append(("run%d-embedded" % n, bytes([c]) + bytes([b]) * n + bytes([c, c])))
    # a run whose length byte equals the run's own byte value / neighbours (count byte looks like data)
    for n in (4, 5, 6, 7, 8, 9, 100, 255):
        P.append(("run-count-alias%d" % n, bytes([n - 4]) * n + bytes([n - 4])))
    # first bytes equal the last bytes (writeRun initial state)
    for k in range(1, 7):
        for j in range(1, 7):
            b = rng.randrange(256)
            mid = bytes(x for x in (rng.randrange(256) for _ in range(rng.randrange(1, 9))) if x != b) or bytes([(b + 1) % 256])
            P.append(("wrap%d_%d" % (k, j), bytes([b]) * k + mid + bytes([b]) * j))
    P.append(("all-equal-1M", bytes([rng.randrange(256)]) * (1 << 20)))
    P.append(("zeros-70k", bytes(70000)))
    for n in ((100, 3000) if quick else (100, 3000, 40000, 200000)):
        P.append(("random%d" % n, bytes(rng.randrange(256) for _ in range(n))))
        P.append(("text%d" % n, text_like(rng, n)))
        P.append(("lowent%d" % n, bytes(rng.choice(b"ab") for _ in range(n))))
    P.append(("periodic", b"abcabcabc" * 40))
    P.append(("all256", bytes(range(256)) * 2))
    P.append(("all256-rev", bytes(range(255, -1, -1))))
    # multi-block at level 1 (about 100 kB of BWT input per block): incompressible so that RLE1 keeps the size
    nmb = 230000 if quick else 460000
    P.append(("multiblock", bytes(rng.randrange(256) for _ in range(nmb))))
    P.append(("multiblock-runs", (bytes([7]) * 300 + bytes(rng.randrange(256) for _ in range(97))) * (nmb // 2000)))
    return P


def own_writer_streams(rng, quick):
    """valid and deliberately invalid streams of the bit-level writer: (name, stream, expected payload or None)"""
    out = []
    small = [b"a", b"ab", b"banana", b"aaaa", b"aaaaa", b"mississippi" * 3, bytes(rng.randrange(256) for _ in range(700)),
             bytes(rng.choice(b"abc") for _ in range(400)), b"x" * 300 + b"yz" * 30, bytes(range(256)), text_like(rng, 1500)]
    for k, p in enumerate(small):
        for ng in range(2, 7):
            out.append(("w-g%d-%d" % (ng, k), bz_simple(p, ngroups=ng, sel="random", rng=rng, level=rng.randint(1, 9)), p))
        out.append(("w-flat-%d" % k, bz_simple(p, lengths="flat"), p))
        for ln in (9, 12, 17, 20):
            out.append(("w-flat%d-%d" % (ln, k), bz_simple(p, lengths=ln), p))
        out.append(("w-len21-%d" % k, bz_simple(p, lengths=21), None))
        out.append(("w-blocks-%d" % k, bz_simple(p, blocksize=rng.randint(1, 40), ngroups=rng.randint(2, 6), sel="random", rng=rng), p))
        out.append(("w-extrasel-%d" % k, bz_simple(p, nsel_extra=rng.randint(1, 40)), p))
        out.append(("w-symmap-%d" % k, bz_simple(p, symmap=set(p) | {rng.randrange(256) for _ in range(rng.randint(1, 40))}), p))
        # count bytes 252..255 and runs cut short: legal for the decoder
        out.append(("w-maxrun259-%d" % k, bz_simple(p, rle_maxrun=259), p))
        out.append(("w-shortruns-%d" % k, bz_simple(p, rle_split=lambda r: rng.randint(1, r)), p))
        out.append(("w-norle-%d" % k, bz_simple(p, pre_rle=False), None))
        # header field faults
        out.append(("w-randomised-%d" % k, bz_simple(p, randomised=1), None))
        out.append(("w-orig-big-%d" % k, bz_simple(p, orig=len(rle1(p)) + rng.randint(0, 5)), None))
        out.append(("w-orig-other-%d" % k, bz_simple(p, orig=rng.randrange(max(1, len(rle1(p))))), None))
        out.append(("w-orig-max-%d" % k, bz_simple(p, orig=(1 << 24) - 1), None))
        out.append(("w-ngroups1-%d" % k, bz_simple(p, ngroups=1), None))
        out.append(("w-ngroups7-%d" % k, bz_simple(p, ngroups=7), None))
        out.append(("w-badcrc-%d" % k, bz_simple(p, block_crc=bz_crc(p) ^ (1 << rng.randrange(32))), None))
        out.append(("w-missing-sel-%d" % k, bz_simple(p * 8, nsel_extra=-1), None))
        # long RUNA/RUNB chains (32-bit wrap of the run counter)
        for nrun in (20, 31, 32, 33, 40, 64, 65):
            sym = rng.randrange(2)
            out.append(("w-runs%d-%d-%d" % (nrun, sym, k), bz_simple(p, extra_syms=lambda s, n, nrun=nrun, sym=sym: [sym] * nrun + s), None))
    # over-subscribed and incomplete code length sets (the tables are built whatever the lengths say)
    for k in range(8 if quick else 40):
        p = bytes(rng.choice(b"abcdefgh") for _ in range(rng.randint(1, 300)))
        nsym = len(set(rle1(p))) + 2
        gl = [[rng.randint(1, rng.choice((3, 6, 20))) for _ in range(nsym)] for _ in range(2)]
        out.append(("w-randlens-%d" % k, bz_simple(p, lengths=gl), None))
    return out


def mutations(rng, base, name, nflip_header, nflip_random, truncs):
    out = []
    nbits = len(base) * 8
    hdr = min(nbits, nflip_header)
    for k in range(32, hdr):
        m = bytearray(base)
        m[k // 8] ^= 0x80 >> (k % 8)
        out.append(("%s-flip%d" % (name, k), bytes(m), None))
    for _ in range(nflip_random):
        k = rng.randrange(nbits)
        m = bytearray(base)
        m[k // 8] ^= 0x80 >> (k % 8)
        out.append(("%s-flip%d" % (name, k), bytes(m), None))
    for k in truncs:
        if k < len(base):
            out.append(("%s-trunc%d" % (name, k), base[:k], None))
    return out


def fnv64(b):
    h = 0xcbf29ce484222325
    # only used on small expected payloads via the driver/harness values; python loop kept short
    for x in b:
        h = ((h ^ x) * 0x100000001b3) & 0xFFFFFFFFFFFFFFFF
    return h


def run_shard(args):
    exe, path, cases, use_driver = args
    with open(path, "w") as f:
        for name, stream, _ in cases:
            f.write("%s %s\n" % (name, hx(stream)))
    t0 = time.time()
    rc, out, err = vlib.run_exe(exe, ["run", path], timeout=900, env=ASAN_ENV)
    t1 = time.time()
    drv = []
    if use_driver:
        drv = vlib.run_driver("drv_c08b", "".join("dec %s %s\n" % (name, hx(stream)) for name, stream, _ in cases), timeout=1800)
    return rc, out.decode("latin-1"), err, drv, t1 - t0, time.time() - t1


def run(ck):
    """entry point used by tools/checks/c08.py"""
    quick = ck.tier != "thorough"
    t_start = time.time()
    try:
        facts = gen_facts()
    except TranslatorError as e:
        ck.unproved("translator bzip2 facts (tools/c08_bzip2.py)", str(e))
        return
    ck.note("bzip2_facts", facts)
    # proofs: keep the obligations of the main C08 modules (and of the other sub-checks), add ours.  XmpProps.C08Bzip2
    # imports XmpProps.C08, so the audit of its closure sees those theorems again: only the Bzip2 modules are added.
    before = (ck.cov["obligations"], ck.cov["discharged"])
    saved = {k: ck.notes.get(k) for k in ("axioms_used", "lean_modules", "property_theorems")}
    ck.proofs(["XmpProps.C08Bzip2"], required=REQUIRED, drivers=["drv_c08b"])
    if getattr(ck, "lean_ok", False):
        au = vlib.lean_audit(["XmpProps.C08Bzip2"])
        mine = [t for t in au["theorems"] if "Bzip2" in t["module"]]
        names = {t["name"] for t in au["theorems"]}
        ck.cov["obligations"] = before[0] + len(mine) + len(REQUIRED)
        ck.cov["discharged"] = before[1] + sum(1 for t in mine if set(t["axioms"]) <= vlib.ALLOWED_AXIOMS) + sum(1 for r in REQUIRED if r in names)
        ck.note("bzip2_theorems", len(mine))
    else:
        ck.cov["obligations"] += before[0]
        ck.cov["discharged"] += before[1]
    for k, v in saved.items():
        if v is not None:
            ck.notes[k] = sorted(set(v) | set(ck.notes.get(k) or []))
    # without a model (the Lean build failed: reported above as unproved) the direct oracle on the real code still runs
    use_driver = bool(getattr(ck, "lean_ok", False))
    exe = vlib.build_harness("c08_bzip2", ["c08_bzip2.c"])
    rng = ck.rng
    workdir = os.path.join(vlib.OUT, "c08-bzip2")
    os.makedirs(workdir, exist_ok=True)

    # regression witnesses of the defects found through this model run first, one process each
    regress(ck, exe, facts, workdir)

    cases = []          # (name, stream, expected payload | None)
    klass = {}
    # (a) independent encoders: python bz2 at every level, CLI bzip2
    pays = payload_classes(rng, quick)
    have_cli = subprocess.run(["sh", "-c", "command -v bzip2"], stdout=subprocess.PIPE).returncode == 0
    for cname, p in pays:
        big = len(p) > 100000
        levels = ([1] if cname.startswith("multiblock") else [rng.randint(1, 9)]) if big else ([1, 9, rng.randint(2, 8)] if quick else range(1, 10))
        for lv in levels:
            cases.append(("py-%s-l%d" % (cname, lv), bz2.compress(p, lv), p))
        if have_cli and (not big or not quick):
            lv = rng.randint(1, 9)
            got = subprocess.run(["bzip2", "-c", "-%d" % lv], input=p, stdout=subprocess.PIPE, stderr=subprocess.PIPE)
            if got.returncode == 0:
                cases.append(("cli-%s-l%d" % (cname, lv), got.stdout, p))
    # (b) the Lean encoder of the theorems (small blocks: its BWT sorts rotations naively)
    lean_pay = [(c, p) for c, p in pays if len(p) <= 700]
    lean_pay += [("lean-random%d" % k, bytes(rng.randrange(256) for _ in range(rng.randint(1, 500)))) for k in range(6 if quick else 30)]
    lean_pay += [("lean-lowent%d" % k, bytes(rng.choice(b"ab\x00") for _ in range(rng.randint(1, 600)))) for k in range(6 if quick else 30)]
    req = []
    for k, (cname, p) in enumerate(lean_pay):
        if not p:
            continue
        bs = rng.choice((1, 2, 3, 5, 17, 64, 200, 700))
        req.append(("lean-%s-%d" % (cname, k), rng.randint(1, 9), bs, p))
    if not use_driver:
        req = []
    enc_out = vlib.run_driver("drv_c08b", "".join("enc %s %d %d %s\n" % (n, lv, bs, hx(p)) for n, lv, bs, p in req), timeout=900) if req else []
    refereed = 0
    for (n, lv, bs, p), line in zip(req, enc_out):
        f = line.split()
        if len(f) != 3 or f[0] != "E" or f[1] != n:
            ck.unproved("driver drv_c08b enc", "unexpected answer %r for %s" % (line[:80], n))
            continue
        stream = bytes.fromhex(f[2]) if f[2] != "-" else b""
        try:
            good = bz2.decompress(stream) == p
        except Exception as e:      # noqa: BLE001
            good = False
        if not good:
            ck.unproved("Lean encoder Bzip2.bzip2 refereed by python bz2",
                        "stream written by the Lean encoder (level %d, block size %d) is not decoded to the payload by python's bz2: payload %s stream %s"
                        % (lv, bs, hx(p)[:400], hx(stream)[:2000]))
        else:
            refereed += 1
        cases.append((n, stream, p))
    ck.note("bzip2_lean_encoder_streams_refereed_by_python_bz2", refereed)
    # (c) bit-level writer: all table shapes, legal oddities, illegal fields
    ow = own_writer_streams(rng, quick)
    for n, s_, p in ow:
        if p is not None:
            try:
                okref = bz2.decompress(s_) == p
            except Exception:       # noqa: BLE001
                okref = False
            if not okref and not n.startswith(("w-maxrun259", "w-flat20", "w-flat17", "w-extrasel")):
                # python's libbz2 is stricter in a few legal-for-bunzip2 corners; everything else must be plain bzip2
                ck.note("bzip2_writer_streams_refused_by_libbz2", ck.notes.get("bzip2_writer_streams_refused_by_libbz2", []) + [n])
    cases += ow
    # the findings of this stack (proposed_fixes/c08-bunzip2-*.diff, repaired in /repo 5567c7b and 79ea947): ordinary cases
    p1 = bytes(rng.randrange(256) for _ in range(3000))
    for lv in (1, 5, 9):
        cases.append(("w-orig-eq-dbufsize-l%d" % lv, bz_simple(b"hello world", orig=100000 * lv, level=lv), None))
    for ng in range(2, 7):
        cases.append(("w-sel-eq-gc%d" % ng, bz_stream([bz_block(p1), bz_block(b"second block data", ngroups=ng, sel_unary=[ng])]), None))
        cases.append(("w-sel-eq-gc%d-first" % ng, bz_stream([bz_block(b"second block data", ngroups=ng, sel_unary=[ng])]), None))
    pending = []
    if not facts["runPosBounded"]:
        pending.append("runPos overflow after 32 consecutive RUNA/RUNB symbols: the run is dropped and the stream accepted "
                       "(proposed_fixes/c09-bunzip2-run-overflow.diff); compared with the model, not yet reported as a violation")
    ck.note("bzip2_pending_findings", pending)
    # (d) mutations: every bit of the block header / selectors / code lengths of small streams, random bits, truncations
    seeds_for_mut = [("mpy", bz2.compress(b"hello world, hello world " * 10, 1)),
                     ("mpy2", bz2.compress(bytes(rng.randrange(256) for _ in range(200)), 9)),
                     ("mw", bz_simple(text_like(rng, 300), ngroups=4, sel="random", rng=rng)),
                     ("m2blk", bz_simple(text_like(rng, 200), blocksize=90))]
    origin = {}         # mutated stream -> payload of the stream it was made from (C09: never success with other bytes)
    for name, base in seeds_for_mut:
        hdrbits = 1200 if quick else len(base) * 8
        ms = mutations(rng, base, name, hdrbits, 60 if quick else 600, range(0, len(base), 1 if not quick else 3))
        pay0 = bz2.decompress(base)
        for m in ms:
            origin[m[0]] = pay0
        cases += ms
    bigpay = bytes(rng.randrange(256) for _ in range(30000))
    big = bz2.compress(bigpay, 1)
    ms = mutations(rng, big, "mbig", 0, 40 if quick else 300, [len(big) - 1, len(big) - 5, len(big) - 11, len(big) // 2])
    for m in ms:
        origin[m[0]] = bigpay
    cases += ms
    for n_, s_, p_ in ow:
        if n_.startswith("w-badcrc"):
            origin[n_] = None       # a stream whose block CRC is wrong must never be accepted

    # distinct names
    seen = set()
    uniq = []
    for c in cases:
        if c[0] in seen:
            continue
        seen.add(c[0])
        uniq.append(c)
    cases = uniq
    # shards balanced by size
    nsh = max(1, min(vlib.NCPU, 12))
    order = sorted(range(len(cases)), key=lambda i: -len(cases[i][1]))
    shards = [[] for _ in range(nsh)]
    load = [0] * nsh
    for i in order:
        k = load.index(min(load))
        shards[k].append(cases[i])
        load[k] += len(cases[i][1]) + 2000
    res = vlib.pmap(run_shard, [(exe, os.path.join(workdir, "shard%d.txt" % k), sh, use_driver) for k, sh in enumerate(shards) if sh])
    by_name = {c[0]: c for c in cases}
    codes = {}
    nmatch = nskip = nvalid = 0
    t_h = t_d = 0.0
    for (rc, out, err, drv, th, td), sh in zip(res, [s_ for s_ in shards if s_]):
        t_h += th
        t_d += td
        R, T = {}, {}
        for l in out.splitlines():
            f = l.split()
            if len(f) >= 3 and f[0] == "R":
                R[f[1]] = dict(x.split("=", 1) for x in f[2:])
            elif len(f) >= 3 and f[0] == "T":
                T[f[1]] = dict(x.split("=", 1) for x in f[2:] if "=" in x)
        if rc != 0:
            last = re.findall(r"^CASE (\S+)", err, re.M)
            last = last[-1] if last else None
            c = by_name.get(last)
            sig = vlib.sanitizer_signature(err)
            ck.violation("bzip2:harness-abort:" + sig,
                         {"how": "harness/c08_bzip2.c run <file with one line `<id> <hex>`>", "case": last,
                          "stream_hex": hx(c[1]) if c and len(c[1]) <= 65536 else None, "stderr": err[-3000:]},
                         "the bzip2 depacker aborted under ASan/UBSan on stream %s (%s)" % (last, sig))
        M = {}
        for l in drv:
            f = l.split()
            if len(f) >= 3 and f[0] == "T":
                M[f[1]] = dict(x.split("=", 1) for x in f[2:])
        for name, stream, expect in sh:
            r, t, m = R.get(name), T.get(name), M.get(name)
            if r is None or t is None:
                continue            # lost behind an abort (reported above)
            if m is None and use_driver:
                ck.unproved("driver drv_c08b dec", "no answer for case %s" % name)
                continue
            kl = name.split("-")[0] + ("-valid" if expect is not None else "")
            klass[kl] = klass.get(kl, 0) + 1
            ck.count("bz:" + name, nontrivial=True)
            if m is not None:
                codes[m["code"]] = codes.get(m["code"], 0) + 1
            # direct oracle: a stream of an encoder must unpack to its payload
            if expect is not None and not name.startswith("w-maxrun259"):
                nvalid += 1
                if r.get("rc") != "0" or int(r.get("len", -1)) != len(expect) or (len(expect) <= 4096 and r.get("fnv") != "%016x" % fnv64(expect)):
                    ck.violation("oracle:bzip2:%s" % name.split("-")[0],
                                 {"how": "harness/c08_bzip2.c run", "case": name, "stream_hex": hx(stream) if len(stream) <= 65536 else None,
                                  "payload_hex": hx(expect) if len(expect) <= 65536 else None, "result": r},
                                 "valid bzip2 stream %s (%d bytes) is not unpacked to its payload by decrunch_bzip2: %s" % (name, len(stream), r))
                    continue
            # direct oracle (C09): a damaged stream is refused or still yields the packed bytes
            if name in origin and r.get("rc") == "0":
                pay0 = origin[name]
                if pay0 is None or int(r.get("len", -1)) != len(pay0) or r.get("fnv") != "%016x" % fnv64(pay0):
                    ck.violation("bzip2:silent-misdecode:%s" % name.split("-")[0],
                                 {"how": "harness/c08_bzip2.c run", "case": name, "stream_hex": hx(stream) if len(stream) <= 65536 else None, "result": r},
                                 "damaged bzip2 stream %s is accepted by decrunch_bzip2 with bytes other than the packed payload: %s" % (name, r))
                    continue
            if m is None:
                continue
            if m["code"] == "-99":
                nskip += 1          # the C leaves the modelled state (see Gen.origPtrEqAccepted / selectorEqAccepted)
                continue
            same = (all(t.get(k) == m.get(k) for k in ("code", "hcrc", "dcrc", "tcrc", "n", "fnv"))
                    and (r.get("rc") == "0") == (m.get("ok") == "1")
                    and (r.get("rc") != "0" or (r.get("len") == m.get("n") and r.get("fnv") == m.get("fnv"))))
            if same:
                nmatch += 1
                ck.cov["traces_validated_against_impl"] += 1
            elif not any(u["name"].startswith("correspondence Bzip2") for u in ck.unproved_items):
                ck.unproved("correspondence Bzip2.run vs bunzip2.c",
                            "case %s: real decrunch_bzip2 %s / write_bunzip_data %s ; model %s ; stream %s" % (name, r, t, m, hx(stream)[:6000]))
    ck.note("bzip2_cases_by_class", klass)
    ck.note("bzip2_model_status_codes", codes)
    ck.note("bzip2_correspondence_matched", nmatch)
    ck.note("bzip2_out_of_model_skipped", nskip)
    ck.note("bzip2_valid_streams_oracle", nvalid)
    ck.note("bzip2_seconds", {"total": round(time.time() - t_start, 1), "harness_cpu": round(t_h, 1), "driver_cpu": round(t_d, 1)})
    ck.assumptions += ["bzip2: python bz2 / CLI bzip2 are correct encoders (they also referee the Lean encoder and the bit-level writer of tools/c08_bzip2.py)"]


REGRESS = [
    # file under proposed_fixes, signature stem, what must hold
    ("c08-bunzip2-origptr-overread.witness.bz2", "bzip2:origptr==dbufsize", "refused"),
    ("c08-bunzip2-selector-range.witness.bz2", "bzip2:selector==groupCount", "refused"),
    ("c08-bunzip2-selector-range.accepted.witness.bz2", "bzip2:selector==groupCount", "refused"),
    ("c09-bunzip2-run-overflow.witness.bz2", "bzip2:run-overflow", "refused-if-bounded"),
]


def regress(ck, exe, facts, workdir):
    n = 0
    for fn, stem, want in REGRESS:
        path = os.path.join(vlib.VERIF, "proposed_fixes", fn)
        if not os.path.exists(path):
            continue
        stream = open(path, "rb").read()
        cf = os.path.join(workdir, "regress-%s.txt" % fn)
        open(cf, "w").write("regress %s\n" % hx(stream))
        rc, out, err = vlib.run_exe(exe, ["run", cf], timeout=120, env=ASAN_ENV)
        n += 1
        ck.count("bz:regress:" + fn, nontrivial=True)
        rep = {"how": "harness/c08_bzip2.c run %s" % cf, "witness": path, "stream_hex": hx(stream) if len(stream) < 65536 else None}
        if rc != 0:
            ck.violation("%s:%s" % (stem, vlib.sanitizer_signature(err)), dict(rep, stderr=err[-3000:]),
                         "the bzip2 depacker aborts under ASan/UBSan on the regression witness %s" % fn)
            continue
        accepted = re.search(r"^R regress rc=0 ", out.decode("latin-1"), re.M) is not None
        if accepted and (want == "refused" or (want == "refused-if-bounded" and facts["runPosBounded"])):
            ck.violation("%s:invalid-stream-accepted" % stem, rep,
                         "decrunch_bzip2 accepts the invalid stream %s (bzip2 and python's bz2 refuse it)" % fn)
    ck.note("bzip2_regression_witnesses_run", n)


def replay_stream(stream):
    """used by hand: run one stream through harness and driver"""
    exe = vlib.build_harness("c08_bzip2", ["c08_bzip2.c"])
    path = os.path.join(vlib.OUT, "c08-bzip2-replay.txt")
    open(path, "w").write("replay %s\n" % hx(stream))
    rc, out, err = vlib.run_exe(exe, ["run", path], env=ASAN_ENV)
    print(out.decode("latin-1"), err[-2000:] if rc else "")
    print("\n".join(vlib.run_driver("drv_c08b", "dec replay %s\n" % hx(stream))))
    return rc


if __name__ == "__main__":
    if len(sys.argv) > 1:
        sys.exit(replay_stream(open(sys.argv[1], "rb").read()))
    import random
    r = random.Random(1)
    for p in [b"", b"a", b"aaaa", b"abracadabra" * 3, bytes(r.randrange(256) for _ in range(1000)), b"x" * 300 + b"yz" * 20]:
        for kw in [dict(), dict(lengths="flat"), dict(ngroups=6, sel="random", rng=r), dict(blocksize=7)]:
            s = bz_simple(p, **kw)
            assert bz2.decompress(s) == p, (p, kw)
            got = subprocess.run(["bzip2", "-dc"], input=s, stdout=subprocess.PIPE, stderr=subprocess.PIPE)
            assert got.returncode == 0 and got.stdout == p, (p, kw, got.stderr)
    print("writer ok")
