#!/usr/bin/env python3
"""Shared machinery for the libxmp verification checks.

Everything here derives its paths from this file's location, rebuilds from
/repo's *current working tree* (cache keyed by a content hash of the sources)
and keeps its build output outside /repo and /verif (default /var/tmp/xmpverif).

See DESIGN.md section 2.2 for the outcome protocol implemented by `Check`.
"""
import fcntl
import hashlib
import json
import os
import random
import re
import shutil
import subprocess
import sys
import time
from concurrent.futures import ThreadPoolExecutor

VERIF = os.path.dirname(os.path.dirname(os.path.abspath(__file__)))
REPO = os.environ.get("XMP_REPO", "/repo")
LEAN = os.path.join(VERIF, "lean")
HARNESS = os.path.join(VERIF, "harness")
CACHE = os.environ.get("XMP_VERIF_CACHE", "/var/tmp/xmpverif")
LOCKS = "/var/tmp/xmpverif-locks"        # package-wide locks (lake), independent of the cache dir
OUT = os.path.join(VERIF, "out")            # replays, scratch case files (git-ignored)
EVID = os.environ.get("XMP_VERIF_EVID", os.path.join(VERIF, "evidence"))   # seedtest points this at a scratch dir
GUARD = "LIBXMP_VERIF"
NCPU = os.cpu_count() or 4

ALLOWED_AXIOMS = {"propext", "Classical.choice", "Quot.sound"}
FORBIDDEN_TOKENS = r"\b(sorry|admit|native_decide|bv_decide|implemented_by|unsafe)\b|^\s*axiom\s|maxHeartbeats\s+0\b"

SAN_FLAGS = ("-fsanitize=address,undefined -fno-sanitize=shift-base "
             "-fno-sanitize-recover=all -fno-omit-frame-pointer")
VARIANTS = {
    # name: (compiler, cflags)
    "asan": ("clang-14", "-g -O1 " + SAN_FLAGS),
    "msan": ("clang-14", "-g -O1 -fsanitize=memory -fsanitize-memory-track-origins -fno-omit-frame-pointer"),
    "tsan": ("clang-14", "-g -O1 -fsanitize=thread -fno-omit-frame-pointer"),
    "plain": ("clang-14", "-g -O1"),
}


class InfraError(Exception):
    pass


def log(*a):
    print(*a, flush=True)


def sh(cmd, cwd=None, timeout=None, env=None, input=None, check=False):
    """Run a command (list or string); return (rc, stdout+stderr as str)."""
    e = dict(os.environ)
    if env:
        e.update(env)
    p = subprocess.run(cmd, cwd=cwd, shell=isinstance(cmd, str), stdout=subprocess.PIPE,
                       stderr=subprocess.STDOUT, timeout=timeout, env=e, input=input)
    out = p.stdout.decode("utf-8", "replace") if isinstance(p.stdout, bytes) else p.stdout
    if check and p.returncode != 0:
        raise InfraError("command failed (%d): %s\n%s" % (p.returncode, cmd, out[-4000:]))
    return p.returncode, out


class Lock:
    def __init__(self, path):
        os.makedirs(os.path.dirname(path), exist_ok=True)
        self.path = path

    def __enter__(self):
        self.f = open(self.path, "w")
        fcntl.flock(self.f, fcntl.LOCK_EX)
        return self

    def __exit__(self, *a):
        fcntl.flock(self.f, fcntl.LOCK_UN)
        self.f.close()


# --------------------------------------------------------------------------
# repository build cache
# --------------------------------------------------------------------------

_SRC_DIRS = ["src", "include", "cmake"]
_SRC_FILES = ["CMakeLists.txt", "libxmp.map"]


def _iter_repo_files():
    for f in _SRC_FILES:
        p = os.path.join(REPO, f)
        if os.path.exists(p):
            yield p
    for d in _SRC_DIRS:
        for root, dirs, files in os.walk(os.path.join(REPO, d)):
            dirs.sort()
            for fn in sorted(files):
                yield os.path.join(root, fn)


_repo_hash_cache = None


def repo_hash():
    """Content hash of everything that is compiled from /repo's working tree."""
    global _repo_hash_cache
    if _repo_hash_cache is None:
        h = hashlib.sha256()
        for p in _iter_repo_files():
            h.update(os.path.relpath(p, REPO).encode())
            h.update(b"\0")
            with open(p, "rb") as f:
                h.update(hashlib.sha256(f.read()).digest())
        _repo_hash_cache = h.hexdigest()[:16]
    return _repo_hash_cache


def build_repo(variant="asan"):
    """Configure+build libxmp (static, with -DLIBXMP_VERIF) from the working
    tree; returns the build directory holding libxmp.a.  Stale directories of
    the same variant are removed."""
    cc, cflags = VARIANTS[variant]
    key = "%s-%s" % (variant, repo_hash())
    bdir = os.path.join(CACHE, key)
    os.makedirs(CACHE, exist_ok=True)
    with Lock(os.path.join(CACHE, "lock-" + variant)):
        lib = os.path.join(bdir, "libxmp.a")
        if os.path.exists(lib) and os.path.exists(os.path.join(bdir, ".ok")):
            try:
                os.utime(bdir, None)        # in use: keeps it out of the stale set
            except OSError:
                pass
            return bdir
        # purge stale build directories of this variant, but never one that may still be in use by a
        # concurrent check started before /repo changed (age limit), and keep the disk bounded (max 4)
        stale = sorted((os.path.getmtime(os.path.join(CACHE, d)), d) for d in os.listdir(CACHE)
                       if d.startswith(variant + "-") and d != key and os.path.isdir(os.path.join(CACHE, d)))
        now = time.time()
        for i, (mt, d) in enumerate(stale):
            # (a thorough run can last a quarter of an hour; the directory's mtime is refreshed at each use)
            if now - mt > 7200 or len(stale) - i > 12:
                shutil.rmtree(os.path.join(CACHE, d), ignore_errors=True)
        shutil.rmtree(bdir, ignore_errors=True)
        t0 = time.time()
        rc, out = sh(["cmake", "-G", "Ninja", "-S", REPO, "-B", bdir, "-DBUILD_SHARED=OFF",
                      "-DBUILD_STATIC=ON", "-DWITH_UNIT_TESTS=OFF", "-DCMAKE_BUILD_TYPE=None",
                      "-DCMAKE_C_COMPILER=" + cc,
                      "-DCMAKE_C_FLAGS=%s -D%s" % (cflags, GUARD)])
        if rc != 0:
            raise InfraError("cmake configure failed:\n" + out[-3000:])
        rc, out = sh(["cmake", "--build", bdir, "-j", str(NCPU)])
        if rc != 0 or not os.path.exists(lib):
            raise InfraError("libxmp build failed (%s):\n%s" % (variant, out[-6000:]))
        open(os.path.join(bdir, ".ok"), "w").write("ok")
        log("[build] libxmp %s built in %.1fs -> %s" % (variant, time.time() - t0, bdir))
    return bdir


def build_harness(name, sources, variant="asan", extra=None, libs=None, defines=None):
    """Compile a C harness against the variant's libxmp.a.  `sources` are
    paths relative to /verif/harness.  Returns the executable path."""
    bdir = build_repo(variant)
    cc, cflags = VARIANTS[variant]
    srcs = [os.path.join(HARNESS, s) for s in sources]
    h = hashlib.sha256()
    for s in srcs + [os.path.join(HARNESS, "vcommon.h")]:
        if os.path.exists(s):
            h.update(open(s, "rb").read())
    h.update(repr((extra, libs, defines, cflags)).encode())
    hd = os.path.join(bdir, "h")
    os.makedirs(hd, exist_ok=True)
    exe = os.path.join(hd, "%s-%s" % (name, h.hexdigest()[:12]))
    with Lock(os.path.join(CACHE, "lock-h-%s-%s" % (variant, name))):
        if os.path.exists(exe):
            return exe
        # older builds of this harness: removed only when stale (a concurrent run of another
        # version of the same harness source may still be executing its binary)
        for f in os.listdir(hd):
            if f.startswith(name + "-"):
                try:
                    fp = os.path.join(hd, f)
                    if time.time() - os.path.getmtime(fp) > 1800:
                        os.unlink(fp)
                except OSError:
                    pass
        cmd = [cc] + cflags.split() + ["-D" + GUARD, "-DHAVE_CONFIG_H=0",
               "-I" + os.path.join(REPO, "include"), "-I" + os.path.join(REPO, "src"),
               "-I" + os.path.join(REPO, "src", "loaders"), "-I" + HARNESS, "-I" + REPO,
               "-Wno-unused-function", "-Wno-macro-redefined"]
        for d in (defines or []):
            cmd.append("-D" + d)
        cmd += (extra or [])
        cmd += srcs + ["-o", exe + ".tmp", os.path.join(bdir, "libxmp.a"), "-lm"] + (libs or [])
        rc, out = sh(cmd)
        if rc != 0:
            raise InfraError("harness %s failed to compile:\n%s" % (name, out[-6000:]))
        os.rename(exe + ".tmp", exe)
    return exe


# --------------------------------------------------------------------------
# Lean
# --------------------------------------------------------------------------

def write_if_changed(path, text):
    os.makedirs(os.path.dirname(path), exist_ok=True)
    try:
        if open(path).read() == text:
            return False
    except OSError:
        pass
    tmp = path + ".tmp%d" % os.getpid()
    open(tmp, "w").write(text)
    os.rename(tmp, path)
    return True


def lean_build(targets, timeout=3000):
    """`lake build <targets>` under the package lock.  Returns (ok, output)."""
    with Lock(os.path.join(LOCKS, "lock-lake")):
        rc, out = sh(["lake", "build"] + list(targets), cwd=LEAN, timeout=timeout)
    return rc == 0, out


def lean_driver(name):
    """Path of a native driver built by `lake build <name>`."""
    return os.path.join(LEAN, ".lake", "build", "bin", name)


def strip_lean_comments(src):
    # remove block comments (nested) and line comments
    out = []
    i, n, depth = 0, len(src), 0
    while i < n:
        if src.startswith("/-", i):
            depth += 1
            i += 2
        elif depth and src.startswith("-/", i):
            depth -= 1
            i += 2
        elif depth:
            if src[i] == "\n":
                out.append("\n")
            i += 1
        elif src.startswith("--", i):
            while i < n and src[i] != "\n":
                i += 1
        else:
            out.append(src[i])
            i += 1
    return "".join(out)


def _module_file(mod):
    return os.path.join(LEAN, *mod.split(".")) + ".lean"


def lean_audit(modules):
    """Audit the given modules and their in-package import closure.
    Returns dict(theorems=[{module,name,axioms}], bad=[...], files=[...])."""
    with Lock(os.path.join(LOCKS, "lock-lake")):
        rc, out = sh(["lake", "env", "lean", "--run", "Audit.lean"] + list(modules), cwd=LEAN, timeout=900)
    if rc != 0:
        raise InfraError("audit failed:\n" + out[-3000:])
    thms, bad, mods = [], [], set()
    for line in out.splitlines():
        f = line.split(" ")
        if f[0] == "THM":
            ax = [] if f[3] == "-" else f[3].split(",")
            thms.append({"module": f[1], "name": f[2], "axioms": ax})
            mods.add(f[1])
            extra = [a for a in ax if a not in ALLOWED_AXIOMS]
            if extra:
                bad.append("theorem %s depends on non-standard axioms %s" % (f[2], extra))
        elif f[0] == "AXIOM":
            bad.append("axiom declared: %s in %s" % (f[2], f[1]))
        elif f[0] == "DEF":
            mods.add(f[1])
            # partial/unsafe/opaque definitions are only tolerated in driver (Drv/) code
            bad.append("non-total definition in proof-relevant module: %s %s (%s)" % (f[1], f[2], f[3]))
    # source-level scan of the same closure (cheap closure: follow `import Xmp*` lines)
    todo, seen = list(modules), set()
    while todo:
        m = todo.pop()
        if m in seen:
            continue
        seen.add(m)
        p = _module_file(m)
        if not os.path.exists(p):
            continue
        src = strip_lean_comments(open(p).read())
        for mm in re.finditer(FORBIDDEN_TOKENS, src, re.M):
            bad.append("forbidden token %r in %s" % (mm.group(0).strip(), os.path.relpath(p, VERIF)))
        for im in re.finditer(r"^\s*(?:public\s+)?import\s+((?:XmpModel|XmpProofs|XmpProps)\.[\w.]+)", src, re.M):
            todo.append(im.group(1))
    return {"theorems": thms, "bad": bad, "modules": sorted(seen)}


def leanchecker(module):
    with Lock(os.path.join(LOCKS, "lock-lake")):
        rc, out = sh(["lake", "env", "leanchecker", module], cwd=LEAN, timeout=3000)
    return rc == 0, out


# --------------------------------------------------------------------------
# known findings
# --------------------------------------------------------------------------

def load_known_findings():
    p = os.path.join(VERIF, "known_findings.json")
    try:
        return json.load(open(p)).get("findings", [])
    except OSError:
        return []


# --------------------------------------------------------------------------
# the check protocol
# --------------------------------------------------------------------------

class Check:
    """One run of one property's check.  A property module provides
    `run(ck)`, which uses the helpers below and finally calls `ck.finish()`.

    Protocol (DESIGN.md 2.2):
      * ck.proofs(modules, property_theorems=[...])  -> lake build + audit
      * ck.violation(signature, replay_obj, what)    -> concrete failing input
      * ck.unproved(name, detail)                    -> broken theorem/correspondence
      * ck.finish()                                  -> evidence + exit code
    """

    def __init__(self, prop, tier, seed, level="proof"):
        self.prop = prop
        self.tier = tier
        self.seed = seed
        self.level = level
        self.t0 = time.time()
        self.rng = random.Random((seed * 1000003) ^ hash_str(prop))
        self.known = [k for k in load_known_findings() if k.get("property") == prop]
        self.violations = []        # concrete, not known
        self.known_hits = {}        # signature -> what
        self.unproved_items = []    # broken theorems / correspondences
        self.cov = {
            "obligations": 0, "discharged": 0, "checker_cmd": "", "trusted_base": [],
            "evaluations": 0, "distinct_nontrivial": 0, "rule": "", "samples": [],
            "traces_validated_against_impl": 0,
        }
        self.assumptions = []
        self._distinct = set()
        self.notes = {}
        os.makedirs(OUT, exist_ok=True)
        os.makedirs(EVID, exist_ok=True)

    # ---- bookkeeping -----------------------------------------------------
    def count(self, case_key=None, nontrivial=True, n=1):
        """Count an explored case; `case_key` (hashable) identifies it for the
        distinct-nontrivial count."""
        self.cov["evaluations"] += n
        if nontrivial and case_key is not None:
            self._distinct.add(case_key if isinstance(case_key, (int, str)) else repr(case_key))

    def sample(self, obj, limit=6):
        if len(self.cov["samples"]) < limit:
            self.cov["samples"].append(obj)

    def note(self, key, val):
        self.notes[key] = val

    def bump(self, key, n=1):
        self.notes[key] = self.notes.get(key, 0) + n

    # ---- proofs ----------------------------------------------------------
    def gen(self, fn, *a):
        """Run a translator step; a failure of the translator is an
        infrastructure error unless the property module handles it."""
        return fn(*a)

    def proofs(self, modules, required=None, drivers=()):
        """Build the Lean modules (kernel re-checks every proof), audit axioms
        and forbidden tokens.  `required` is a list of theorem names that must
        exist (guards against a theorem being dropped or renamed away)."""
        targets = list(modules) + list(drivers)
        ok, out = lean_build(targets)
        self.cov["checker_cmd"] = "cd lean && lake build %s && lake env lean --run Audit.lean %s" % (
            " ".join(targets), " ".join(modules))
        if not ok:
            # which declaration broke?
            errs = re.findall(r"error: (\S+?):(\d+):\d+: (.*)", out)
            first = "; ".join("%s:%s %s" % e for e in errs[:3]) or out[-600:]
            self.unproved("lake build " + " ".join(modules), first)
            self.lean_ok = False
            return False
        self.lean_ok = True
        au = lean_audit(modules)
        names = {t["name"] for t in au["theorems"]}
        self.cov["obligations"] = len(au["theorems"]) + len(required or [])
        good = [t for t in au["theorems"] if set(t["axioms"]) <= ALLOWED_AXIOMS]
        self.cov["discharged"] = len(good)
        for r in (required or []):
            if r in names:
                self.cov["discharged"] += 1
            else:
                self.unproved("theorem " + r, "required property theorem is missing from the built modules")
        for b in au["bad"]:
            self.unproved("audit", b)
        axs = sorted({a for t in au["theorems"] for a in t["axioms"]})
        self.note("axioms_used", axs)
        self.note("lean_modules", au["modules"])
        self.note("property_theorems", sorted(n for n in names if n.split(".")[-1].startswith(self.prop)))
        if self.tier == "thorough":
            for m in modules:
                ok2, o2 = leanchecker(m)
                self.note("leanchecker_" + m, "ok" if ok2 else o2[-400:])
                if not ok2:
                    self.unproved("leanchecker " + m, o2[-400:])
        return not self.unproved_items

    # ---- outcomes --------------------------------------------------------
    def _match_known(self, signature):
        for k in self.known:
            if k.get("status") == "known" and re.fullmatch(k["signature"], signature):
                return k
        return None

    def violation(self, signature, replay, what):
        """A concrete input/history on which the property fails on the real
        code.  `signature` identifies the failing site for known-findings
        matching; `replay` is a JSON-serialisable object (or text)."""
        k = self._match_known(signature)
        if k is not None:
            self.known_hits.setdefault(k["signature"], k.get("what", what))
            return False
        if any(v["signature"] == signature for v in self.violations):
            return True
        path = self._write_replay(signature, replay, what)
        self.violations.append({"signature": signature, "what": what, "replay": path})
        return True

    def unproved(self, name, detail):
        self.unproved_items.append({"name": name, "detail": detail})

    def _write_replay(self, signature, replay, what, suffix=""):
        safe = re.sub(r"[^A-Za-z0-9_.-]+", "_", signature)[:80]
        path = os.path.join(OUT, "replay-%s-%s%s.json" % (self.prop, safe, suffix))
        json.dump({"property": self.prop, "signature": signature, "what": what,
                   "seed": self.seed, "tier": self.tier, "replay": replay},
                  open(path, "w"), indent=1, default=_json_default)
        return path

    def finish(self):
        self.cov["distinct_nontrivial"] = len(self._distinct)
        for k, v in self.notes.items():
            self.cov[k] = v
        wall = time.time() - self.t0
        nviol = len(self.violations)
        lines = []
        for sig, what in sorted(self.known_hits.items()):
            lines.append("KNOWN-FINDING: property=%s %s [%s]" % (self.prop, what, sig))
        for v in self.violations:
            lines.append("VIOLATION property=%s replay=%s" % (self.prop, v["replay"]))
            log("  what: " + v["what"])
        if self.unproved_items and not self.violations:
            # proof obligation or correspondence broken, no failing input found
            path = self._write_replay("unproved", self.unproved_items,
                                      "proof obligation or model/code correspondence no longer checks; "
                                      "the search found no failing input", suffix="")
            lines.append("VIOLATION property=%s replay=%s no-failing-input-found" % (self.prop, path))
            nviol += 1
        elif self.unproved_items:
            for u in self.unproved_items:
                log("  also broken: %s: %s" % (u["name"], u["detail"][:300]))
        self.cov["known_findings_hit"] = sorted(self.known_hits)
        self.cov["unproved"] = self.unproved_items[:20]
        if not self.cov["trusted_base"]:
            self.cov["trusted_base"] = default_trusted_base()
        ev = {
            "property_id": self.prop, "tier": self.tier, "seed": self.seed, "level": self.level,
            "coverage": self.cov, "assumptions": self.assumptions, "wall_s": round(wall, 2),
            "violations": nviol,
        }
        json.dump(ev, open(os.path.join(EVID, self.prop + ".json"), "w"), indent=1, default=_json_default)
        for l in lines:
            log(l)
        for u in self.unproved_items:
            log("UNPROVED %s: %s" % (u["name"], u["detail"][:500]))
        log("[%s] tier=%s seed=%d obligations=%d discharged=%d evaluations=%d distinct=%d violations=%d wall=%.1fs" % (
            self.prop, self.tier, self.seed, self.cov["obligations"], self.cov["discharged"],
            self.cov["evaluations"], self.cov["distinct_nontrivial"], nviol, wall))
        return 1 if nviol else 0


def default_trusted_base():
    return [
        "Lean 4.33.0 kernel; axioms limited to propext, Classical.choice, Quot.sound (audited per theorem on every run)",
        "tools/gen_*.py translators (gcc -E, objdump, regular expressions) that regenerate XmpModel/Gen/*.lean from /repo",
        "the correspondence harness (clang-14 ASan+UBSan build of the working tree) and the differ; it establishes model = code only on the cases run",
        "Lean compiler/runtime for the native model driver (correspondence only, not proofs)",
        "C outside the modelled functions is modelled-not-verified (see DESIGN.md 2.5 and the per-property section)",
    ]


def hash_str(s):
    return int(hashlib.sha256(s.encode()).hexdigest()[:12], 16)


def _json_default(o):
    if isinstance(o, bytes):
        return o.hex()
    if isinstance(o, set):
        return sorted(o)
    return str(o)


def pmap(fn, items, workers=None):
    with ThreadPoolExecutor(max_workers=workers or NCPU) as ex:
        return list(ex.map(fn, items))


def run_driver(name, text, timeout=600):
    """Feed `text` (case lines) to the native Lean driver; return output lines."""
    exe = lean_driver(name)
    if not os.path.exists(exe):
        raise InfraError("driver %s not built" % name)
    p = subprocess.run([exe], input=text.encode(), stdout=subprocess.PIPE, stderr=subprocess.PIPE, timeout=timeout)
    if p.returncode != 0:
        raise InfraError("driver %s failed: %s" % (name, p.stderr.decode()[-2000:]))
    return p.stdout.decode().splitlines()


def run_exe(exe, args=(), input_bytes=None, timeout=600, env=None):
    """Run a harness; returns (rc, stdout bytes, stderr text).  A sanitizer
    abort shows up as rc != 0 with the report in stderr."""
    e = dict(os.environ)
    e.setdefault("ASAN_OPTIONS", "detect_leaks=0:abort_on_error=0:allocator_may_return_null=1")
    e.setdefault("UBSAN_OPTIONS", "print_stacktrace=1")
    if env:
        e.update(env)
    try:
        p = subprocess.run([exe] + list(args), input=input_bytes, stdout=subprocess.PIPE,
                           stderr=subprocess.PIPE, timeout=timeout, env=e)
        return p.returncode, p.stdout, p.stderr.decode("utf-8", "replace")
    except subprocess.TimeoutExpired as ex:
        return -999, ex.stdout or b"", "TIMEOUT after %ss" % timeout


def sanitizer_signature(stderr):
    """Condense a sanitizer report into 'kind@function' for known-finding matching."""
    m = re.search(r"ERROR: \w+Sanitizer: ([\w-]+)", stderr)
    kind = m.group(1) if m else None
    if not kind:
        m = re.search(r"runtime error: ([^\n]+)", stderr)
        kind = "ub:" + re.sub(r"[-\d]+", "N", m.group(1))[:40] if m else "crash"
    fn = re.search(r"#\d+ 0x[0-9a-f]+ in (\w+) .*?/(?:src|repo)/", stderr)
    frames = re.findall(r"#\d+ 0x[0-9a-f]+ in (\w+) ", stderr)
    frames = [f for f in frames if not f.startswith("__") and f not in ("memcpy", "memset", "memmove", "main")]
    return "%s@%s" % (kind, frames[0] if frames else "?")


def corpus_files():
    base = os.path.join(REPO, "test-dev", "data")
    out = []
    for root, dirs, files in os.walk(base):
        dirs.sort()
        for f in sorted(files):
            out.append(os.path.join(root, f))
    for f in ("test.xm", "test.it", "test.itz"):
        p = os.path.join(REPO, "test", f)
        if os.path.exists(p):
            out.append(p)
    return out
