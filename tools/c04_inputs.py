"""Deterministic inputs for the C04 fault search that exercise the header / table region of the core
formats: Impulse Tracker files with an edit-history block and / or a MIDI configuration block between
the pointer tables and the sample headers (no corpus file small enough has both), plus the smallest
XM / IT / S3M / MOD files of the repository.  Used for the every-byte truncation sweep and the
every-allocation-fails schedule (tools/checks/c04.py)."""
import os
import struct

import vlib


def it_with_blocks(edit_entries=None, midi=False, midi_via_special=False, nsmp=2, nrows=16, title=b"c04 tables"):
    """IT file in sample mode: 1 order, `nsmp` samples, 1 pattern.  `edit_entries`: number of 8-byte edit-history
    records (None: no block, special bit 1 clear); `midi`: 4896-byte MIDI configuration block, announced by
    flags bit 7 or (`midi_via_special`) special bit 3."""
    ln, npat = 1, 1
    flags = 0x09 | (0x80 if midi and not midi_via_special else 0)
    special = (0x02 if edit_entries is not None else 0) | (0x08 if midi and midi_via_special else 0)
    hdr = bytearray(b"IMPM" + title.ljust(26, b"\0") + b"\x04\x10")
    hdr += struct.pack("<HHHH", ln, 0, nsmp, npat)
    hdr += struct.pack("<HHHH", 0x0214, 0x0214, flags, special)
    hdr += bytes([128, 48, 6, 125, 128, 0]) + struct.pack("<HII", 0, 0, 0)
    hdr += bytes([32] * 64) + bytes([64] * 64)
    assert len(hdr) == 192
    blocks = b""
    if edit_entries is not None:
        blocks += struct.pack("<H", edit_entries) + bytes((i * 13 + 5) & 0xff for i in range(8 * edit_entries))
    if midi:
        macros = []
        for i in range(9 + 16 + 128):
            s = (b"F0F0%02Xz" % (i & 0x7f)) if i >= 9 else b""
            macros.append(s.ljust(32, b"\0"))
        blocks += b"".join(macros)
    off = 192 + ln + 4 * nsmp + 4 * npat + len(blocks)
    sptr = []
    for _ in range(nsmp):
        sptr.append(off)
        off += 80
    data = bytearray()
    for r in range(nrows):
        if r % 4 == 0:
            data += bytes([1 | 0x80, 0x03, 60 + r % 12, 1 + (r // 4) % nsmp])
        if r == 5 and midi:
            data += bytes([2 | 0x80, 0x08, 26, 0x10])      # Zxx: uses the MIDI macros
        data += b"\0"
    pb = struct.pack("<HHI", len(data), nrows, 0) + bytes(data)
    pptr = [off]
    off += len(pb)
    shdrs, sdata = [], []
    for i in range(nsmp):
        n = 40 + 24 * i
        sh = bytearray(b"IMPS" + b"sample.raw".ljust(12, b"\0") + b"\0" + bytes([64, 1, 64]))
        sh += (b"smp%d" % i).ljust(26, b"\0") + bytes([1, 32])
        sh += struct.pack("<IIII", n, 0, 0, 8363)
        sh += struct.pack("<III", 0, 0, off) + bytes([0, 0, 0, 0])
        shdrs.append(bytes(sh).ljust(80, b"\0"))
        d = bytes((j * 37 + i) & 0xff for j in range(n))
        sdata.append(d)
        off += len(d)
    return (bytes(hdr) + bytes([0] * ln) + b"".join(struct.pack("<I", x) for x in sptr) + b"".join(struct.pack("<I", x) for x in pptr)
            + blocks + b"".join(shdrs) + pb + b"".join(sdata))


def synthetic():
    return {
        "c04_plain.it": it_with_blocks(),
        "c04_edithist.it": it_with_blocks(edit_entries=3),
        "c04_edithist0.it": it_with_blocks(edit_entries=0),
        "c04_midicfg.it": it_with_blocks(midi=True),
        "c04_midispec.it": it_with_blocks(midi=True, midi_via_special=True),
        "c04_both.it": it_with_blocks(edit_entries=2, midi=True),
    }


def smallest(ext, n, lo=300, hi=16000):
    """the n smallest corpus files of a format (by extension) within a size window"""
    fs = [f for f in vlib.corpus_files() if f.lower().endswith(ext) and lo <= os.path.getsize(f) <= hi
          and "/f/" not in f and not os.path.basename(f).startswith(("load_", "depack_", "fuzz", "test_"))]
    fs.sort(key=lambda f: (os.path.getsize(f), f))
    return fs[:n]


def core_inputs(dirname):
    """writes the synthetic files into dirname; returns [(path, table_region_end)]: the every-byte sweep runs
    over the lengths 0 … table_region_end (the whole file when it is small)"""
    os.makedirs(dirname, exist_ok=True)
    out = []
    for name, data in sorted(synthetic().items()):
        p = os.path.join(dirname, name)
        with open(p, "wb") as f:
            f.write(data)
        out.append((p, len(data)))
    for f in (os.path.join(vlib.REPO, "test", "test.it"), os.path.join(vlib.REPO, "test", "test.xm")):
        if os.path.exists(f):
            out.append((f, os.path.getsize(f)))
    for ext in (".s3m", ".mod", ".xm", ".it"):
        for f in smallest(ext, 1, lo=1000):
            if f not in [x for x, _ in out]:
                out.append((f, min(os.path.getsize(f), 8192)))
    return out
