"""Deterministic inputs for the C04 fault search that exercise the header / table region of the core
formats: Impulse Tracker files with an edit-history block and / or a MIDI configuration block between
the pointer tables and the sample headers (no corpus file small enough has both), plus the smallest
XM / IT / S3M / MOD files of the repository.  Used for the every-byte truncation sweep and the
every-allocation-fails schedule (tools/checks/c04.py)."""
import os
import struct

import vlib


def it_with_blocks(edit_entries=None, midi=False, midi_via_special=False, nsmp=2, nrows=16, title=b"c04 tables"):
    """IT file in sample mode: 1 order, `nsmp` samples, 1 pattern.  `edit_entries`: number of 8-byte edit-history
    records (None: no block, special bit 1 clear); `midi`: 4896-byte MIDI configuration block, announced by
    flags bit 7 or (`midi_via_special`) special bit 3."""
    ln, npat = 1, 1
    flags = 0x09 | (0x80 if midi and not midi_via_special else 0)
    special = (0x02 if edit_entries is not None else 0) | (0x08 if midi and midi_via_special else 0)
    hdr = bytearray(b"IMPM" + title.ljust(26, b"\0") + b"\x04\x10")
    hdr += struct.pack("<HHHH", ln, 0, nsmp, npat)
    hdr += struct.pack("<HHHH", 0x0214, 0x0214, flags, special)
    hdr += bytes([128, 48, 6, 125, 128, 0]) + struct.pack("<HII", 0, 0, 0)
    hdr += bytes([32] * 64) + bytes([64] * 64)
    assert len(hdr) == 192
    blocks = b""
    if edit_entries is not None:
        blocks += struct.pack("<H", edit_entries) + bytes((i * 13 + 5) & 0xff for i in range(8 * edit_entries))
    if midi:
        macros = []
        for i in range(9 + 16 + 128):
            s = (b"F0F0%02Xz" % (i & 0x7f)) if i >= 9 else b""
            macros.append(s.ljust(32, b"\0"))
        blocks += b"".join(macros)
    off = 192 + ln + 4 * nsmp + 4 * npat + len(blocks)
    sptr = []
    for _ in range(nsmp):
        sptr.append(off)
        off += 80
    data = bytearray()
    for r in range(nrows):
        if r % 4 == 0:
            data += bytes([1 | 0x80, 0x03, 60 + r % 12, 1 + (r // 4) % nsmp])
        if r == 5 and midi:
            data += bytes([2 | 0x80, 0x08, 26, 0x10])      # Zxx: uses the MIDI macros
        data += b"\0"
    pb = struct.pack("<HHI", len(data), nrows, 0) + bytes(data)
    pptr = [off]
    off += len(pb)
    shdrs, sdata = [], []
    for i in range(nsmp):
        n = 40 + 24 * i
        sh = bytearray(b"IMPS" + b"sample.raw".ljust(12, b"\0") + b"\0" + bytes([64, 1, 64]))
        sh += (b"smp%d" % i).ljust(26, b"\0") + bytes([1, 32])
        sh += struct.pack("<IIII", n, 0, 0, 8363)
        sh += struct.pack("<III", 0, 0, off) + bytes([0, 0, 0, 0])
        shdrs.append(bytes(sh).ljust(80, b"\0"))
        d = bytes((j * 37 + i) & 0xff for j in range(n))
        sdata.append(d)
        off += len(d)
    return (bytes(hdr) + bytes([0] * ln) + b"".join(struct.pack("<I", x) for x in sptr) + b"".join(struct.pack("<I", x) for x in pptr)
            + blocks + b"".join(shdrs) + pb + b"".join(sdata))


def synthetic():
    return {
        "c04_plain.it": it_with_blocks(),
        "c04_edithist.it": it_with_blocks(edit_entries=3),
        "c04_edithist0.it": it_with_blocks(edit_entries=0),
        "c04_midicfg.it": it_with_blocks(midi=True),
        "c04_midispec.it": it_with_blocks(midi=True, midi_via_special=True),
        "c04_both.it": it_with_blocks(edit_entries=2, midi=True),
    }


def smallest(ext, n, lo=300, hi=16000):
    """the n smallest corpus files of a format (by extension) within a size window"""
    fs = [f for f in vlib.corpus_files() if f.lower().endswith(ext) and lo <= os.path.getsize(f) <= hi
          and "/f/" not in f and not os.path.basename(f).startswith(("load_", "depack_", "fuzz", "test_"))]
    fs.sort(key=lambda f: (os.path.getsize(f), f))
    return fs[:n]


def core_inputs(dirname):
    """writes the synthetic files into dirname; returns [(path, table_region_end)]: the every-byte sweep runs
    over the lengths 0 … table_region_end (the whole file when it is small)"""
    os.makedirs(dirname, exist_ok=True)
    out = []
    for name, data in sorted(synthetic().items()):
        p = os.path.join(dirname, name)
        with open(p, "wb") as f:
            f.write(data)
        out.append((p, len(data)))
    for f in (os.path.join(vlib.REPO, "test", "test.it"), os.path.join(vlib.REPO, "test", "test.xm")):
        if os.path.exists(f):
            out.append((f, os.path.getsize(f)))
    for ext in (".s3m", ".mod", ".xm", ".it"):
        for f in smallest(ext, 1, lo=1000):
            if f not in [x for x, _ in out]:
                out.append((f, min(os.path.getsize(f), 8192)))
    return out


# --------------------------------------------------------------------------
# archives that will not unpack: every refusal branch, not only truncation / allocation failure
# --------------------------------------------------------------------------

ARCH_EXT = (".lha", ".lzh", ".zip", ".arc", ".gz", ".bz2", ".xz", ".z", ".mmcmp", ".pp", ".lzx", ".sqsh", ".s404", ".muse",
            ".arcfs", ".spark", ".xpk", ".zoo")


def archive_set(dirname, quick=True):
    """Well-formed small archives of every built-in container around one module (writers of the C08 / C09 stacks,
    imported read-only), the liar / bomb generators of C02, and the smallest corpus archives.  Returns
    [(path, fields)] where fields = [(offset, length)] are structure fields known to the writer (may be empty);
    fields = None: run the file as it is, do not derive mutations from it; "light" / "light-mut": a degenerate
    (empty / one-byte / two-byte member) archive, see below."""
    import random
    import c08_writers as w8
    import c09_archives as a9
    import c02_gens
    import liars
    os.makedirs(dirname, exist_ok=True)
    payload = open(os.path.join(vlib.REPO, "test", "test.xm"), "rb").read()
    rng = random.Random(20260930)
    out = []

    def put(name, data, fields=()):
        p = os.path.join(dirname, name)
        with open(p, "wb") as f:
            f.write(data)
        out.append((p, list(fields)))

    for i, a in enumerate(a9.all_writers(rng, payload)):
        put("w9-%02d-%s.%s" % (i, a.get("variant", "x"), a["fmt"]), a["data"], sorted(a["fields"].values()))
    w8set = [
        ("lha0.lha", lambda: w8.lha_archive([("test.xm", payload)], level=0)),
        ("lha1.lha", lambda: w8.lha_archive([("test.xm", payload)], level=1)),
        ("lha2.lha", lambda: w8.lha_archive([("test.xm", payload)], level=2)),
        ("lzw.Z", lambda: w8.compress_lzw(payload)),
        ("lzw12.Z", lambda: w8.compress_lzw(payload, maxbits=12)),
        ("pp20.pp", lambda: w8.pp20(payload)),
        ("mm-stored1.mmcmp", lambda: w8.mmcmp_stored(payload)),
        ("mm-stored3x3.mmcmp", lambda: w8.mmcmp_stored(payload, block_size=600, subs_per_block=3)),
        ("mm-packed-a.mmcmp", lambda: w8.mmcmp_packed(payload, random.Random(5))[0]),
        ("mm-packed-b.mmcmp", lambda: w8.mmcmp_packed(payload, random.Random(6), max_block=300)[0]),
        ("lzx-stored.lzx", lambda: w8.lzx_archive([("test.xm", payload)])),
        ("mm-bomb.mmcmp", lambda: c02_gens.mmcmp_rewrite_bomb(64, 50)),
    ]
    for name, fn in w8set:
        try:
            d = fn()
        except Exception:
            continue
        if isinstance(d, tuple):
            d = d[0]
        put("w8-" + name, bytes(d))
    # degenerate members: WELL-FORMED archives whose (selected) member is empty or one / two bytes long - a depacker
    # that succeeds with nothing (or next to nothing) to hand over; not reachable by corrupting or cutting an archive.
    # Each writer on its own; some containers cannot express an empty member (the writer raises: skipped)
    for tag, pay in (("empty", b""), ("one", b"M"), ("two", b"M.")):
        m1 = [("song.mod", pay)]
        m2 = [("song.mod", pay), ("other.mod", payload)]
        deg = [
            ("gz", lambda: w8.gzip_member(pay, name=b"song.mod")[0]),
            ("gz0", lambda: w8.gzip_member(pay, level=0)[0]),
            ("bz2", lambda: w8.bzip2(pay)),
            ("xz", lambda: w8.xz(pay)),
            ("xz-crc64", lambda: w8.xz(pay, check="crc64")),
            ("zip-deflate", lambda: w8.zip_archive([(n, b, None) for n, b in m1])),
            ("zip-stored", lambda: w8.zip_archive([(n, b, None) for n, b in m1], method="stored")),
            ("zip-streamed", lambda: w8.zip_streamed([(n, b) for n, b in m1])),
            ("zip-first-of-two", lambda: w8.zip_archive([(n, b, None) for n, b in m2], method="stored")),
            ("Z12", lambda: w8.compress_lzw(pay, maxbits=12)),
            ("Z16", lambda: w8.compress_lzw(pay)),
            ("lha0", lambda: w8.lha_archive(m1, level=0)),
            ("lha1", lambda: w8.lha_archive(m1, level=1)),
            ("lha2", lambda: w8.lha_archive(m1, level=2)),
            ("arc1", lambda: w8.arc_archive([(n, b, 1) for n, b in m1])),
            ("arc2", lambda: w8.arc_archive([(n, b, 2) for n, b in m1])),
            ("arc3", lambda: w8.arc_archive([(n, b, 3) for n, b in m1])),
            ("arc-first-of-two", lambda: w8.arc_archive([(n, b, 2) for n, b in m2])),
            ("spark", lambda: w8.arc_archive([(n, b, 2) for n, b in m1], spark=True)),
            ("arcfs", lambda: w8.arcfs_archive([(n, b, 2) for n, b in m1])),
            ("lzx", lambda: w8.lzx_archive(m1)),
            ("pp20", lambda: w8.pp20(pay)),
            ("mmcmp", lambda: w8.mmcmp_stored(pay, block_size=400, subs_per_block=1)),
        ]
        for name, fn in deg:
            try:
                d = fn()
            except Exception:
                continue
            if isinstance(d, tuple):
                d = d[0]
            put("deg-%s-%s.bin" % (tag, name), bytes(d))
            # run intact through every unpacking entry point, cut at every byte, every allocation failing; only the
            # empty-member archives are also corrupted, lightly (two values per byte): the refusal branches of the
            # depackers are covered by the full-size archives above
            out[-1] = (out[-1][0], "light-mut" if tag == "empty" else "light")
    # liars declare huge sizes: each call costs up to a second - they are run intact only (fields = None)
    for p in liars.write_set(random.Random(7), os.path.join(dirname, "liars"), 16 if quick else 64):
        out.append((p, None))
    small = [f for f in vlib.corpus_files() if 64 <= os.path.getsize(f) <= 4096
             and (f.lower().endswith(ARCH_EXT) or os.path.basename(f).lower().startswith(("depack_", "arc-", "mmcmp")))]
    small.sort(key=lambda f: (os.path.getsize(f), f))
    for f in small[:12 if quick else 80]:
        out.append((f, []))
    return out


def light_specs(data):
    """two replacement values for every byte of a tiny archive"""
    out = []
    for o, cur in enumerate(data[:160]):
        for v in (0xff, (cur + 1) & 0xff):
            if v != cur:
                out.append("%d:%d" % (o, v))
    return out


def mutation_specs(data, fields, rng, quick=True):
    """byte-replacement specs for `c04_faults mutate`: every byte of the header region, of the trailer and of the fields
    the writer knows, with values that make sizes overshoot / undershoot, flip method and flag bits"""
    n = len(data)
    head = 112 if quick else 256
    tail = 24 if quick else 64
    offs = set(range(0, min(n, head))) | set(range(max(0, n - tail), n))
    for (o, ln) in fields:
        offs |= set(range(o, min(n, o + min(ln, 64))))
    specs = []
    for o in sorted(offs):
        cur = data[o]
        vals = [0x00, 0xff, cur ^ 0x80, (cur + 1) & 0xff]
        if not quick:
            vals += [cur ^ 0x01, cur ^ 0x10, (cur - 1) & 0xff, 0x7f]
        seen = set()
        for v in vals:
            if v != cur and v not in seen:
                seen.add(v)
                specs.append("%d:%d" % (o, v))
    # a few two-byte edits (a size field and its neighbour)
    for _ in range(20 if quick else 200):
        o = rng.randrange(0, max(1, min(n - 1, head)))
        specs.append("%d:%d,%d:%d" % (o, rng.randrange(256), o + 1, rng.randrange(256)))
    return specs


# --------------------------------------------------------------------------
# multi-file formats: module + companion file(s)
# --------------------------------------------------------------------------

def companion_worlds(dirname):
    """Every loader that opens a second file (flt_load: <module>.NT/.nt/.AS/.as; mfp_load: smp.<name>; med2/med3/med4,
    mod and stm song files: external instruments found through the instrument path).  Returns
    [dict(name, module, companion, inspath)]; the companion is intact on disk."""
    import shutil
    import c10_opens
    data = os.path.join(vlib.REPO, "test-dev", "data", "m")
    out = []

    def world(name):
        d = os.path.join(dirname, name)
        shutil.rmtree(d, ignore_errors=True)
        os.makedirs(d)
        return d

    def cp(src, dst):
        with open(src, "rb") as f:
            b = f.read()
        with open(dst, "wb") as f:
            f.write(b)

    zob, nt = os.path.join(data, "zob-the-zob.mod"), os.path.join(data, "zob-the-zob.mod.nt")
    if os.path.exists(zob) and os.path.exists(nt):
        for suf in ("nt", "NT", "as", "AS"):
            d = world("flt-" + suf)
            cp(zob, os.path.join(d, "zob.mod"))
            cp(nt, os.path.join(d, "zob.mod." + suf))
            out.append(dict(name="flt-" + suf, module=os.path.join(d, "zob.mod"), companion=os.path.join(d, "zob.mod." + suf), inspath=None))
    # a Startrekker module made from scratch (FLT4 header, no samples) with an AudioSculpture companion
    d = world("flt-synth")
    with open(os.path.join(d, "song.flt"), "wb") as f:
        f.write(c10_opens.flt_module())
    with open(os.path.join(d, "song.flt.NT"), "wb") as f:
        f.write(b"ST1.3 ModuleINFO" + bytes((i * 5) & 0x3f for i in range(24 + 120 * 31)))
    out.append(dict(name="flt-synth", module=os.path.join(d, "song.flt"), companion=os.path.join(d, "song.flt.NT"), inspath=None))
    mfp, smp = os.path.join(data, "mfp.crystaldragon title"), os.path.join(data, "smp.crystaldragon title")
    if os.path.exists(mfp) and os.path.exists(smp):
        d = world("mfp")
        cp(mfp, os.path.join(d, "mfp.crystal"))
        cp(smp, os.path.join(d, "smp.crystal"))
        out.append(dict(name="mfp", module=os.path.join(d, "mfp.crystal"), companion=os.path.join(d, "smp.crystal"), inspath=None))
    sample = bytes((i * 29 + 3) & 0xff for i in range(64))
    songs = [("modsong", "song.mod", lambda: c10_opens.mod_song([b"kick"])),
             ("stmsong", "song.stm", lambda: c10_opens.stm_song([b"kick"])),
             ("med2", "song.med", lambda: c10_opens.med2_song(b"kick")),
             ("med3", "song.med", lambda: c10_opens.med3_song(b"kick")),
             ("med4", "song.med", lambda: c10_opens.med4_song([b"kick", b"kick", b"kick"]))]
    for name, fn, gen in songs:
        try:
            blob = gen()
        except Exception:
            continue
        d = world(name)
        with open(os.path.join(d, fn), "wb") as f:
            f.write(blob)
        with open(os.path.join(d, "kick"), "wb") as f:
            f.write(sample)
        out.append(dict(name=name, module=os.path.join(d, fn), companion=os.path.join(d, "kick"), inspath=d))
    return out
