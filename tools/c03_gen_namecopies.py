#!/usr/bin/env python3
"""Translator: sweep of the format loaders (src/loaders/*.c) for the two hand-rolled
idioms behind the C03 clauses `names` and `rows`.

Writes lean/XmpModel/Gen/C03NameCopies.lean from /repo's *current* sources:

  * every call that writes into a fixed-size public name array — `mod->name`,
    `mod->type` (XMP_NAME_SIZE), `xxi[i].name`, `xxs[i].name` (32), also through
    local `struct xmp_instrument * / xmp_sample *` aliases — with `hio_read`,
    `memcpy`, `strncpy`, `libxmp_copy_adjust`, `snprintf`, `strcpy`, `sprintf`,
    together with the number of bytes it can write where that is syntactically
    visible: a literal, an expression over XMP_NAME_SIZE, or a variable whose
    upper bound is visible in the same function (`CLAMP(v, lo, hi)`,
    `if (v … > N) return/goto`, `v = v > N ? N : v`), and an explicit terminator
    store (`dest[k] = 0`) right after it;
  * every store to `xxp[..]->rows` / `xxt[..]->rows` outside loaders/common.c with
    the way a zero is excluded: constant, `… + 1`, an explicit test on the value
    in the same function, or the allocation helper that refuses 0 rows
    (`libxmp_alloc_tracks_in_pattern` / `libxmp_alloc_track`).

The arrays are zero-filled before the loader runs (prologue memset, calloc), so a
write of at most size-1 bytes leaves a terminated name.  `nameCopies_bounded` and
`rowStores_guarded` (XmpProofs/LoadPostSweep.lean, `decide`) require every visible
bound to fit and every rows store to be guarded; sites whose bound is not visible
are counted and stay covered by the run-time evaluation of LoaderOblig (`names`).
"""
import os
import re
import sys

sys.path.insert(0, os.path.dirname(os.path.abspath(__file__)))
import vlib  # noqa: E402
from c03_gen_guards import strip_comments, functions  # noqa: E402

OUT = os.path.join(vlib.LEAN, "XmpModel", "Gen", "C03NameCopies.lean")
NAME_SIZE = 64      # XMP_NAME_SIZE, cross-checked against Gen/Limits by the theorem
INS_NAME = 32

APIS = ("hio_read", "memcpy", "strncpy", "libxmp_copy_adjust", "snprintf", "strcpy", "sprintf", "strlcpy", "memmove")


def split_args(s):
    """top-level comma split of an argument list (without the outer parentheses)"""
    out, depth, cur = [], 0, ""
    for ch in s:
        if ch in "([":
            depth += 1
        elif ch in ")]":
            depth -= 1
        if ch == "," and depth == 0:
            out.append(cur.strip())
            cur = ""
        else:
            cur += ch
    out.append(cur.strip())
    return out


def call_args(text, pos):
    """text[pos] is '(' : returns (args string, end index)"""
    depth, i = 0, pos
    while i < len(text):
        if text[i] == "(":
            depth += 1
        elif text[i] == ")":
            depth -= 1
            if depth == 0:
                return text[pos + 1:i], i
        i += 1
    return text[pos + 1:], len(text)


def const_value(expr):
    """integer value of a constant expression over literals and XMP_NAME_SIZE, else None"""
    e = expr.strip()
    e = re.sub(r"\bXMP_NAME_SIZE\b", str(NAME_SIZE), e)
    e = re.sub(r"\(\s*(int|size_t|long|unsigned)\s*\)", "", e)
    if not re.fullmatch(r"[\d\sxXa-fA-F+\-*()]+", e) or not re.search(r"\d", e):
        return None
    try:
        return int(eval(e, {"__builtins__": {}}))       # digits and + - * ( ) only
    except Exception:
        return None


def var_upper_bound(body_before, var):
    """upper bound of an int variable visible in the text of the function before the call"""
    v = re.escape(var)
    best = None
    for m in re.finditer(r"CLAMP\s*\(\s*%s\s*,\s*([^,]+),\s*([^)]+)\)" % v, body_before):
        best = const_value(m.group(2))
    for m in re.finditer(r"if\s*\([^;{]*?\b%s\s*>\s*([^|&)]+)\)[^;]*?(return|goto)" % v, body_before):
        c = const_value(m.group(1))
        if c is not None:
            best = c if best is None else min(best, c)
    for m in re.finditer(r"if\s*\([^;{]*?\b%s\s*>=\s*([^|&)]+)\)[^;]*?(return|goto)" % v, body_before):
        c = const_value(m.group(1))
        if c is not None:
            best = c - 1 if best is None else min(best, c - 1)
    for m in re.finditer(r"\b%s\s*=\s*%s\s*>\s*([^?]+)\?\s*([^:]+):\s*%s\s*;" % (v, v, v), body_before):
        c = const_value(m.group(2))
        if c is not None:
            best = c if best is None else min(best, c)
    for m in re.finditer(r"if\s*\(\s*%s\s*>\s*([^)]+)\)\s*\{?\s*%s\s*=\s*([^;]+);" % (v, v), body_before):
        c = const_value(m.group(2))
        if c is not None:
            best = c if best is None else min(best, c)
    return best


def dest_size(dest, aliases):
    d = re.sub(r"\(\s*(char|uint8|unsigned char|void)\s*\*\s*\)", "", dest).strip().lstrip("&").strip()
    if re.fullmatch(r"(mod->|m->mod\.)(name|type)", d):
        return NAME_SIZE, d
    if re.fullmatch(r"(mod->|m->mod\.)xx[is]\[[^\]]*\]\.name", d) or re.fullmatch(r"xx[is]\[[^\]]*\]\.name", d):
        return INS_NAME, d
    m = re.fullmatch(r"(\w+)->name", d)
    if m and (m.group(1) in aliases or m.group(1) in ("xxi", "xxs")):
        return INS_NAME, d
    m = re.fullmatch(r"(\w+)\[[^\]]*\]\.name", d)
    if m and m.group(1) in aliases:
        return INS_NAME, d
    return None, d


def sweep():
    src = os.path.join(vlib.REPO, "src", "loaders")
    names, rows = [], []
    subs_raw, file_stores = [], {}
    for fn in sorted(os.listdir(src)):
        if not fn.endswith(".c") or fn == "common.c":
            continue
        text = strip_comments(open(os.path.join(src, fn), errors="replace").read())
        lines = text.split("\n")
        offs = [0]
        for l in lines:
            offs.append(offs[-1] + len(l) + 1)
        funcs = functions(text)
        for fname, a, b in funcs:
            body = "\n".join(lines[a:b + 1])
            base = offs[a]
            aliases = set(re.findall(r"struct\s+xmp_(?:instrument|sample)\s*\*\s*(\w+)", body))
            for m in re.finditer(r"\b(%s)\s*\(" % "|".join(APIS), body):
                api = m.group(1)
                args_s, end = call_args(body, m.end() - 1)
                args = split_args(args_s)
                if len(args) < 2:
                    continue
                size, dest = dest_size(args[0], aliases)
                if size is None:
                    continue
                before = body[:m.start()]
                # `sizeof(<destination>)` / `sizeof <destination>` is the array size itself
                dtxt = re.sub(r"^\(.*?\)\s*", "", dest)
                szrx = r"sizeof\s*\(\s*" + re.escape(dtxt) + r"\s*\)|sizeof\s+" + re.escape(dtxt) + r"(?![\w\[.>-])"
                args = [args[0]] + [re.sub(szrx, str(size), a) for a in args[1:]]
                if api == "hio_read" and len(args) >= 3:
                    ea, eb = args[1], args[2]
                    va, vb = const_value(ea), const_value(eb)
                    if va is None and re.fullmatch(r"\w+", ea):
                        va = var_upper_bound(before, ea)
                    if vb is None and re.fullmatch(r"\w+", eb):
                        vb = var_upper_bound(before, eb)
                    bound = va * vb if va is not None and vb is not None else None
                    kind = "raw"
                elif api in ("memcpy", "strncpy", "memmove", "strlcpy") and len(args) >= 3:
                    bound = const_value(args[2])
                    if bound is None and re.fullmatch(r"\w+", args[2]):
                        bound = var_upper_bound(before, args[2])
                    kind = "raw" if api != "strlcpy" else "sized"
                elif api == "libxmp_copy_adjust" and len(args) >= 3:
                    bound = const_value(args[2])
                    if bound is None and re.fullmatch(r"\w+", args[2]):
                        bound = var_upper_bound(before, args[2])
                    kind = "plus1"
                elif api == "snprintf":
                    bound = const_value(args[1])
                    kind = "sized"
                else:                                   # strcpy / sprintf: nothing visible
                    bound, kind = None, "raw"
                # explicit terminator right after the call: dest[k] = 0 / '\0'
                after = body[end:end + 260]
                term = None
                dtext = re.sub(r"^\(.*?\)\s*", "", dest)
                k0 = after.find(dtext + "[")
                if k0 >= 0:
                    depth, k1 = 0, k0 + len(dtext)
                    while k1 < len(after):
                        depth += {"[": 1, "]": -1}.get(after[k1], 0)
                        if depth == 0:
                            break
                        k1 += 1
                    idx = after[k0 + len(dtext) + 1:k1]
                    if re.match(r"\s*=\s*('\\0'|0)\s*;", after[k1 + 1:]):
                        texpr = idx.replace("sizeof(" + dtext + ")", str(size)).replace("sizeof (" + dtext + ")", str(size))
                        term = const_value(texpr)
                        if term is None and re.fullmatch(r"\w+", idx.strip()):
                            term = var_upper_bound(before, idx.strip())
                names.append((fn, fname, api, size, kind, bound, term))
            # ---- rows stores
            for m in re.finditer(r"(xx[pt]\s*\[[^\]]*\]\s*->\s*rows)\s*=(?!=)\s*([^;]+);", body):
                lhs, rhs = m.group(1), m.group(2).strip()
                rhs = re.sub(r"^\w+\s*=\s*", "", rhs)          # `a->rows = num_rows = expr`
                ln_after = body[m.end():m.end() + 700]
                before = body[:m.start()][-900:]
                c = const_value(rhs)
                var = rhs if re.fullmatch(r"[\w.\->]+", rhs) else None
                lhs_rx = re.escape(re.sub(r"\s+", "", lhs)).replace(r"\[", r"\s*\[").replace(r"\]", r"\]\s*")
                zero_test = r"(%s)\s*(==\s*0|<=\s*0|<\s*1)"
                cls = "unguarded"
                if c is not None:
                    cls = "const" if c >= 1 else "unguarded"
                elif re.search(r"\+\s*1\s*$", rhs) and "-" not in rhs:
                    cls = "plus1"
                elif re.search(r"\?\s*[^:]+:\s*\d+\s*$", rhs) and re.search(zero_test % r"[\w\[\]\->.]*rows", re.sub(r"\s+", "", ln_after[:300])):
                    cls = "tested"
                elif var and (re.search(zero_test % re.escape(var), before) or re.search(r"!\s*%s\b" % re.escape(var), before)
                              or re.search(zero_test % re.escape(var), ln_after[:300])):
                    cls = "tested"
                elif re.search(zero_test % r"[\w\[\]\->.]*rows", re.sub(r"\s+", " ", ln_after[:200])):
                    cls = "tested"
                elif re.search(r"libxmp_alloc_tracks_in_pattern\s*\(", ln_after[:400]) or \
                        re.search(r"libxmp_alloc_track\s*\([^;]*\b%s\b" % re.escape(var or "rows"), before[-400:]):
                    cls = "helper"
                rows.append((fn, fname, "pattern" if "xxp" in lhs else "track", cls))
            # ---- sub-instrument allocations vs the stored nsm
            stores = [norm(m.group(1)) for m in re.finditer(r"\bnsm\s*=(?!=)\s*([^;]+);", body)]
            file_stores.setdefault(fn, []).extend(stores)
            for m in re.finditer(r"\blibxmp_alloc_subinstrument\s*\(", body):
                args_s, _ = call_args(body, m.end() - 1)
                args = split_args(args_s)
                if len(args) < 3:
                    continue
                subs_raw.append((fn, fname, norm(args[2]), stores))
    subs = []
    for fn, fname, cnt, stores in subs_raw:
        subs.append((fn, fname, cnt, sub_class(cnt, stores, file_stores.get(fn, []))))
    return sorted(set(names), key=lambda t: (t[0], t[1], t[2], str(t[5]))), sorted(set(rows)), sorted(set(subs))


def norm(e):
    return re.sub(r"\s+", "", e)


def at_most(rhs, c):
    """the stored nsm expression is at most the literal c by its form"""
    v = const_value(rhs)
    if v is not None:
        return v <= c
    if c >= 1 and (re.fullmatch(r"!!\(?[\w\[\]\->.]+\)?", rhs) or re.fullmatch(r"\(?[\w\[\]\->.]+>0\)?", rhs)
                   or re.fullmatch(r"[^?]+\?1:0", rhs) or re.fullmatch(r"[^?]+\?0:1", rhs)):
        return True
    return False


def sub_class(cnt, stores, file_stores):
    """how the count passed to libxmp_alloc_subinstrument relates to the nsm the loader stores:
    lvalue   the count IS an nsm field (…nsm)
    sameExpr the same expression is stored into nsm in the same function (other stores there only store 0)
    literal  a literal count; every nsm store of the function (of the file when the function has none) is at
             most that literal by its form (literal, boolean, `c ? 1 : 0`)
    other    none of these"""
    if re.search(r"(->|\.)nsm$", cnt):
        return "lvalue"
    c = const_value(cnt)
    if c is not None:
        pool = stores if stores else file_stores
        if all(at_most(r, c) for r in pool):
            return "literal"
        return "other"
    if cnt in stores and all(r == cnt or const_value(r) == 0 for r in stores):
        return "sameExpr"
    return "other"


def generate():
    names, rows, subs = sweep()

    def opt(v):
        return "none" if v is None else "(some %d)" % v
    lines = ["/-! GENERATED by tools/c03_gen_namecopies.py from /repo (src/loaders/*.c).",
             "Writes into the fixed-size public name arrays and stores to pattern / track row counts in the format",
             "loaders.  Do not edit: regenerated on every run of the C03 check. -/",
             "namespace Xmp.Gen.C03NameCopies", "",
             "/-- how many bytes a call writes for a bound `n`: `raw` n bytes (hio_read, memcpy, strncpy: no terminator),",
             "`plus1` n + 1 (libxmp_copy_adjust clears n + 1 bytes), `sized` at most n including the terminator (snprintf) -/",
             "inductive Extent where", "  | raw | plus1 | sized", "  deriving DecidableEq, Repr", "",
             "structure NameCopy where", "  file : String", "  func : String", "  api : String",
             "  size : Nat            -- size of the destination array",
             "  extent : Extent", "  bound : Option Nat    -- visible upper bound of the count argument",
             "  term : Option Nat     -- index of an explicit terminator store right after the call",
             "  deriving DecidableEq, Repr", "",
             "def nameCopies : List NameCopy := ["]
    lines.append(",\n".join('  ⟨"%s", "%s", "%s", %d, .%s, %s, %s⟩' % (f, fu, api, size, kind, opt(b), opt(t))
                            for f, fu, api, size, kind, b, t in names))
    lines += ["]", "", "inductive RowGuard where", "  | const | plus1 | tested | helper | unguarded", "  deriving DecidableEq, Repr", "",
              "/-- stores to `xxp[..]->rows` / `xxt[..]->rows` outside loaders/common.c: (file, function, pattern|track, guard) -/",
              "def rowStores : List (String × String × String × RowGuard) := ["]
    lines.append(",\n".join('  ("%s", "%s", "%s", .%s)' % r for r in rows))
    lines += ["]", "", "inductive SubCount where", "  | lvalue | sameExpr | literal | other", "  deriving DecidableEq, Repr", "",
              "/-- calls of `libxmp_alloc_subinstrument(mod, i, count)` in the loaders: (file, function, count expression,",
              "relation of the count to the `nsm` the loader stores) -/",
              "def subAllocs : List (String × String × String × SubCount) := ["]
    lines.append(",\n".join('  ("%s", "%s", "%s", .%s)' % t for t in subs))
    lines += ["]", "", "end Xmp.Gen.C03NameCopies", ""]
    changed = vlib.write_if_changed(OUT, "\n".join(lines))
    return {"names": names, "rows": rows, "subs": subs, "changed": changed}


if __name__ == "__main__":
    r = generate()
    for t in r["names"]:
        size, kind, b, term = t[3], t[4], t[5], t[6]
        lim = size - 1 if kind != "sized" else size
        flag = "DYNAMIC" if b is None else ("OK" if (b <= lim or (term is not None and term <= size - 1 and b <= size and kind == "raw")) else "TOO-BIG")
        print(flag, t)
    for t in r["rows"]:
        print(t)
    for t in r["subs"]:
        print(t)
