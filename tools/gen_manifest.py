#!/usr/bin/env python3
"""Regenerates /verif/MANIFEST.json from the per-property metadata found in
tools/checks/cNN.py (module attribute MANIFEST = dict(text=…, note=…, technique=…,
design_ref=…, category=…)).  Properties without a check module are listed under
not_applicable with the reason given in PENDING below."""
import importlib
import json
import os
import sys

HERE = os.path.dirname(os.path.abspath(__file__))
sys.path.insert(0, HERE)
VERIF = os.path.dirname(HERE)

PENDING = {}
# Checks the coordinator has reviewed (several seeds clean on the unchanged tree, seeded defects tried).
# Anything else stays under not_applicable until reviewed.
APPROVED = [l.strip() for l in open(os.path.join(os.path.dirname(HERE), "APPROVED_CHECKS.txt")) if l.strip() and not l.startswith("#")]


def main():
    props = [json.loads(l)["id"] for l in open(os.path.join(VERIF, "properties.jsonl"))]
    checks, na, engines = [], [], []
    for pid in props:
        path = os.path.join(HERE, "checks", pid.lower() + ".py")
        if not os.path.exists(path) or pid not in APPROVED:
            na.append({"property_id": pid, "reason": PENDING.get(pid, "check not built yet in this round (design in DESIGN.md section 4); not claimed")})
            continue
        mod = importlib.import_module("checks." + pid.lower())
        meta = getattr(mod, "MANIFEST", None)
        if meta is None or meta.get("disabled"):
            na.append({"property_id": pid, "reason": (meta or {}).get("disabled", "check module incomplete; not claimed")})
            continue
        checks.append({
            "property_id": pid,
            "quick_cmd": "python3 tools/check.py %s --tier quick" % pid,
            "thorough_cmd": "python3 tools/check.py %s --tier thorough" % pid,
            "evidence_file": "evidence/%s.json" % pid,
            "replay_cmd_template": "python3 tools/check.py %s --replay {path}" % pid,
            "engine": "lean4-proof+correspondence",
            "level_claimed": {"category": meta.get("category", "proof"), "text": meta["text"],
                              "design_ref": meta.get("design_ref", "DESIGN.md section 4, " + pid)},
            "level_note": meta["note"],
            "technique": meta.get("technique", "Lean 4 theorems over a hand-written model + differential correspondence with the C code"),
        })
    man = {
        "version": 1,
        "setup_cmd": "python3 tools/setup.py",
        "hooks": {
            "guard": "LIBXMP_VERIF",
            "enable": "checks build /repo with clang-14 -DLIBXMP_VERIF (tools/vlib.py build_repo); no source hook is needed so far: statics are reached by translation-unit inclusion, internal calls by preprocessor renaming, faults by linker --wrap",
            "baseline_off_cmd": "cmake -G Ninja -S /repo -B /repo/_build -DWITH_UNIT_TESTS=ON -DCMAKE_BUILD_TYPE=RelWithDebInfo && cmake --build /repo/_build -j16 && ctest --test-dir /repo/_build -j8 --timeout 900",
            "source_commits": [],
            "add_only": True,
        },
        "engines": [
            {"name": "lean4-proof+correspondence", "path": "lean/ tools/check.py tools/vlib.py harness/",
             "serves_properties": [c["property_id"] for c in checks],
             "kind_free_text": "Lean 4.33 theorems (kernel-checked on every run, axioms audited) over hand-written executable models; "
                               "models tied to /repo's working tree by (T) generated Lean tables/constants and (C) differential execution of a native "
                               "Lean driver against a clang ASan+UBSan build of the real code; a direct property oracle searches for replayable failing inputs"},
        ],
        "checks": checks,
        "notes": "See DESIGN.md. known_findings.json lists genuine defects recorded or fixed. Exit 2 + 'ERROR' = infrastructure failure, never a VIOLATION.",
        "not_applicable": na,
    }
    json.dump(man, open(os.path.join(VERIF, "MANIFEST.json"), "w"), indent=1)
    print("MANIFEST.json: %d checks, %d not claimed" % (len(checks), len(na)))


if __name__ == "__main__":
    main()
