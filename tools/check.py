#!/usr/bin/env python3
"""Entry point of every registered check.

  python3 tools/check.py C12 --tier quick|thorough      (env VERIF_SEED, VERIF_TIER)
  python3 tools/check.py C12 --replay out/replay-C12-….json

exit 0: the property held on everything explored (KNOWN-FINDING lines may be printed)
exit 1: `VIOLATION property=<id> replay=<path>[ no-failing-input-found]`
exit 2: infrastructure error (`ERROR …`), never a VIOLATION line
"""
import argparse
import importlib
import os
import sys
import traceback

sys.path.insert(0, os.path.dirname(os.path.abspath(__file__)))
import vlib  # noqa: E402


def main():
    ap = argparse.ArgumentParser()
    ap.add_argument("prop")
    ap.add_argument("--tier", default=os.environ.get("VERIF_TIER", "quick"), choices=["quick", "thorough"])
    ap.add_argument("--seed", type=int, default=int(os.environ.get("VERIF_SEED", "1") or 1))
    ap.add_argument("--replay", default=None)
    a = ap.parse_args()
    prop = a.prop.upper()
    try:
        mod = importlib.import_module("checks." + prop.lower())
    except ImportError as e:
        print("ERROR no check module for %s: %s" % (prop, e))
        return 2
    ck = vlib.Check(prop, a.tier, a.seed, level=getattr(mod, "LEVEL", "proof"))
    try:
        if a.replay:
            import json
            rp = json.load(open(a.replay))
            if not hasattr(mod, "replay"):
                print("ERROR %s has no replay support" % prop)
                return 2
            return mod.replay(ck, rp)
        mod.run(ck)
        return ck.finish()
    except vlib.InfraError as e:
        print("ERROR " + str(e))
        return 2
    except Exception:
        traceback.print_exc()
        print("ERROR unexpected exception in check %s" % prop)
        return 2


if __name__ == "__main__":
    sys.exit(main())
