#!/usr/bin/env python3
"""Synthetic modules for C13 whose *timeline* is driven by per-tick channel effects (written from scratch,
deterministic in the seed): Impulse Tracker files (sample mode) with tempo slides T0x / T1x / T00, set tempo Txx,
set speed Axx, pattern delay SEx, fine pattern delay S6x, pattern loops SB0/SBx, note delays SDx, note cuts SCx,
position jumps / breaks — spread over several channels, some of them otherwise silent, so that bpm, speed, frame time
and the row clock depend on effects that run inside the per-tick channel update (play_channel), not in the row
reader alone.  Every output configuration (and volume setting) must report the same timeline for them."""
import os
import random
import struct


def it_timeline(rng, variant):
    nchn = rng.choice([2, 3, 4, 6])
    nrows = 64
    npat = 2
    # effect letters: A=1 B=2 C=3 S=19 T=20
    slide = [(20, 0x12), (20, 0x03), (20, 0x00), (20, 0x1F), (20, 0x0F), (20, 0x11), (20, 0x01)]
    other = [(1, 3), (1, 5), (1, 6), (1, 2), (20, 0x60), (20, 0x90), (20, 0xFF), (20, 0x20),
             (19, 0xE2), (19, 0xE1), (19, 0x63), (19, 0x61), (19, 0xD2), (19, 0xD1), (19, 0xC1)]
    pats = []
    for pno in range(npat):
        data = bytearray()
        loop_open = False
        for r in range(nrows):
            for c in range(nchn):
                ev = {}
                if c == 0 and r % 8 == 0:
                    ev["note"], ev["ins"] = rng.choice([48, 60, 67]), 1
                elif c > 0 and rng.random() < 0.06:
                    ev["note"], ev["ins"] = rng.choice([36, 55, 72]), 1 + c % 2
                fx = None
                u = rng.random()
                if variant in ("slide", "mixed") and c == nchn - 1 and u < 0.55:
                    fx = rng.choice(slide)            # the last channel never plays a note: tempo slides only
                elif variant in ("delay", "mixed") and u < 0.10:
                    fx = rng.choice(other)
                elif variant == "slide" and c == 0 and u < 0.05:
                    fx = rng.choice(other[:8])
                if variant == "mixed" and c == 1 and fx is None:
                    if not loop_open and r % 16 == 4:
                        fx, loop_open = (19, 0xB0), True
                    elif loop_open and r % 16 == 7:
                        fx, loop_open = (19, 0xB0 | rng.randrange(1, 3)), False
                if c == 0 and r == nrows - 1 and pno == npat - 1 and rng.random() < 0.5:
                    fx = (2, 0)                       # B00: loop the song
                if fx is not None:
                    ev["fx"] = fx
                if not ev:
                    continue
                mask = (1 if "note" in ev else 0) | (2 if "ins" in ev else 0) | (8 if "fx" in ev else 0)
                data += bytes([(c + 1) | 0x80, mask])
                if "note" in ev:
                    data.append(ev["note"])
                if "ins" in ev:
                    data.append(ev["ins"])
                if "fx" in ev:
                    data += bytes(ev["fx"])
            data.append(0)
        pats.append(struct.pack("<HHI", len(data), nrows, 0) + bytes(data))
    orders = bytes([0, 1, 0, 255])
    smps = [(64, True), (900, False)]
    hdr = bytearray(b"IMPM" + ("c13 timeline " + variant).encode().ljust(26, b"\0") + b"\x04\x10")
    hdr += struct.pack("<HHHH", len(orders), 0, len(smps), npat)
    hdr += struct.pack("<HHHH", 0x0214, 0x0214, 0x09, 0)
    hdr += bytes([128, 48, rng.choice([3, 6]), rng.choice([125, 90, 180]), 128, 0]) + struct.pack("<HII", 0, 0, 0)
    hdr += bytes([32] * nchn + [0xA0] * (64 - nchn)) + bytes([64] * 64)
    off = 192 + len(orders) + 4 * (len(smps) + npat)
    soff = [off + 80 * i for i in range(len(smps))]
    off += 80 * len(smps)
    poff = []
    for pb in pats:
        poff.append(off)
        off += len(pb)
    shdr, sdata = [], []
    for (n, loop) in smps:
        sh = bytearray(b"IMPS" + b"w.raw".ljust(12, b"\0") + b"\0" + bytes([64, 1 | (0x10 if loop else 0), 64]))
        sh += b"wave".ljust(26, b"\0") + bytes([1, 32])
        sh += struct.pack("<IIII", n, 0, n if loop else 0, 8363) + struct.pack("<III", 0, 0, off) + bytes(4)
        shdr.append(bytes(sh).ljust(80, b"\0"))
        sdata.append(bytes(rng.randrange(0, 256) for _ in range(n)))
        off += n
    return (bytes(hdr) + orders + b"".join(struct.pack("<I", x) for x in soff + poff) + b"".join(shdr) + b"".join(pats)
            + b"".join(sdata))


def generate(outdir, seed, count=2):
    os.makedirs(outdir, exist_ok=True)
    paths = []
    for k in range(count):
        for variant in ("slide", "delay", "mixed"):
            rng = random.Random(seed * 2750159 + k * 1299709 + hash(variant) % 1 + {"slide": 0, "delay": 1, "mixed": 2}[variant] * 7919)
            p = os.path.join(outdir, "c13tl_%d_%d_%s.it" % (seed, k, variant))
            data = it_timeline(rng, variant)
            try:
                same = open(p, "rb").read() == data
            except OSError:
                same = False
            if not same:
                open(p, "wb").write(data)
            paths.append(p)
    return paths


if __name__ == "__main__":
    import sys
    print("\n".join(generate(sys.argv[1] if len(sys.argv) > 1 else "/tmp/c13synth", 1)))
