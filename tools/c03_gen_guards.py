#!/usr/bin/env python3
"""Translator: the player-side guards on instrument / sub-instrument / sample
references (C03, goal "out-of-range references are rendered harmless").

Writes lean/XmpModel/Gen/C03Guards.lean from /repo's *current* sources:
  * the texts of IS_VALID_INSTRUMENT / IS_VALID_SAMPLE / IS_VALID_NOTE in
    src/player.h (white space removed) and whether each is the text the Lean model
    `XmpModel/LoadPostPlayer.lean` mirrors;
  * the shape of `get_subinstrument` (src/read_event.c) and of
    `libxmp_get_sample` / `libxmp_get_instrument` (src/smix.c): the guard
    expressions the model relies on, found by regular expressions on the function
    bodies;
  * every READ of a sub-instrument's `sid` outside the loaders (src/*.c), with its
    enclosing function and a class:
      guarded  the value reaches IS_VALID_SAMPLE( within the next lines of the same function
      compare  only compared with another sample number
      trusted  used as an index / stored without a range test
    `sidSites_known` (XmpProofs/LoadPostPlayer.lean, `decide`) pins the trusted
    ones, so a new unguarded use breaks a proof obligation;
  * the writable process-wide data (file-scope and function-scope `static`
    non-const objects, from `objdump -t` on the compiled objects) of the common
    load path: load.c, load_helpers.c, scan.c, loaders/common.c, loaders/sample.c,
    loaders/iff.c.  `loadPath_no_statics` requires the list to be empty: the
    post-load path must not share state between contexts.
"""
import os
import re
import sys

sys.path.insert(0, os.path.dirname(os.path.abspath(__file__)))
import vlib  # noqa: E402
from gen_limits import function_body  # noqa: E402

OUT = os.path.join(vlib.LEAN, "XmpModel", "Gen", "C03Guards.lean")

EXPECT = {
    "IS_VALID_INSTRUMENT": "((uint32)(x)<mod->ins&&mod->xxi[(x)].nsm>0)",
    "IS_VALID_SAMPLE": "((uint32)(x)<mod->smp&&mod->xxs[(x)].data!=NULL)",
    "IS_VALID_NOTE": "((uint32)(x)<XMP_MAX_KEYS)",
}

# name -> (file below src/, function, regex on the function body with white space removed)
SHAPES = {
    "getSubInstrumentGuard": ("read_event.c", "get_subinstrument", r"if\(IS_VALID_INSTRUMENT\(ins\)\)\{"),
    "getSubNoteGuard": ("read_event.c", "get_subinstrument", r"if\(IS_VALID_NOTE\(key\)\)\{intmapped=instrument->map\[key\]\.ins;"),
    "getSubMappedGuard": ("read_event.c", "get_subinstrument",
                          r"if\(mapped!=0xff&&mapped>=0&&mapped<instrument->nsm\)return&instrument->sub\[mapped\];"),
    "getSubDefault": ("read_event.c", "get_subinstrument", r"\}else\{if\(mod->xxi\[ins\]\.nsm>0\)\{return&instrument->sub\[0\];\}\}"),
    "getSubNull": ("read_event.c", "get_subinstrument", r"returnNULL;\}?$"),
    "getSampleNeg": ("smix.c", "libxmp_get_sample", r"if\(smp<0\)\{xxs=NULL;\}"),
    "getSampleMod": ("smix.c", "libxmp_get_sample", r"elseif\(smp<mod->smp\)\{xxs=&mod->xxs\[smp\];\}"),
    "getSampleSmix": ("smix.c", "libxmp_get_sample", r"elseif\(smp<mod->smp\+smix->smp\)\{xxs=&smix->xxs\[smp-mod->smp\];\}else\{xxs=NULL;\}"),
    "getInstrumentNeg": ("smix.c", "libxmp_get_instrument", r"if\(ins<0\)\{xxi=NULL;\}"),
    "getInstrumentMod": ("smix.c", "libxmp_get_instrument", r"elseif\(ins<mod->ins\)\{xxi=&mod->xxi\[ins\];\}"),
}


def strip_comments(text):
    text = re.sub(r"/\*.*?\*/", lambda m: "\n" * m.group(0).count("\n"), text, flags=re.S)
    return re.sub(r"//[^\n]*", "", text)


def functions(text):
    """[(name, first line, last line)] of the function definitions of a C file (brace matching
    from a line that starts at column 0 with an identifier and ends a parameter list)."""
    out = []
    lines = text.split("\n")
    i = 0
    while i < len(lines):
        m = re.match(r"^[A-Za-z_][\w\s\*]*?\b(\w+)\s*\([^;{]*$", lines[i]) or \
            re.match(r"^[A-Za-z_][\w\s\*]*?\b(\w+)\s*\([^;]*\)\s*\{?\s*$", lines[i])
        if m and not lines[i].startswith(("typedef", "#", "extern")):
            # find the opening brace
            j = i
            while j < len(lines) and "{" not in lines[j] and ";" not in lines[j]:
                j += 1
            if j < len(lines) and "{" in lines[j] and ";" not in lines[j].split("{")[0]:
                depth, k = 0, j
                while k < len(lines):
                    depth += lines[k].count("{") - lines[k].count("}")
                    if depth <= 0 and k >= j:
                        break
                    k += 1
                out.append((m.group(1), i, k))
                i = k + 1
                continue
        i += 1
    return out


def sid_sites():
    src = os.path.join(vlib.REPO, "src")
    sites = []
    for fn in sorted(os.listdir(src)):
        if not fn.endswith(".c") or fn.startswith("load"):
            continue
        text = strip_comments(open(os.path.join(src, fn), errors="replace").read())
        if not re.search(r"(\.|->)sid\b", text):
            continue
        lines = text.split("\n")
        funcs = functions(text)
        for ln, line in enumerate(lines):
            for m in re.finditer(r"(\.|->)sid\b", line):
                rest = line[m.end():]
                if re.match(r"\s*=[^=]", rest):
                    continue                      # a write (smix.c creates sub-instruments)
                func = next((f for f, a, b in funcs if a <= ln <= b), "?")
                end = next((b for f, a, b in funcs if a <= ln <= b), ln)
                window = "".join(lines[ln:min(end, ln + 6) + 1])
                if re.search(r"(\.|->)sid\s*(==|!=)", line) and not re.search(r"=\s*[^=;]*(\.|->)sid\s*;", line):
                    cls = "compare"
                elif re.search(r"\bsmp\s*=\s*sub->sid\s*;", line) and "IS_VALID_SAMPLE(smp)" in window.replace(" ", ""):
                    cls = "guarded"
                else:
                    cls = "trusted"
                sites.append((fn, func, cls))
    # one entry per (file, function, class)
    return sorted(set(sites))


# objects of the common load path: no writable process-wide data may live there (a `static` scratch table
# in libxmp_scan_sequences would be shared by contexts loading concurrently)
LOAD_PATH_OBJECTS = ("src/load.c.o", "src/load_helpers.c.o", "src/scan.c.o", "src/loaders/common.c.o",
                     "src/loaders/sample.c.o", "src/loaders/iff.c.o")


def load_path_statics():
    """(object, symbol, section) of every writable data object (.data/.bss/COMMON, function-scope statics
    included) in the objects of the common load path, from `objdump -t` on the build of /repo's tree"""
    import gen_globals          # C06's translator: the same object walk (read-only use)
    bdir = vlib.build_repo("asan")
    res, seen = [], set()
    for o in gen_globals.list_objects(bdir):
        rel = o.split(".dir/", 1)[-1]
        if rel in LOAD_PATH_OBJECTS:
            seen.add(rel)
            for name, sec, size in gen_globals.writable_symbols(o):
                res.append((rel[:-2], name, sec))
    return sorted(res), sorted(seen)


def generate():
    src = os.path.join(vlib.REPO, "src")
    ph = strip_comments(open(os.path.join(src, "player.h")).read())
    macros = {}
    for name in EXPECT:
        m = re.search(r"#\s*define\s+%s\s*\(\s*x\s*\)\s*((?:[^\n\\]|\\\n)*)" % name, ph)
        macros[name] = re.sub(r"\s+|\\", "", m.group(1)) if m else ""
    shapes = {}
    cache = {}
    for name, (fn, func, rx) in SHAPES.items():
        if fn not in cache:
            cache[fn] = strip_comments(open(os.path.join(src, fn)).read())
        body = re.sub(r"\s+", "", function_body(cache[fn], func))
        shapes[name] = bool(body) and re.search(rx, body) is not None
    sites = sid_sites()

    def lname(mac):
        parts = mac.lower().split("_")
        return parts[0] + "".join(p.capitalize() for p in parts[1:])
    lines = ["/-! GENERATED by tools/c03_gen_guards.py from /repo (src/player.h, src/read_event.c, src/smix.c, src/*.c).",
             "Player-side guards on instrument / sub-instrument / sample references.  Do not edit. -/",
             "namespace Xmp.Gen.C03Guards", ""]
    for name in EXPECT:
        lines.append("/-- `%s(x)` as defined in src/player.h, white space removed -/" % name)
        lines.append('def %sText : String := "%s"' % (lname(name), macros[name].replace('"', '\\"')))
        lines.append("def %sOK : Bool := %s" % (lname(name), "true" if macros[name] == EXPECT[name] else "false"))
    lines.append("")
    for name in SHAPES:
        lines.append("def %s : Bool := %s" % (name, "true" if shapes[name] else "false"))
    lines += ["", "inductive SidUse where", "  | guarded | compare | trusted", "  deriving DecidableEq, Repr", "",
              "/-- reads of `sub->sid` outside the loaders: (file below src/, enclosing function, class) -/",
              "def sidSites : List (String × String × SidUse) := ["]
    lines.append(",\n".join('  ("%s", "%s", .%s)' % s for s in sites))
    statics, seen = load_path_statics()
    lines += ["]", "", "/-- the objects of the common load path that were inspected (`objdump -t`) -/",
              "def loadPathObjects : List String := [" + ", ".join('"%s"' % o[:-2] for o in seen) + "]", "",
              "/-- writable process-wide data (file-scope or function-scope `static`, non-const) in those objects:",
              "(source file, symbol, section) -/",
              "def loadPathStatics : List (String × String × String) := ["]
    lines.append(",\n".join('  ("%s", "%s", "%s")' % t for t in statics))
    lines += ["]", "", "end Xmp.Gen.C03Guards", ""]
    changed = vlib.write_if_changed(OUT, "\n".join(lines))
    return {"macros": macros, "shapes": shapes, "sites": sites, "statics": statics, "objects": seen, "changed": changed}


if __name__ == "__main__":
    r = generate()
    for k, v in r.items():
        print(k, v)
