#!/usr/bin/env python3
"""Structure-aware synthetic module writers (MOD, XM, S3M, IT) for the search
harnesses of C01/C02: structurally valid files whose *parameters* are drawn
from boundary sets — pattern lengths 1..256, pattern breaks / jumps / loops /
delays with targets at and around the limits, envelopes with loop and sustain
points at and beyond the point count, sample loops at the edges, extreme
speeds/tempos/finetunes.  Written from the format descriptions, independent of
libxmp.  Everything derives from the `random.Random` handed in."""
import struct

BOUND = [0, 1, 2, 0x0f, 0x10, 0x1f, 0x20, 0x31, 0x32, 0x33, 0x3f, 0x40, 0x41, 0x63, 0x64, 0x65, 0x7f, 0x80, 0x81,
         0x99, 0xa0, 0xf0, 0xfe, 0xff]

MOD_PERIODS = [856, 808, 762, 720, 678, 640, 604, 570, 538, 508, 480, 453, 428, 404, 381, 360, 339, 320, 302, 285,
               269, 254, 240, 226, 214, 202, 190, 180, 170, 160, 151, 143, 135, 127, 120, 113]


def bval(rng):
    return rng.choice(BOUND) if rng.random() < 0.7 else rng.randrange(256)


def pcm8(rng, n):
    kind = rng.randrange(3)
    if kind == 0:
        return bytes((i * 37) & 0xff for i in range(n))
    if kind == 1:
        return bytes(rng.randrange(256) for _ in range(n))
    return bytes([0x7f, 0x80][(i // max(1, n // 8)) & 1] for i in range(n))


def gen_mod(rng):
    chn = rng.choice([4, 4, 4, 6, 8])
    magic = {4: rng.choice([b"M.K.", b"M!K!", b"FLT4", b"4CHN"]), 6: b"6CHN", 8: b"8CHN"}[chn]
    npat = rng.randint(1, 4)
    ln = rng.randint(1, 8)
    orders = [rng.randrange(npat) for _ in range(ln)]
    out = bytearray(b"synthetic".ljust(20, b"\0"))
    samples = []
    for i in range(31):
        if i < 4:
            n = rng.choice([2, 4, 16, 64, 400, 2000])
            lps = rng.choice([0, 0, 1, n // 4, n // 2, n // 2 - 1])
            lpl = rng.choice([1, 1, 2, n // 2 - lps, n // 2, n, 0xffff]) & 0xffff
            samples.append(pcm8(rng, n))
            out += b"smp".ljust(22, b"\0") + struct.pack(">HBBHH", n // 2, rng.randrange(16), rng.choice([64, 64, 0, 65, 255]),
                                                          lps & 0xffff, lpl)
        else:
            out += bytes(22) + struct.pack(">HBBHH", 0, 0, 0, 0, 1)
    out += bytes([ln, rng.choice([0, 0x7f, 0x78, ln, ln - 1, 255])])
    out += bytes(orders).ljust(128, b"\0")
    out += magic
    for p in range(max(orders) + 1):
        for r in range(64):
            for c in range(chn):
                if rng.random() < 0.25:
                    per = rng.choice(MOD_PERIODS) if rng.random() < 0.8 else rng.choice([0, 1, 27, 28, 113, 856, 857, 1712, 4095])
                    ins = rng.choice([0, 1, 2, 3, 4, 5, 31])
                    fx = rng.randrange(16)
                    prm = bval(rng)
                    if fx == 0xe:
                        prm = (rng.randrange(16) << 4) | rng.choice([0, 1, 2, 3, 8, 15])
                    out += bytes([(ins & 0xf0) | (per >> 8), per & 0xff, ((ins & 0x0f) << 4) | fx, prm])
                elif rng.random() < 0.06:
                    fx = rng.choice([0xb, 0xd, 0xe, 0xf, 0x9, 0x3, 0x5])
                    prm = bval(rng) if fx != 0xe else (rng.choice([6, 0xe, 0xd, 0xc, 9, 0xf]) << 4) | rng.randrange(16)
                    out += bytes([0, 0, fx, prm])
                else:
                    out += bytes(4)
    if rng.random() < 0.85:
        for s in samples:
            out += s
    elif samples:
        out += samples[0][:len(samples[0]) // 2]       # truncated sample data
    return bytes(out), "mod"


def xm_env(rng):
    npt = rng.choice([0, 1, 2, 3, 12, 13, 255])
    pts = bytearray()
    x = 0
    for i in range(12):
        x += rng.choice([0, 1, 5, 30, 300])
        pts += struct.pack("<HH", x & 0xffff, rng.choice([0, 32, 64, 65, 255, 0xffff]))
    return bytes(pts), npt, bval(rng), bval(rng), bval(rng), rng.randrange(8)


def gen_xm(rng):
    chn = rng.choice([1, 2, 4, 8, 32])
    npat = rng.randint(1, 4)
    ln = rng.randint(1, 8)
    orders = [rng.choice([rng.randrange(npat), rng.randrange(npat), npat, 255]) for _ in range(ln)]
    if all(o >= npat for o in orders):
        orders[0] = 0
    nins = rng.randint(1, 3)
    rows_of = [rng.choice([1, 2, 3, 16, 32, 64, 64, 100, 255, 256]) for _ in range(npat)]
    out = bytearray(b"Extended Module: " + b"synthetic".ljust(20, b" ") + b"\x1a" + b"FastTracker v2.00   ")
    out += struct.pack("<H", 0x0104) + struct.pack("<I", 20 + 256)
    out += struct.pack("<HHHHHHHH", ln, rng.choice([0, 0, ln - 1, ln, 255]), chn, npat, nins, rng.choice([0, 1]),
                       rng.choice([1, 3, 6, 31, 32, 0]), rng.choice([32, 125, 255, 0, 20]))
    out += bytes(orders).ljust(256, b"\0")
    for p in range(npat):
        data = bytearray()
        for r in range(rows_of[p]):
            for c in range(chn):
                x = rng.random()
                if x < 0.2:
                    note = rng.choice([1, 24, 49, 60, 96, 97, 97, 98, 127])
                    ins = rng.choice([0, 1, 1, 2, nins, nins + 1, 128])
                    vol = rng.choice([0, 0x10, 0x30, 0x50, 0x51, 0x60, 0xb5, 0xc8, 0xf3, 0xff])
                    fx = rng.choice([0, 1, 2, 3, 4, 5, 6, 7, 8, 9, 0xa, 0xb, 0xd, 0xe, 0xf, 0x10, 0x11, 0x14, 0x15, 0x19, 0x1b, 0x1d, 0x21, 0x22, 0x23])
                    prm = bval(rng)
                    if fx == 0xe:
                        prm = (rng.randrange(16) << 4) | rng.choice([0, 1, 2, 3, 8, 15])
                    data += bytes([note, ins, vol, fx, prm])
                elif x < 0.27:
                    fx = rng.choice([0xb, 0xd, 0xe, 0xf, 0x14, 0x15])
                    prm = bval(rng) if fx != 0xe else (rng.choice([6, 0xe, 0xd, 0xc, 9]) << 4) | rng.randrange(16)
                    if fx == 0xd and rng.random() < 0.5:
                        # break into a row at/around the length of some pattern (BCD parameter)
                        t = rng.choice(rows_of) + rng.choice([-1, 0, 0, 1])
                        t = max(0, min(99, t))
                        prm = ((t // 10) << 4) | (t % 10)
                    data += bytes([0x80 | 0x08 | 0x10, fx, prm])
                else:
                    data += b"\x80"
        out += struct.pack("<IBHH", 9, 0, rows_of[p] & 0xffff, len(data)) + data
    for i in range(nins):
        nsmp = rng.choice([0, 1, 1, 2])
        name = b"ins".ljust(22, b"\0")
        if nsmp == 0:
            out += struct.pack("<I", rng.choice([29, 33, 263])) + name + b"\0" + struct.pack("<H", 0)
            out += bytes(max(0, {29: 0, 33: 4, 263: 234}[struct.unpack("<I", out[-33:-29])[0]] if False else 0))
            continue
        hdr = bytearray(struct.pack("<I", 263) + name + b"\0" + struct.pack("<H", nsmp) + struct.pack("<I", 40))
        hdr += bytes(rng.choice([0, 0, 1, nsmp - 1, nsmp, 15]) for _ in range(96))
        ve, vn, vs, vls, vle, vt = xm_env(rng)
        pe, pn, ps, pls, ple, pt = xm_env(rng)
        hdr += ve + pe + bytes([vn & 0xff, pn & 0xff, vs, vls, vle, ps, pls, ple, vt, pt])
        hdr += bytes([rng.randrange(4), bval(rng), bval(rng), bval(rng)]) + struct.pack("<H", rng.choice([0, 64, 0xffff])) + bytes(2)
        hdr = hdr.ljust(263, b"\0")
        out += hdr
        datas = []
        for s in range(nsmp):
            n = rng.choice([0, 1, 3, 4, 7, 16, 64, 500])
            bits16 = rng.random() < 0.4
            nbytes = n * (2 if bits16 else 1)
            lps = rng.choice([0, 0, 1, nbytes // 2, nbytes, nbytes + 4])
            lpl = rng.choice([0, 1, 2, nbytes - lps if nbytes > lps else 0, nbytes, 0x7fffffff])
            typ = rng.choice([0, 1, 2, 3]) | (0x10 if bits16 else 0) | (0x20 if rng.random() < 0.1 else 0)
            out += struct.pack("<IIIBbBBb", nbytes, lps, lpl & 0xffffffff, rng.choice([0, 64, 65, 255]), rng.randrange(-128, 128),
                               typ, rng.randrange(256), rng.choice([0, 12, -12, 96, -96, 127])) + b"\0" + b"smp".ljust(22, b"\0")
            datas.append(bytes(rng.randrange(256) for _ in range(nbytes)))
        for dta in datas:
            out += dta if rng.random() < 0.9 else dta[:len(dta) // 2]
    return bytes(out), "xm"


def gen_s3m(rng):
    chn = rng.choice([1, 4, 8, 16])
    npat = rng.randint(1, 3)
    ln = rng.randint(1, 8)
    orders = [rng.choice([rng.randrange(npat), rng.randrange(npat), 0xfe, 0xff, npat, 200]) for _ in range(ln)]
    if all(o >= npat for o in orders):
        orders[0] = 0
    if len(orders) % 2:
        orders.append(0xff)
    nins = rng.randint(1, 3)
    hdr = bytearray(b"synthetic".ljust(28, b"\0") + b"\x1a" + bytes([16]) + b"\0\0")
    hdr += struct.pack("<HHHHHH", len(orders), nins, npat, rng.choice([0, 0x10, 0x40]), 0x1320, rng.choice([1, 2]))
    hdr += b"SCRM" + bytes([rng.choice([64, 0, 65, 255]), rng.choice([6, 1, 0, 255]), rng.choice([125, 32, 33, 0, 255]),
                            rng.choice([0xb0, 0x30, 0xff]), 16, rng.choice([0, 252])]) + bytes(8) + struct.pack("<H", 0)
    hdr += bytes([(i if i < 8 else (i - 8) | 8) if i < chn else 255 for i in range(32)])
    off = 96 + len(orders) + 2 * nins + 2 * npat
    off = (off + 15) & ~15
    blobs, iptr, pptr = [], [], []
    smpdata = []
    for i in range(nins):
        n = rng.choice([0, 4, 16, 100, 1000])
        b16 = rng.random() < 0.3
        lps = rng.choice([0, 1, n // 2, n, n + 1])
        lpe = rng.choice([0, n // 2, n, n + 1, 0xffff])
        flags = rng.choice([0, 1, 1]) | (4 if b16 else 0) | (2 if rng.random() < 0.1 else 0)
        ins = bytearray([1]) + b"sample.raw".ljust(12, b"\0")
        ins += b"\0\0\0"          # memseg filled below
        ins += struct.pack("<III", n, lps, lpe) + bytes([rng.choice([64, 0, 65]), 0, 0, flags])
        ins += struct.pack("<I", rng.choice([8363, 1, 600, 65535, 0xffffffff, 0])) + bytes(12) + b"smp".ljust(28, b"\0") + b"SCRS"
        iptr.append(off // 16)
        blobs.append((bytes(ins).ljust(80, b"\0"), i))
        off += 80
        smpdata.append(bytes(rng.randrange(256) for _ in range(n * (2 if b16 else 1))))
    patblobs = []
    for p in range(npat):
        data = bytearray()
        for r in range(64):
            for c in range(chn):
                x = rng.random()
                if x < 0.15:
                    what = 0x20 | 0x40 | 0x80 | c
                    note = rng.choice([0x10, 0x40, 0x4b, 0x7b, 254, 255])
                    fx = rng.randrange(1, 27)
                    data += bytes([what, note, rng.choice([0, 1, nins, nins + 1, 99]), rng.choice([0, 64, 65, 255]), fx, bval(rng)])
                elif x < 0.2:
                    fx = rng.choice([1, 2, 3, 19, 20, 22])
                    prm = bval(rng) if fx != 19 else (rng.choice([0xb, 0xe, 0xd, 0xc, 6]) << 4) | rng.randrange(16)
                    data += bytes([0x80 | c, fx, prm])
            data += b"\0"
        blob = struct.pack("<H", len(data) + 2) + data
        patblobs.append(blob + bytes((-len(blob)) % 16))
    body = bytearray()
    for blob, i in blobs:
        body += blob
    for pb in patblobs:
        pptr.append(off // 16)
        body += pb
        off += len(pb)
    sptr = []
    for sd in smpdata:
        sptr.append(off // 16)
        body += sd + bytes((-len(sd)) % 16)
        off += len(sd) + ((-len(sd)) % 16)
    out = bytes(hdr) + bytes(orders) + b"".join(struct.pack("<H", x) for x in iptr) + b"".join(struct.pack("<H", x) for x in pptr)
    out = bytearray(out.ljust((96 + len(orders) + 2 * nins + 2 * npat + 15) & ~15, b"\0") + body)
    # patch sample memsegs
    for k, ip in enumerate(iptr):
        o = ip * 16 + 13
        seg = sptr[k]
        out[o] = (seg >> 16) & 0xff
        out[o + 1] = seg & 0xff
        out[o + 2] = (seg >> 8) & 0xff
    if rng.random() < 0.15:
        out = out[:rng.randrange(len(out) // 2, len(out))]
    return bytes(out), "s3m"


def gen_it(rng):
    chn = rng.choice([1, 4, 16, 64])
    npat = rng.randint(1, 3)
    ln = rng.randint(1, 8)
    orders = [rng.choice([rng.randrange(npat), rng.randrange(npat), 0xfe, 0xff, npat, 199]) for _ in range(ln)]
    if all(o >= npat for o in orders):
        orders[0] = 0
    nsmp = rng.randint(1, 3)
    hdr = bytearray(b"IMPM" + b"synthetic".ljust(26, b"\0") + b"\x04\x10")
    hdr += struct.pack("<HHHH", ln, 0, nsmp, npat)
    hdr += struct.pack("<HHHH", 0x0214, rng.choice([0x0214, 0x0200, 0x0100]), rng.choice([0x09, 0x01, 0x19, 0x0d]), 0)
    hdr += bytes([rng.choice([128, 0, 255]), rng.choice([48, 0, 128, 255]), rng.choice([6, 1, 0, 255]),
                  rng.choice([125, 31, 32, 255, 0]), 128, 0]) + struct.pack("<HII", 0, 0, 0)
    hdr += bytes(rng.choice([0, 32, 64, 100, 128, 160]) for _ in range(64)) + bytes(rng.choice([64, 0, 65, 255]) for _ in range(64))
    off = 192 + ln + 4 * nsmp + 4 * npat
    shdrs, sdata, sptr = [], [], []
    for i in range(nsmp):
        sptr.append(off)
        off += 80
    pblobs, pptr = [], []
    rows_of = []
    for p in range(npat):
        rows = rng.choice([1, 2, 32, 64, 64, 100, 200])
        rows_of.append(rows)
        data = bytearray()
        for r in range(rows):
            for c in range(min(chn, 8)):
                x = rng.random()
                if x < 0.15:
                    data += bytes([(c + 1) | 0x80, 0x0f, rng.choice([0, 12, 60, 119, 120, 254, 255]), rng.choice([0, 1, nsmp, nsmp + 1, 99]),
                                   rng.choice([0, 64, 65, 128, 193, 212, 255]), rng.randrange(1, 27), bval(rng)])
                elif x < 0.2:
                    fx = rng.choice([1, 2, 3, 19, 20, 22, 23])
                    prm = bval(rng) if fx != 19 else (rng.choice([0xb, 0xe, 0x6, 0x7, 0xd, 0xc]) << 4) | rng.randrange(16)
                    if fx == 3 and rng.random() < 0.5:
                        prm = (rng.choice(rows_of) + rng.choice([-1, 0, 0, 1])) & 0xff
                    data += bytes([(c + 1) | 0x80, 0x08, fx, prm])
            data += b"\0"
        pblobs.append(struct.pack("<HHI", len(data), rows, 0) + data)
    for pb in pblobs:
        pptr.append(off)
        off += len(pb)
    for i in range(nsmp):
        n = rng.choice([0, 1, 4, 16, 100, 1000])
        b16 = rng.random() < 0.3
        flg = 1 | (2 if b16 else 0) | rng.choice([0, 0x10, 0x10, 0x50, 0x20, 0xa0])
        lps = rng.choice([0, 1, n // 2, n, n + 1])
        lpe = rng.choice([0, n // 2, n, n + 1, 0x7fffffff])
        sus = rng.choice([0, n // 2, n + 5])
        sue = rng.choice([0, n, n + 9])
        sh = bytearray(b"IMPS" + b"sample.raw".ljust(12, b"\0") + b"\0" + bytes([rng.choice([64, 0, 65]), flg, rng.choice([64, 0, 65])]))
        sh += b"smp".ljust(26, b"\0") + bytes([rng.choice([1, 0, 4]), rng.choice([32, 0, 128, 192])])
        sh += struct.pack("<IIII", n, lps, lpe, rng.choice([8363, 0, 1, 0xffffffff, 100000]))
        sh += struct.pack("<III", sus, sue, off) + bytes([bval(rng), bval(rng), bval(rng), rng.randrange(4)])
        shdrs.append(bytes(sh).ljust(80, b"\0"))
        d = bytes(rng.randrange(256) for _ in range(n * (2 if b16 else 1)))
        sdata.append(d)
        off += len(d)
    out = bytes(hdr) + bytes(orders) + b"".join(struct.pack("<I", x) for x in sptr) + b"".join(struct.pack("<I", x) for x in pptr)
    out += b"".join(shdrs) + b"".join(pblobs) + b"".join(sdata)
    if rng.random() < 0.15:
        out = out[:rng.randrange(len(out) // 2, len(out))]
    return out, "it"


GENS = [gen_mod, gen_xm, gen_xm, gen_s3m, gen_it, gen_it]


def write_set(rng, dirname, count, prefix="syn"):
    """Writes `count` synthetic modules into dirname; returns their paths."""
    import os
    os.makedirs(dirname, exist_ok=True)
    paths = []
    for i in range(count):
        g = GENS[i % len(GENS)]
        try:
            data, ext = g(rng)
        except Exception:
            continue
        p = os.path.join(dirname, "%s%04d.%s" % (prefix, i, ext))
        with open(p, "wb") as f:
            f.write(data)
        paths.append(p)
    return paths


if __name__ == "__main__":
    import random
    import sys
    print(len(write_set(random.Random(int(sys.argv[2]) if len(sys.argv) > 2 else 1), sys.argv[1], 60)))
