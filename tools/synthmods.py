#!/usr/bin/env python3
"""Structure-aware synthetic module writers (MOD, XM, S3M, IT) for the search
harnesses of C01/C02: structurally valid files whose *parameters* are drawn
from boundary sets — pattern lengths 1..256, pattern breaks / jumps / loops /
delays with targets at and around the limits, envelopes with loop and sustain
points at and beyond the point count, sample loops at the edges, extreme
speeds/tempos/finetunes.  Written from the format descriptions, independent of
libxmp.  Everything derives from the `random.Random` handed in."""
import struct

BOUND = [0, 1, 2, 0x0f, 0x10, 0x1f, 0x20, 0x31, 0x32, 0x33, 0x3f, 0x40, 0x41, 0x63, 0x64, 0x65, 0x7f, 0x80, 0x81,
         0x99, 0xa0, 0xf0, 0xfe, 0xff]

MOD_PERIODS = [856, 808, 762, 720, 678, 640, 604, 570, 538, 508, 480, 453, 428, 404, 381, 360, 339, 320, 302, 285,
               269, 254, 240, 226, 214, 202, 190, 180, 170, 160, 151, 143, 135, 127, 120, 113]


def bval(rng):
    return rng.choice(BOUND) if rng.random() < 0.7 else rng.randrange(256)


def pcm8(rng, n):
    kind = rng.randrange(3)
    if kind == 0:
        return bytes((i * 37) & 0xff for i in range(n))
    if kind == 1:
        return bytes(rng.randrange(256) for _ in range(n))
    return bytes([0x7f, 0x80][(i // max(1, n // 8)) & 1] for i in range(n))


def gen_mod(rng):
    chn = rng.choice([4, 4, 4, 6, 8])
    magic = {4: rng.choice([b"M.K.", b"M!K!", b"FLT4", b"4CHN"]), 6: b"6CHN", 8: b"8CHN"}[chn]
    npat = rng.randint(1, 4)
    ln = rng.randint(1, 8)
    orders = [rng.randrange(npat) for _ in range(ln)]
    out = bytearray(b"synthetic".ljust(20, b"\0"))
    samples = []
    for i in range(31):
        if i < 4:
            n = rng.choice([2, 4, 16, 64, 400, 2000])
            lps = rng.choice([0, 0, 1, n // 4, n // 2, n // 2 - 1])
            lpl = rng.choice([1, 1, 2, n // 2 - lps, n // 2, n, 0xffff]) & 0xffff
            samples.append(pcm8(rng, n))
            out += b"smp".ljust(22, b"\0") + struct.pack(">HBBHH", n // 2, rng.randrange(16), rng.choice([64, 64, 0, 65, 255]),
                                                          lps & 0xffff, lpl)
        else:
            out += bytes(22) + struct.pack(">HBBHH", 0, 0, 0, 0, 1)
    out += bytes([ln, rng.choice([0, 0x7f, 0x78, ln, ln - 1, 255])])
    out += bytes(orders).ljust(128, b"\0")
    out += magic
    for p in range(max(orders) + 1):
        for r in range(64):
            for c in range(chn):
                if rng.random() < 0.25:
                    per = rng.choice(MOD_PERIODS) if rng.random() < 0.8 else rng.choice([0, 1, 27, 28, 113, 856, 857, 1712, 4095])
                    ins = rng.choice([0, 1, 2, 3, 4, 5, 31])
                    fx = rng.randrange(16)
                    prm = bval(rng)
                    if fx == 0xe:
                        prm = (rng.randrange(16) << 4) | rng.choice([0, 1, 2, 3, 8, 15])
                    out += bytes([(ins & 0xf0) | (per >> 8), per & 0xff, ((ins & 0x0f) << 4) | fx, prm])
                elif rng.random() < 0.06:
                    fx = rng.choice([0xb, 0xd, 0xe, 0xf, 0x9, 0x3, 0x5])
                    prm = bval(rng) if fx != 0xe else (rng.choice([6, 0xe, 0xd, 0xc, 9, 0xf]) << 4) | rng.randrange(16)
                    out += bytes([0, 0, fx, prm])
                else:
                    out += bytes(4)
    if rng.random() < 0.85:
        for s in samples:
            out += s
    elif samples:
        out += samples[0][:len(samples[0]) // 2]       # truncated sample data
    return bytes(out), "mod"


def xm_env(rng):
    npt = rng.choice([0, 1, 2, 3, 12, 13, 255])
    pts = bytearray()
    x = 0
    for i in range(12):
        x += rng.choice([0, 1, 5, 30, 300])
        pts += struct.pack("<HH", x & 0xffff, rng.choice([0, 32, 64, 65, 255, 0xffff]))
    return bytes(pts), npt, bval(rng), bval(rng), bval(rng), rng.randrange(8)


def gen_xm(rng):
    chn = rng.choice([1, 2, 4, 8, 32])
    npat = rng.randint(1, 4)
    ln = rng.randint(1, 8)
    orders = [rng.choice([rng.randrange(npat), rng.randrange(npat), npat, 255]) for _ in range(ln)]
    if all(o >= npat for o in orders):
        orders[0] = 0
    nins = rng.randint(1, 3)
    rows_of = [rng.choice([1, 2, 3, 16, 32, 64, 64, 100, 255, 256]) for _ in range(npat)]
    out = bytearray(b"Extended Module: " + b"synthetic".ljust(20, b" ") + b"\x1a" + b"FastTracker v2.00   ")
    out += struct.pack("<H", 0x0104) + struct.pack("<I", 20 + 256)
    out += struct.pack("<HHHHHHHH", ln, rng.choice([0, 0, ln - 1, ln, 255]), chn, npat, nins, rng.choice([0, 1]),
                       rng.choice([1, 3, 6, 31, 32, 0]), rng.choice([32, 125, 255, 0, 20]))
    out += bytes(orders).ljust(256, b"\0")
    for p in range(npat):
        data = bytearray()
        for r in range(rows_of[p]):
            for c in range(chn):
                x = rng.random()
                if x < 0.2:
                    note = rng.choice([1, 24, 49, 60, 96, 97, 97, 98, 127])
                    ins = rng.choice([0, 1, 1, 2, nins, nins + 1, 128])
                    vol = rng.choice([0, 0x10, 0x30, 0x50, 0x51, 0x60, 0xb5, 0xc8, 0xf3, 0xff])
                    fx = rng.choice([0, 1, 2, 3, 4, 5, 6, 7, 8, 9, 0xa, 0xb, 0xd, 0xe, 0xf, 0x10, 0x11, 0x14, 0x15, 0x19, 0x1b, 0x1d, 0x21, 0x22, 0x23])
                    prm = bval(rng)
                    if fx == 0xe:
                        prm = (rng.randrange(16) << 4) | rng.choice([0, 1, 2, 3, 8, 15])
                    data += bytes([note, ins, vol, fx, prm])
                elif x < 0.27:
                    fx = rng.choice([0xb, 0xd, 0xe, 0xf, 0x14, 0x15])
                    prm = bval(rng) if fx != 0xe else (rng.choice([6, 0xe, 0xd, 0xc, 9]) << 4) | rng.randrange(16)
                    if fx == 0xd and rng.random() < 0.5:
                        # break into a row at/around the length of some pattern (BCD parameter)
                        t = rng.choice(rows_of) + rng.choice([-1, 0, 0, 1])
                        t = max(0, min(99, t))
                        prm = ((t // 10) << 4) | (t % 10)
                    data += bytes([0x80 | 0x08 | 0x10, fx, prm])
                else:
                    data += b"\x80"
        out += struct.pack("<IBHH", 9, 0, rows_of[p] & 0xffff, len(data)) + data
    for i in range(nins):
        nsmp = rng.choice([0, 1, 1, 2])
        name = b"ins".ljust(22, b"\0")
        if nsmp == 0:
            out += struct.pack("<I", rng.choice([29, 33, 263])) + name + b"\0" + struct.pack("<H", 0)
            out += bytes(max(0, {29: 0, 33: 4, 263: 234}[struct.unpack("<I", out[-33:-29])[0]] if False else 0))
            continue
        hdr = bytearray(struct.pack("<I", 263) + name + b"\0" + struct.pack("<H", nsmp) + struct.pack("<I", 40))
        hdr += bytes(rng.choice([0, 0, 1, nsmp - 1, nsmp, 15]) for _ in range(96))
        ve, vn, vs, vls, vle, vt = xm_env(rng)
        pe, pn, ps, pls, ple, pt = xm_env(rng)
        hdr += ve + pe + bytes([vn & 0xff, pn & 0xff, vs, vls, vle, ps, pls, ple, vt, pt])
        hdr += bytes([rng.randrange(4), bval(rng), bval(rng), bval(rng)]) + struct.pack("<H", rng.choice([0, 64, 0xffff])) + bytes(2)
        hdr = hdr.ljust(263, b"\0")
        out += hdr
        datas = []
        for s in range(nsmp):
            n = rng.choice([0, 1, 3, 4, 7, 16, 64, 500])
            bits16 = rng.random() < 0.4
            nbytes = n * (2 if bits16 else 1)
            lps = rng.choice([0, 0, 1, nbytes // 2, nbytes, nbytes + 4])
            lpl = rng.choice([0, 1, 2, nbytes - lps if nbytes > lps else 0, nbytes, 0x7fffffff])
            typ = rng.choice([0, 1, 2, 3]) | (0x10 if bits16 else 0) | (0x20 if rng.random() < 0.1 else 0)
            out += struct.pack("<IIIBbBBb", nbytes, lps, lpl & 0xffffffff, rng.choice([0, 64, 65, 255]), rng.randrange(-128, 128),
                               typ, rng.randrange(256), rng.choice([0, 12, -12, 96, -96, 127])) + b"\0" + b"smp".ljust(22, b"\0")
            datas.append(bytes(rng.randrange(256) for _ in range(nbytes)))
        for dta in datas:
            out += dta if rng.random() < 0.9 else dta[:len(dta) // 2]
    return bytes(out), "xm"


def gen_s3m(rng):
    chn = rng.choice([1, 4, 8, 16])
    npat = rng.randint(1, 3)
    ln = rng.randint(1, 8)
    orders = [rng.choice([rng.randrange(npat), rng.randrange(npat), 0xfe, 0xff, npat, 200]) for _ in range(ln)]
    if all(o >= npat for o in orders):
        orders[0] = 0
    if len(orders) % 2:
        orders.append(0xff)
    nins = rng.randint(1, 3)
    hdr = bytearray(b"synthetic".ljust(28, b"\0") + b"\x1a" + bytes([16]) + b"\0\0")
    hdr += struct.pack("<HHHHHH", len(orders), nins, npat, rng.choice([0, 0x10, 0x40]), 0x1320, rng.choice([1, 2]))
    hdr += b"SCRM" + bytes([rng.choice([64, 0, 65, 255]), rng.choice([6, 1, 0, 255]), rng.choice([125, 32, 33, 0, 255]),
                            rng.choice([0xb0, 0x30, 0xff]), 16, rng.choice([0, 252])]) + bytes(8) + struct.pack("<H", 0)
    hdr += bytes([(i if i < 8 else (i - 8) | 8) if i < chn else 255 for i in range(32)])
    off = 96 + len(orders) + 2 * nins + 2 * npat
    off = (off + 15) & ~15
    blobs, iptr, pptr = [], [], []
    smpdata = []
    for i in range(nins):
        n = rng.choice([0, 4, 16, 100, 1000])
        b16 = rng.random() < 0.3
        lps = rng.choice([0, 1, n // 2, n, n + 1])
        lpe = rng.choice([0, n // 2, n, n + 1, 0xffff])
        flags = rng.choice([0, 1, 1]) | (4 if b16 else 0) | (2 if rng.random() < 0.1 else 0)
        ins = bytearray([1]) + b"sample.raw".ljust(12, b"\0")
        ins += b"\0\0\0"          # memseg filled below
        ins += struct.pack("<III", n, lps, lpe) + bytes([rng.choice([64, 0, 65]), 0, 0, flags])
        ins += struct.pack("<I", rng.choice([8363, 1, 600, 65535, 0xffffffff, 0])) + bytes(12) + b"smp".ljust(28, b"\0") + b"SCRS"
        iptr.append(off // 16)
        blobs.append((bytes(ins).ljust(80, b"\0"), i))
        off += 80
        smpdata.append(bytes(rng.randrange(256) for _ in range(n * (2 if b16 else 1))))
    patblobs = []
    for p in range(npat):
        data = bytearray()
        for r in range(64):
            for c in range(chn):
                x = rng.random()
                if x < 0.15:
                    what = 0x20 | 0x40 | 0x80 | c
                    note = rng.choice([0x10, 0x40, 0x4b, 0x7b, 254, 255])
                    fx = rng.randrange(1, 27)
                    data += bytes([what, note, rng.choice([0, 1, nins, nins + 1, 99]), rng.choice([0, 64, 65, 255]), fx, bval(rng)])
                elif x < 0.2:
                    fx = rng.choice([1, 2, 3, 19, 20, 22])
                    prm = bval(rng) if fx != 19 else (rng.choice([0xb, 0xe, 0xd, 0xc, 6]) << 4) | rng.randrange(16)
                    data += bytes([0x80 | c, fx, prm])
            data += b"\0"
        blob = struct.pack("<H", len(data) + 2) + data
        patblobs.append(blob + bytes((-len(blob)) % 16))
    body = bytearray()
    for blob, i in blobs:
        body += blob
    for pb in patblobs:
        pptr.append(off // 16)
        body += pb
        off += len(pb)
    sptr = []
    for sd in smpdata:
        sptr.append(off // 16)
        body += sd + bytes((-len(sd)) % 16)
        off += len(sd) + ((-len(sd)) % 16)
    out = bytes(hdr) + bytes(orders) + b"".join(struct.pack("<H", x) for x in iptr) + b"".join(struct.pack("<H", x) for x in pptr)
    out = bytearray(out.ljust((96 + len(orders) + 2 * nins + 2 * npat + 15) & ~15, b"\0") + body)
    # patch sample memsegs
    for k, ip in enumerate(iptr):
        o = ip * 16 + 13
        seg = sptr[k]
        out[o] = (seg >> 16) & 0xff
        out[o + 1] = seg & 0xff
        out[o + 2] = (seg >> 8) & 0xff
    if rng.random() < 0.15:
        out = out[:rng.randrange(len(out) // 2, len(out))]
    return bytes(out), "s3m"


def gen_it(rng):
    chn = rng.choice([1, 4, 16, 64])
    npat = rng.randint(1, 3)
    ln = rng.randint(1, 8)
    orders = [rng.choice([rng.randrange(npat), rng.randrange(npat), 0xfe, 0xff, npat, 199]) for _ in range(ln)]
    if all(o >= npat for o in orders):
        orders[0] = 0
    nsmp = rng.randint(1, 3)
    hdr = bytearray(b"IMPM" + b"synthetic".ljust(26, b"\0") + b"\x04\x10")
    hdr += struct.pack("<HHHH", ln, 0, nsmp, npat)
    hdr += struct.pack("<HHHH", 0x0214, rng.choice([0x0214, 0x0200, 0x0100]), rng.choice([0x09, 0x01, 0x19, 0x0d]), 0)
    hdr += bytes([rng.choice([128, 0, 255]), rng.choice([48, 0, 128, 255]), rng.choice([6, 1, 0, 255]),
                  rng.choice([125, 31, 32, 255, 0]), 128, 0]) + struct.pack("<HII", 0, 0, 0)
    hdr += bytes(rng.choice([0, 32, 64, 100, 128, 160]) for _ in range(64)) + bytes(rng.choice([64, 0, 65, 255]) for _ in range(64))
    off = 192 + ln + 4 * nsmp + 4 * npat
    shdrs, sdata, sptr = [], [], []
    for i in range(nsmp):
        sptr.append(off)
        off += 80
    pblobs, pptr = [], []
    rows_of = []
    for p in range(npat):
        rows = rng.choice([1, 2, 32, 64, 64, 100, 200])
        rows_of.append(rows)
        data = bytearray()
        for r in range(rows):
            for c in range(min(chn, 8)):
                x = rng.random()
                if x < 0.15:
                    data += bytes([(c + 1) | 0x80, 0x0f, rng.choice([0, 12, 60, 119, 120, 254, 255]), rng.choice([0, 1, nsmp, nsmp + 1, 99]),
                                   rng.choice([0, 64, 65, 128, 193, 212, 255]), rng.randrange(1, 27), bval(rng)])
                elif x < 0.2:
                    fx = rng.choice([1, 2, 3, 19, 20, 22, 23])
                    prm = bval(rng) if fx != 19 else (rng.choice([0xb, 0xe, 0x6, 0x7, 0xd, 0xc]) << 4) | rng.randrange(16)
                    if fx == 3 and rng.random() < 0.5:
                        prm = (rng.choice(rows_of) + rng.choice([-1, 0, 0, 1])) & 0xff
                    data += bytes([(c + 1) | 0x80, 0x08, fx, prm])
            data += b"\0"
        pblobs.append(struct.pack("<HHI", len(data), rows, 0) + data)
    for pb in pblobs:
        pptr.append(off)
        off += len(pb)
    for i in range(nsmp):
        n = rng.choice([0, 1, 4, 16, 100, 1000])
        b16 = rng.random() < 0.3
        flg = 1 | (2 if b16 else 0) | rng.choice([0, 0x10, 0x10, 0x50, 0x20, 0xa0])
        lps = rng.choice([0, 1, n // 2, n, n + 1])
        lpe = rng.choice([0, n // 2, n, n + 1, 0x7fffffff])
        sus = rng.choice([0, n // 2, n + 5])
        sue = rng.choice([0, n, n + 9])
        sh = bytearray(b"IMPS" + b"sample.raw".ljust(12, b"\0") + b"\0" + bytes([rng.choice([64, 0, 65]), flg, rng.choice([64, 0, 65])]))
        sh += b"smp".ljust(26, b"\0") + bytes([rng.choice([1, 0, 4]), rng.choice([32, 0, 128, 192])])
        sh += struct.pack("<IIII", n, lps, lpe, rng.choice([8363, 0, 1, 0xffffffff, 100000]))
        sh += struct.pack("<III", sus, sue, off) + bytes([bval(rng), bval(rng), bval(rng), rng.randrange(4)])
        shdrs.append(bytes(sh).ljust(80, b"\0"))
        d = bytes(rng.randrange(256) for _ in range(n * (2 if b16 else 1)))
        sdata.append(d)
        off += len(d)
    out = bytes(hdr) + bytes(orders) + b"".join(struct.pack("<I", x) for x in sptr) + b"".join(struct.pack("<I", x) for x in pptr)
    out += b"".join(shdrs) + b"".join(pblobs) + b"".join(sdata)
    if rng.random() < 0.15:
        out = out[:rng.randrange(len(out) // 2, len(out))]
    return out, "it"


# --------------------------------------------------------------------------
# deterministic witnesses for the voice-position invariant of the mixer (C01)
# --------------------------------------------------------------------------

def it_module(samples, rows, speed=6, tempo=125, nrows=64, flags=0x09, title=b"c01 witness", midi=None):
    """IT file in sample mode.  samples: list of dicts n, c5spd, flg (IT sample flag byte without bit 0/1),
    lps, lpe, sus, sue, b16.  rows: {row: [(channel 1.., note or None, ins or None, cmd or None, prm)]}."""
    ln, nsmp, npat = 1, len(samples), 1
    hdr = bytearray(b"IMPM" + title.ljust(26, b"\0") + b"\x04\x10")
    hdr += struct.pack("<HHHH", ln, 0, nsmp, npat)
    hdr += struct.pack("<HHHH", 0x0214, 0x0214, flags, 8 if midi is not None else 0)
    hdr += bytes([128, 48, speed, tempo, 128, 0]) + struct.pack("<HII", 0, 0, 0)
    hdr += bytes([32] * 64) + bytes([64] * 64)
    off = 192 + ln + 4 * nsmp + 4 * npat + (len(midi) if midi is not None else 0)
    sptr = []
    for _ in samples:
        sptr.append(off)
        off += 80
    data = bytearray()
    for r in range(nrows):
        for (c, note, ins, cmd, prm) in rows.get(r, []):
            mask = (1 if note is not None else 0) | (2 if ins is not None else 0) | (8 if cmd is not None else 0)
            data += bytes([c | 0x80, mask])
            if note is not None:
                data.append(note)
            if ins is not None:
                data.append(ins)
            if cmd is not None:
                data += bytes([cmd, prm])
        data += b"\0"
    pb = struct.pack("<HHI", len(data), nrows, 0) + data
    pptr = [off]
    off += len(pb)
    shdrs, sdata = [], []
    for sm in samples:
        n, b16 = sm["n"], sm.get("b16", False)
        flg = 1 | (2 if b16 else 0) | sm.get("flg", 0)
        sh = bytearray(b"IMPS" + b"sample.raw".ljust(12, b"\0") + b"\0" + bytes([64, flg, 64]))
        sh += b"smp".ljust(26, b"\0") + bytes([1, 32])
        sh += struct.pack("<IIII", n, sm.get("lps", 0), sm.get("lpe", 0), sm.get("c5spd", 8363))
        sh += struct.pack("<III", sm.get("sus", 0), sm.get("sue", 0), off) + bytes([0, 0, 0, 0])
        shdrs.append(bytes(sh).ljust(80, b"\0"))
        d = sm["data"] if "data" in sm else bytes((i * 37) & 0xff for i in range(n * (2 if b16 else 1)))
        sdata.append(d)
        off += len(d)
    return (bytes(hdr) + bytes([0]) + b"".join(struct.pack("<I", x) for x in sptr) + struct.pack("<I", pptr[0])
            + (midi if midi is not None else b"") + b"".join(shdrs) + pb + b"".join(sdata))


def gen_it_midi(rng):
    """IT module with an embedded MIDI configuration (9 global + 16 parametered + 128 fixed macros of 32 bytes)
    whose entries are empty, ordinary, or fill all 32 bytes without a terminator, and patterns that execute
    them (Zxx with parameters on both sides of 0x80, SFx macro select) next to filter-capable notes."""
    def macro():
        k = rng.random()
        if k < 0.3:
            return bytes(32)
        if k < 0.6:
            return rng.choice([b"F0F000z", b"F0F001z", b"F0F0z00", b"c", b"zzzz"]).ljust(32, b"\0")
        body = bytes(rng.choice(b"0123456789ABCDEFzcnvuxyabhmop") for _ in range(32))
        return body if rng.random() < 0.7 else body[:rng.randrange(1, 32)].ljust(32, b"\0")
    midi = b"".join(macro() for _ in range(9 + 16 + 128))
    n = rng.choice([64, 500, 3000])
    samples = [dict(n=n, c5spd=8363, flg=rng.choice([0, 0x10]), lps=0, lpe=n, sus=0, sue=0)]
    rows = {}
    for r in range(0, 64, 2):
        cmd = rng.choice([26, 26, 26, 19, None])          # Z, Z, Z, S
        if cmd == 26:
            prm = rng.choice([0, 1, 0x7f, 0x80, 0x81, 0x8f, 0x90, 0xfe, 0xff, rng.randrange(256)])
        elif cmd == 19:
            prm = 0xf0 | rng.randrange(16)
        else:
            prm = 0
        rows[r] = [(1 + (r // 2) % 3, rng.choice([48, 60, 72]) if rng.random() < 0.5 else None,
                    1 if rng.random() < 0.5 else None, cmd, prm)]
    return it_module(samples, rows, speed=rng.choice([1, 3, 6]), title=b"midi macros", midi=midi), "it"


def mod_module(samples, rows, nrows=64, magic=b"M.K."):
    """Protracker MOD.  samples: list of (data bytes, volume, loop start words, loop length words) (max 31);
    rows: {row: [(channel 0..3, period, ins, fx, prm)]}."""
    out = bytearray(b"c01 witness".ljust(20, b"\0"))
    for i in range(31):
        if i < len(samples):
            d, vol, lps, lpl = samples[i]
            out += b"smp".ljust(22, b"\0") + struct.pack(">HBBHH", len(d) // 2, 0, vol, lps, lpl)
        else:
            out += bytes(22) + struct.pack(">HBBHH", 0, 0, 0, 0, 1)
    out += bytes([1, 0x7f]) + bytes(128) + magic
    for r in range(nrows):
        cells = {c: (per, ins, fx, prm) for (c, per, ins, fx, prm) in rows.get(r, [])}
        for c in range(4):
            per, ins, fx, prm = cells.get(c, (0, 0, 0, 0))
            out += bytes([(ins & 0xf0) | (per >> 8), per & 0xff, ((ins & 0x0f) << 4) | fx, prm])
    for d, _, _, _ in samples:
        out += d
    return bytes(out)



def gen_mod_invloop(rng):
    """Protracker MOD centred on the one effect that writes to sample memory: invert loop (EFx) running on
    channels whose instrument changes under it -- with and without a note, on the row and note-delayed (EDx),
    between samples with long, short, one-word and no loops -- plus sample offsets and retriggers."""
    samples = []
    for i in range(rng.randint(3, 6)):
        n = rng.choice([4, 8, 64, 300, 1000, 4000])
        words = n // 2
        kind = rng.randrange(5)
        if kind == 0:
            lps, lpl = 0, words
        elif kind == 1:
            lps, lpl = words // 2, words - words // 2
        elif kind == 2:
            lps, lpl = rng.randrange(words), 1
        elif kind == 3:
            lps, lpl = max(0, words - 2), 2
        else:
            lps, lpl = 0, rng.choice([0, 1])
        samples.append((pcm8(rng, n), 64, lps, lpl))
    rows = {}
    nins = len(samples)
    for r in range(64):
        cells = []
        for c in range(4):
            x = rng.random()
            if x < 0.25:
                cells.append((c, rng.choice(MOD_PERIODS), rng.randint(1, nins), 0xe, 0xf0 | rng.choice([0, 1, 8, 15, 15, 15])))
            elif x < 0.45:
                cells.append((c, rng.choice(MOD_PERIODS), rng.randint(1, nins), 0xe, 0xd0 | rng.choice([0, 1, 2, 5, 7])))
            elif x < 0.55:
                cells.append((c, 0, rng.randint(1, nins + 1), 0xe, rng.choice([0xd1, 0xd3, 0xf0, 0xff, 0x91, 0x93])))
            elif x < 0.62:
                cells.append((c, rng.choice(MOD_PERIODS), rng.randint(0, nins), 0x9, rng.choice([0, 1, 2, 0x10, 0xff])))
            elif x < 0.66:
                cells.append((c, 0, 0, 0xf, rng.choice([1, 3, 6, 0x1f])))
        if cells:
            rows[r] = cells
    return mod_module(samples, rows, magic=rng.choice([b"M.K.", b"M.K.", b"M!K!"])), "mod"



def gen_med3(rng):
    """MED 2.00 "MED3": nibble-packed pattern blocks (two 32-row line masks and two effect masks, each either
    stored, all-zero or all-one by flag, then per row a channel-mask nibble and 3 nibbles per selected cell).
    Blocks are written exactly, or with a declared size short of / beyond what the masks consume."""
    out = bytearray(b"MED\x03")
    for i in range(32):
        nm = rng.choice([b"", b"i", b"instrument %d" % i, b"x" * rng.choice([31, 32, 39])])
        out += nm[:39] + b"\0" if len(nm) < 40 else nm[:40]
    nins = rng.randint(1, 4)

    def masked(vals, width):
        m, body = 0, b""
        for i in range(32):
            if i < len(vals) and vals[i] is not None:
                m |= 0x80000000 >> i
                body += struct.pack(">B" if width == 1 else ">H", vals[i])
        return struct.pack(">I", m) + body
    out += masked([rng.choice([0, 32, 64, 65, 255]) for _ in range(nins)], 1)
    slen = [rng.choice([2, 32, 500, 3000]) for _ in range(nins)]
    out += masked([rng.choice([0, 0, 1, n // 2, n]) for n in slen], 2)
    out += masked([rng.choice([0, 1, 2, n // 2, n, 0xffff]) for n in slen], 2)
    npat = rng.randint(1, 3)
    ln = rng.randint(1, 6)
    out += struct.pack(">HH", npat, ln) + bytes(rng.choice([0, npat - 1, rng.randrange(npat), npat, 255]) if rng.random() < 0.2
                                                 else rng.randrange(npat) for _ in range(ln))
    flags = rng.choice([0x20, 0x20, 0x20, 0x00, 0xff])          # FLAG_INSTRSATT mostly set
    out += struct.pack(">HbBH", rng.choice([1, 6, 10, 33, 125, 240, 0, 0xffff]), rng.choice([0, 0, 12, -12, 127, -128]), flags,
                       rng.choice([5, 6]))
    out += bytes(4) + bytes(16)
    out += masked([1 for _ in range(rng.choice([0, 0, 2]))], 1) + masked([1 for _ in range(rng.choice([0, 0, 2]))], 1)
    for p in range(npat):
        b = 0
        words = []
        for k, (zero, ones) in enumerate([(0x10, 0x01), (0x20, 0x02), (0x40, 0x04), (0x80, 0x08)]):
            x = rng.random()
            if x < 0.3:
                b |= zero
                words.append((0, False))
            elif x < 0.55:
                b |= ones
                words.append((0xffffffff, False))
            else:
                words.append((rng.choice([0, 1, 0x80000000, 0xffffffff, rng.getrandbits(32), rng.getrandbits(32) & rng.getrandbits(32)]), True))
        if rng.random() < 0.05:
            b = rng.randrange(256)              # both flags of a mask set at once etc.; the stored words follow the loader's rule
            words = [((0, False) if b & z else (0xffffffff, False) if b & o else (w[0], True))
                     for w, (z, o) in zip(words, [(0x10, 0x01), (0x20, 0x02), (0x40, 0x04), (0x80, 0x08)])]
        nibs = []
        sparse = rng.random() < 0.3             # rows flagged in the masks but with empty channel masks
        for half in range(2):
            lm, fm = words[half][0], words[2 + half][0]
            for r in range(32):
                for msk in (lm, fm):
                    if msk & (0x80000000 >> r):
                        cm = 0 if sparse else rng.choice([0, 1, 8, 0xf, rng.randrange(16)])
                        nibs.append(cm)
                        for c in range(4):
                            if cm & (8 >> c):
                                nibs += [rng.randrange(16), rng.randrange(16), rng.randrange(16)]
        data = bytearray((len(nibs) + 1) // 2)
        for i, nb in enumerate(nibs):
            data[i // 2] |= nb << (0 if i & 1 else 4)
        x = rng.random()
        if x < 0.55:
            convsz = len(data)
        elif x < 0.8:
            convsz = max(0, len(data) - rng.choice([1, 1, 2, 3, 8, 16, len(data)]))
        elif x < 0.9:
            convsz = rng.choice([0, 1, 2, 16])
        else:
            convsz = len(data) + rng.choice([1, 16, 300])
        body = bytes(data[:convsz]).ljust(convsz, b"\0") if rng.random() < 0.9 else bytes(data[:convsz])
        out += bytes([4, b]) + struct.pack(">H", convsz & 0xffff)
        for w, stored in words:
            if stored:
                out += struct.pack(">I", w)
        out += body
    smask = 0
    sbody = b""
    for i in range(nins):
        if rng.random() < 0.85:
            smask |= 0x80000000 >> i
            n = slen[i]
            sbody += struct.pack(">IH", n if rng.random() < 0.9 else rng.choice([0, n + 7, 0x7fffffff]), rng.choice([0, 0, 0, 1])) + pcm8(rng, n)
    out += struct.pack(">I", smask) + sbody
    if rng.random() < 0.1:
        out = out[:rng.randrange(len(out))]
    return bytes(out), "med"


def c01_witnesses(dirname):
    """Deterministic modules that drive the mixer's position bookkeeping through its corner paths; returns
    [(path, rate, interps)].  reverse-past-end.it is the witness of the defect fixed by
    "clamp the voice position at the start of a tick" (one-shot sample ending exactly at a tick boundary, then S9F)."""
    import os
    os.makedirs(dirname, exist_ok=True)
    S = 19          # IT effect letter 'S'
    out = []

    def put(name, data, rate):
        p = os.path.join(dirname, name)
        with open(p, "wb") as f:
            f.write(data)
        out.append((p, rate, [0, 1, 2]))

    # step = 16.718 at 4000 Hz; tick = 80 samples; 6 ticks/row: the sample ends exactly when row 1 starts
    put("reverse-past-end.it", it_module([dict(n=8010, c5spd=66904)], {0: [(1, 60, 1, None, 0)], 1: [(1, None, None, S, 0x9f)]}), 4000)
    # the same geometry for every length around the boundary and a 16-bit sample
    for k, n in enumerate([8008, 8009, 8011, 8024, 8025]):
        put("reverse-edge-%d.it" % k, it_module([dict(n=n, c5spd=66904, b16=(k % 2 == 1))],
                                                {0: [(1, 60, 1, None, 0)], 1: [(1, None, None, S, 0x9f)], 3: [(1, None, None, S, 0x9e)]}), 4000)
    # ping-pong loops (short, at the sample edges), high step, direction flips by S9F/S9E on successive rows
    bidi = [dict(n=64, c5spd=66904, flg=0x10 | 0x40, lps=0, lpe=64),
            dict(n=200, c5spd=120000, flg=0x10 | 0x40, lps=198, lpe=200),
            dict(n=33, c5spd=8363, flg=0x10, lps=0, lpe=1),
            dict(n=1000, c5spd=40000, flg=0x20 | 0x80, sus=10, sue=13, b16=True),
            dict(n=1000, c5spd=300000, flg=0x10 | 0x20 | 0x40, lps=900, lpe=1000, sus=0, sue=2)]
    rows = {}
    for i in range(5):
        rows.setdefault(0, []).append((i + 1, 60 + 7 * i, i + 1, None, 0))
        for r in range(1, 40):
            if (r + i) % 3 == 0:
                rows.setdefault(r, []).append((i + 1, None, None, S, 0x9f if (r // 3) % 2 == 0 else 0x9e))
            elif (r + i) % 7 == 0:
                rows.setdefault(r, []).append((i + 1, 255 if r % 2 else 254, None, None, 0))      # note off / cut
            elif (r + i) % 5 == 0:
                rows.setdefault(r, []).append((i + 1, None, None, 15, 0xff))                       # O offset past the end
    put("pingpong.it", it_module(bidi, rows, speed=3), 4000)
    put("pingpong-fast.it", it_module(bidi, rows, speed=1, tempo=255), 8000)
    # sample offsets landing exactly on / just around the loop end and the sample end (libxmp_mixer_voicepos boundary)
    offs = [dict(n=512, c5spd=8363, flg=0x10, lps=0, lpe=256), dict(n=512, c5spd=8363, flg=0x10 | 0x40, lps=128, lpe=256),
            dict(n=256, c5spd=8363), dict(n=768, c5spd=8363, flg=0x20, sus=0, sue=256)]
    orow = {}
    for i in range(4):
        for k, r in enumerate(range(0, 32, 2)):
            orow.setdefault(r, []).append((i + 1, 60, i + 1, 15, [1, 0, 2, 1, 3, 0xff, 1, 1][k % 8]))
            if k % 4 == 3:
                orow.setdefault(r + 1, []).append((i + 1, None, None, S, 0x9f))
    put("offset-at-end.it", it_module(offs, orow, speed=2), 22050)
    # Protracker sample swap: looped -> looped -> one-shot -> empty, instrument numbers without notes
    tri = bytes([0, 64, 127, 64, 0, 192, 129, 192] * 8)
    smp = [(tri, 64, 0, 32), (bytes(reversed(tri)) * 2, 64, 8, 16), (tri * 4, 64, 0, 1), (b"", 0, 0, 1)]
    mrows = {0: [(0, 214, 1, 0, 0), (1, 428, 2, 0, 0)], 4: [(0, 0, 2, 0, 0)], 8: [(0, 0, 3, 0, 0), (1, 0, 1, 0, 0)],
             12: [(0, 0, 4, 0, 0)], 16: [(0, 0, 1, 0, 0), (1, 0, 31, 0, 0)], 20: [(0, 214, 3, 9, 0x01)], 24: [(0, 0, 2, 9, 0xff)],
             28: [(0, 113, 2, 0xe, 0x91)]}
    put("ptswap.mod", mod_module(smp, mrows), 11025)
    return out


# --------------------------------------------------------------------------
# DigiBooster Pro (DBM0): IFF-style chunks, envelopes with sustain/loop points, per-instrument loops
# --------------------------------------------------------------------------

def dbm_chunk(cid, body):
    return cid + struct.pack(">I", len(body)) + bytes(body)


def dbm_envelope_chunk(envs):
    """envs: list of (ins 1.., flags, sections, sus, lps, lpe, sus2, [(pos, val)] up to 32)"""
    body = bytearray(struct.pack(">H", len(envs)))
    for (ins, flg, nsec, sus, lps, lpe, sus2, pts) in envs:
        body += struct.pack(">HBBBBBB", ins & 0xffff, flg & 0xff, nsec & 0xff, sus & 0xff, lps & 0xff, lpe & 0xff, sus2 & 0xff)
        pts = list(pts)[:32] + [(0, 0)] * (32 - len(pts))
        for (x, y) in pts:
            body += struct.pack(">Hh", x & 0xffff, max(-32768, min(32767, y)))
    return bytes(body)


def dbm_module(chn, orders, patterns, insts, samples, venv=(), penv=(), order=("INFO", "SONG", "INST", "PATT", "SMPL", "VENV", "PENV"),
               version=0x0205, title=b"synthetic dbm"):
    """patterns: list of (rows, [(row, chan 1.., note byte or None, ins or None, fxt or None, fxp, f2t or None, f2p)]) ;
    insts: list of (sample 1.., vol, c2spd, lps, looplen, pan, flags) ; samples: list of (flags, frames, data bytes)."""
    chunks = {}
    chunks["INFO"] = dbm_chunk(b"INFO", struct.pack(">HHHHH", len(insts), len(samples), 1, len(patterns), chn))
    chunks["SONG"] = dbm_chunk(b"SONG", b"song".ljust(44, b"\0") + struct.pack(">H", len(orders)) +
                               b"".join(struct.pack(">H", o & 0xffff) for o in orders))
    body = bytearray()
    for (snum, vol, c2spd, lps, lpl, pan, flags) in insts:
        body += b"ins".ljust(30, b"\0") + struct.pack(">HHIIIhH", snum & 0xffff, vol & 0xffff, c2spd & 0xffffffff, lps & 0xffffffff,
                                                       lpl & 0xffffffff, max(-32768, min(32767, pan)), flags & 0xffff)
    chunks["INST"] = dbm_chunk(b"INST", body)
    body = bytearray()
    for (rows, cells) in patterns:
        data = bytearray()
        byrow = {}
        for cell in cells:
            byrow.setdefault(cell[0], []).append(cell)
        for r in range(rows):
            for (_, c, note, ins, fxt, fxp, f2t, f2p) in byrow.get(r, []):
                mask = ((1 if note is not None else 0) | (2 if ins is not None else 0) | (4 | 8 if fxt is not None else 0)
                        | (0x10 | 0x20 if f2t is not None else 0))
                data += bytes([c & 0xff, mask])
                if note is not None:
                    data.append(note & 0xff)
                if ins is not None:
                    data.append(ins & 0xff)
                if fxt is not None:
                    data += bytes([fxt & 0xff, fxp & 0xff])
                if f2t is not None:
                    data += bytes([f2t & 0xff, f2p & 0xff])
            data.append(0)
        body += struct.pack(">HI", rows & 0xffff, len(data)) + data
    chunks["PATT"] = dbm_chunk(b"PATT", body)
    body = bytearray()
    for (flags, frames, data) in samples:
        body += struct.pack(">II", flags, frames & 0xffffffff) + data
    chunks["SMPL"] = dbm_chunk(b"SMPL", body)
    if venv:
        chunks["VENV"] = dbm_chunk(b"VENV", dbm_envelope_chunk(venv))
    if penv:
        chunks["PENV"] = dbm_chunk(b"PENV", dbm_envelope_chunk(penv))
    out = bytearray(b"DBM0" + struct.pack(">H", version) + b"\0\0" + b"NAME" + struct.pack(">I", 44) + title.ljust(44, b"\0"))
    for cid in order:
        if cid in chunks:
            out += chunks[cid]
    return bytes(out)


def gen_dbm(rng):
    chn = rng.choice([1, 2, 4, 8, 16, 64])
    npat = rng.randint(1, 3)
    nsmp = rng.randint(1, 3)
    nins = rng.randint(1, 4)
    ln = rng.randint(1, 8)
    orders = [rng.choice([rng.randrange(npat), rng.randrange(npat), npat, 255, 0xffff]) for _ in range(ln)]
    if all(o >= npat for o in orders):
        orders[0] = 0
    samples = []
    for i in range(nsmp):
        n = rng.choice([0, 1, 2, 4, 16, 64, 500, 3000])
        b16 = rng.random() < 0.4
        flags = (2 if b16 else 1) | (4 if rng.random() < 0.05 else 0)
        samples.append((flags, n, bytes(rng.randrange(256) for _ in range(n * (2 if b16 else 1)))))
    insts = []
    for i in range(nins):
        sn = rng.choice([0, 1, 1, nsmp, nsmp, nsmp + 1, 0xffff])
        n = samples[min(max(sn, 1), nsmp) - 1][1]
        lps = rng.choice([0, 0, 1, n // 2, n - 1, n, n + 1, 0x7fffffff, 0xffffffff])
        lpl = rng.choice([0, 1, 2, n - lps if n > lps else 0, n, n + 1, 0x7fffffff, 0xffffffff])
        insts.append((sn, rng.choice([64, 0, 65, 255, 0xffff]), rng.choice([8363, 0, 1, 100, 65535, 300000, 0xffffffff]), lps, lpl,
                      rng.choice([0, -128, 127, 128, -32768, 32767]), rng.choice([0, 1, 2, 3, 1, 2])))
    rows_of = [rng.choice([1, 2, 16, 64, 64, 100, 255, 256, 1000]) for _ in range(npat)]
    patterns = []
    for p in range(npat):
        cells = []
        for r in range(min(rows_of[p], 300)):
            for c in range(1, min(chn, 6) + 1):
                x = rng.random()
                if x < 0.15:
                    note = rng.choice([0x10, 0x30, 0x40, 0x4b, 0x7b, 0x1f, 0xff])
                    fxt = rng.choice([0, 1, 2, 3, 4, 5, 6, 7, 8, 9, 0xa, 0xb, 0xc, 0xd, 0xe, 0xf, 0x10, 0x11, 0x14, 0x15, 0x18, 0x1b, 0x1c, 0x1d, 0x2f])
                    fxp = bval(rng)
                    if fxt == 0xe:
                        fxp = (rng.choice([3, 3, 4, 5, 6, 0xc, 0xd, 0xe]) << 4) | rng.randrange(16)
                    f2 = rng.random() < 0.3
                    cells.append((r, c if rng.random() < 0.95 else chn + 1, note, rng.choice([0, 1, nins, nins + 1, 255]), fxt, fxp,
                                  rng.choice([0xb, 0xd, 0xf, 0x1c, 9]) if f2 else None, bval(rng)))
                elif x < 0.2:
                    fxt = rng.choice([0xb, 0xd, 0xe, 0xf, 0x1c])
                    fxp = bval(rng) if fxt != 0xe else (rng.choice([6, 0xe, 0xd, 0xc]) << 4) | rng.randrange(16)
                    if fxt == 0xd and rng.random() < 0.5:
                        t = max(0, min(99, rng.choice(rows_of) + rng.choice([-1, 0, 0, 1])))
                        fxp = ((t // 10) << 4) | (t % 10)
                    cells.append((r, c, None, None, fxt, fxp, None, 0))
        patterns.append((rows_of[p], cells))

    def env():
        nsec = rng.choice([0, 1, 2, 5, 30, 31])
        x = 0
        pts = []
        for _ in range(32):
            x += rng.choice([0, 1, 4, 30, 300, 5000])
            pts.append((x, rng.choice([0, 16, 32, 64, 65, 255, -1, -32768, 32767])))
        b = [0, 1, nsec, nsec + 1 if nsec < 31 else 31, 31]
        return (rng.choice([1, 1, nins]), rng.choice([1, 1, 3, 5, 7, 0]), nsec, rng.choice(b), rng.choice(b), rng.choice(b), rng.choice(b), pts)

    venv = [env() for _ in range(rng.choice([0, 1, 2]))]
    penv = [env() for _ in range(rng.choice([0, 0, 1]))]
    order = ["INFO", "SONG", "INST", "PATT", "SMPL", "VENV", "PENV"]
    if rng.random() < 0.5:
        rest = order[1:]
        rng.shuffle(rest)          # DBM readers take chunks in file order: any permutation after INFO is a legal file
        order = ["INFO"] + rest
    data = dbm_module(chn, orders, patterns, insts, samples, venv, penv, order, version=rng.choice([0x0205, 0x0220, 0x0300]))
    if rng.random() < 0.1:
        data = data[:rng.randrange(len(data) // 2, len(data))]
    return data, "dbm"


def gen_it_compressed(rng):
    """IT module whose samples carry the IT2.14 compression flag over block-structured random bit streams that
    are cut short (a decoder that ignores the error leaves the tail of its output buffer as it was allocated)."""
    nsmp = rng.randint(1, 3)
    samples = []
    for i in range(nsmp):
        n = rng.choice([1, 7, 64, 500, 3000, 0x8000, 0x8001, 70000])
        b16 = rng.random() < 0.4
        stereo = rng.random() < 0.2
        blocks = bytearray()
        for _ in range(rng.choice([0, 1, 1, 2, 3])):
            ln = rng.choice([0, 1, 2, 16, 200, 2000, 0xffff])
            body = bytes(rng.randrange(256) for _ in range(min(ln, rng.choice([ln, ln, ln // 2, 3]))))
            blocks += struct.pack("<H", ln) + body
        if rng.random() < 0.5 and len(blocks) > 2:
            blocks = blocks[:rng.randrange(1, len(blocks))]
        flg = 0x08 | (0x04 if stereo else 0) | rng.choice([0, 0x10, 0x50, 0x20])
        samples.append(dict(n=n, c5spd=rng.choice([8363, 22050, 44100]), flg=flg, b16=b16, data=bytes(blocks),
                            lps=rng.choice([0, n // 2]), lpe=rng.choice([n, n // 2, 0]), sus=0, sue=rng.choice([0, n])))
    rows = {}
    for r in range(0, 48, 4):
        rows[r] = [(1 + (r // 4) % 4, rng.choice([36, 48, 60, 72]), 1 + rng.randrange(nsmp), None, 0)]
    data = it_module(samples, rows, speed=rng.choice([1, 3, 6]), tempo=rng.choice([125, 255, 32]), title=b"compressed")
    # the converter byte (offset 0x2e of each sample header): bit 2 = delta-coded stream (IT 2.15)
    data = bytearray(data)
    for k in range(nsmp):
        o = 192 + 1 + 4 * nsmp + 4 + 80 * k + 0x2e
        data[o] = rng.choice([1, 1 | 4, 0])
    return bytes(data), "it"


# --------------------------------------------------------------------------
# OctaMED MMD0 / MMD1: offset-linked structures, sampled + synthetic instruments with volume / waveform
# command tables (jumps, loops, waits), expansion data with per-instrument hold / decay / long loops
# --------------------------------------------------------------------------

MED_TABLE_CMDS = [0xff, 0xfe, 0xfb, 0xfa, 0xf6, 0xf5, 0xf4, 0xf3, 0xf2, 0xf1, 0xf0, 0xf7, 0xfc, 0xfd]


def med_table(rng, n):
    out = bytearray()
    while len(out) < n:
        x = rng.random()
        if x < 0.45:
            out.append(rng.choice([0, 1, 0x20, 0x3f, 0x40, 0x41, 0x7f]))          # volume / waveform number
        elif x < 0.9:
            c = rng.choice(MED_TABLE_CMDS)
            out.append(c)
            if c in (0xfe, 0xf0, 0xf1, 0xf2, 0xf3, 0xf4, 0xf5, 0xf6, 0xf7, 0xfc, 0xfd, 0xfa):
                out.append(rng.choice([0, 1, len(out) & 0x7f, n & 0x7f, 0x7f, 0x80, 0xff]))   # argument (jump target, speed, ...)
        else:
            out.append(rng.randrange(256))
    return bytes(out[:128]).ljust(128, b"\xff")


def gen_mmd(rng):
    ver = rng.choice([0, 1, 1])
    ntrk = rng.choice([1, 2, 4, 4, 8, 16])
    nblocks = rng.randint(1, 3)
    nins = rng.randint(1, 4)
    songlen = rng.randint(1, 8)
    playseq = [rng.choice([rng.randrange(nblocks), rng.randrange(nblocks), nblocks, 255]) for _ in range(songlen)]
    if all(p >= nblocks for p in playseq):
        playseq[0] = 0
    lines_of = [rng.choice([0, 1, 15, 63, 63, 99, 255] + ([256, 999, 3199] if ver else [])) for _ in range(nblocks)]

    # ---- blocks -------------------------------------------------------------
    blocks = []
    fx_pool = [0, 1, 2, 3, 4, 5, 6, 7, 8, 9, 0xa, 0xb, 0xc, 0xd, 0xe, 0xf, 0x11, 0x12, 0x14, 0x15, 0x16, 0x18, 0x19, 0x1a, 0x1b,
               0x1d, 0x1e, 0x1f, 0x20]
    for b in range(nblocks):
        lines = lines_of[b]
        body = bytearray()
        for r in range(lines + 1):
            for t in range(ntrk):
                x = rng.random()
                note = ins = fx = prm = 0
                if x < 0.15:
                    note = rng.choice([1, 13, 25, 37, 49, 61, 0x7f] if ver else [1, 13, 25, 36, 0x3f])
                    ins = rng.choice([0, 1, 1, nins, nins + 1, 31, 63])
                    fx = rng.choice(fx_pool)
                    prm = bval(rng)
                elif x < 0.22:
                    fx = rng.choice([0xb, 0xf, 0x9, 0x16, 0x1d, 0x1e, 0x1f, 0x19])
                    prm = bval(rng)
                    if fx == 0xf:
                        prm = rng.choice([0, 1, 2, 0x0a, 0xf0, 0xf1, 0xf2, 0xf3, 0xf8, 0xf9, 0xfa, 0xfd, 0xfe, 0xff, 240, 241])
                    if fx == 0x1d:
                        prm = (rng.choice(lines_of) + rng.choice([-1, 0, 0, 1])) & 0xff
                    if rng.random() < 0.2:
                        ins = rng.choice([1, nins])         # instrument without note: MED hold / decay path
                if ver:
                    body += bytes([note & 0x7f, ins & 0x3f, fx & 0xff, prm])
                else:
                    fx &= 0x0f
                    body += bytes([(note & 0x3f) | ((ins & 0x20) << 2) | ((ins & 0x10) << 2), ((ins & 0x0f) << 4) | fx, prm])
        if ver:
            blocks.append(struct.pack(">HHI", ntrk if rng.random() < 0.9 else rng.choice([1, ntrk]), lines, 0) + body)
        else:
            blocks.append(bytes([ntrk, lines & 0xff]) + body)

    # ---- instruments ----------------------------------------------------------
    instrs, song_samples, exps = [], [], []
    for i in range(nins):
        kind = rng.choice(["smp", "smp", "synth", "hybrid", "none", "ext16"])
        rep = replen = 0
        if kind in ("smp", "ext16"):
            n = rng.choice([0, 2, 4, 16, 64, 400, 3000])
            b16 = kind == "ext16"
            data = bytes(rng.randrange(256) for _ in range(n))
            typ = (0x10 if b16 else 0) | rng.choice([0, 0, 0, 7, 0x20])
            instrs.append(struct.pack(">Ih", n if rng.random() < 0.9 else rng.choice([n + 2, 0x7fffffff]), typ) + data)
            rep = rng.choice([0, 0, 1, n // 4, n // 2, n, 0xffff])
            replen = rng.choice([0, 1, 2, (n // 2 - rep) & 0xffff, n // 2, 0xffff])
        elif kind in ("synth", "hybrid"):
            nw = rng.choice([1, 1, 2, 4, 64])
            hdr = bytearray(bytes([rng.choice([0, 1, 0xff])]) + b"\0\0\0")
            hdr += struct.pack(">HHHHBBH", rng.choice([0, 1, 100]), rng.choice([0, 1, 100]), rng.choice([0, 1, 16, 127, 128]),
                               rng.choice([0, 1, 16, 127, 128]), rng.choice([0, 1, 6, 255]), rng.choice([0, 1, 6, 255]), nw)
            hdr += med_table(rng, 128) + med_table(rng, 128)
            base = 6 + len(hdr) + 4 * nw
            wfs, offs = bytearray(), []
            for w in range(nw):
                offs.append(base + len(wfs))
                if kind == "hybrid" and w == 0:
                    n = rng.choice([2, 64, 1000])
                    wfs += struct.pack(">Ih", n, 0) + bytes(rng.randrange(256) for _ in range(n))
                else:
                    words = rng.choice([0, 1, 8, 16, 64, 128])
                    wfs += struct.pack(">H", words) + bytes(rng.randrange(256) for _ in range(2 * words))
            if rng.random() < 0.1:
                offs[-1] = rng.choice([0, 6, 0x7fffffff, len(hdr) + len(wfs) + 100])
            body = bytes(hdr) + b"".join(struct.pack(">I", o & 0xffffffff) for o in offs) + bytes(wfs)
            instrs.append(struct.pack(">Ih", len(body), -2 if kind == "hybrid" else -1) + body)
            rep = rng.choice([0, 1, 16])
            replen = rng.choice([0, 1, 16, 0xffff])
        else:
            instrs.append(None)
        song_samples.append(struct.pack(">HHBBBb", rep & 0xffff, replen & 0xffff, 0, 0, rng.choice([64, 0, 65, 255]),
                                        rng.choice([0, 12, -12, 127, -128])))
        exps.append(bytes([rng.choice([0, 1, 6, 127, 255]), rng.choice([0, 1, 10, 255]), 0, rng.choice([0, 7, 8, 0xf8, 0xff, 0x7f])]))

    # ---- assemble with offsets ---------------------------------------------------
    flags = rng.choice([0, 0x20, 0x40, 0x10, 0x60]) | rng.choice([0, 0, 0x80])
    flags2 = rng.choice([0, 0x20, 0x23, 0x3f, 0x20 | 7])
    song = bytearray(b"".join(song_samples).ljust(504, b"\0"))
    song += struct.pack(">HH", nblocks, songlen) + bytes(playseq).ljust(256, b"\0")
    song += struct.pack(">HbBBB", rng.choice([125, 33, 1, 0, 10, 240, 255, 0xffff]), rng.choice([0, 12, -12, 100, -128]), flags, flags2,
                        rng.choice([6, 1, 0, 32, 255]))
    song += bytes(rng.choice([64, 0, 65, 255]) for _ in range(16)) + bytes([rng.choice([64, 0, 255]), nins])
    off = 52
    song_off = off
    off += len(song)
    blockarr_off = off
    off += 4 * nblocks
    smplarr_off = off
    off += 4 * nins
    block_offs = []
    for b in blocks:
        block_offs.append(off)
        off += len(b)
    ins_offs = []
    for ins in instrs:
        if ins is None:
            ins_offs.append(0)
        else:
            ins_offs.append(off)
            off += len(ins)
            off += off & 1
    use_exp = rng.random() < 0.7
    exp_off = off if use_exp else 0
    expblob = b""
    if use_exp:
        esz = rng.choice([4, 4, 8, 10, 18])
        entries = rng.choice([nins, nins, nins - 1, nins + 3, 0])
        name = b"synthetic med"
        anno = b"annotation" if rng.random() < 0.3 else b""
        expsmp_off = off + 84
        expsmp = bytearray()
        for k in range(max(0, entries)):
            e = exps[k % nins] if nins else b"\0\0\0\0"
            ext = bytes([rng.choice([0, 1, 60, 84, 255]), rng.choice([0, 1, 2, 0x10, 0xff]), 0, 0, 0, 0]) + \
                struct.pack(">II", rng.choice([0, 1, 100, 0x7fffffff, 0xffffffff]), rng.choice([0, 2, 100, 0x7fffffff, 0xffffffff]))
            expsmp += (e + ext)[:esz]
        iinfo_off = expsmp_off + len(expsmp)
        iinfo = b"".join(b"instrument".ljust(40, b"\0") for _ in range(nins))
        name_off = iinfo_off + len(iinfo)
        anno_off = name_off + len(name)
        expblob = struct.pack(">IIHHIIIHH", 0, expsmp_off, entries & 0xffff, esz, anno_off if anno else 0, len(anno), iinfo_off, nins, 40)
        expblob += bytes(16) + struct.pack(">II", name_off, rng.choice([len(name), len(name), 0, 63, 64, 0x7fffffff]))
        expblob = expblob.ljust(84, b"\0") + bytes(expsmp) + iinfo + name + anno
    out = bytearray(b"MMD1" if ver else b"MMD0")
    total = off + len(expblob)
    out += struct.pack(">IIHHIIIIII", total, song_off, 0, 0, blockarr_off, 0, smplarr_off, 0, exp_off, 0)
    out += struct.pack(">HHHHHBB", 0, 0, 0, 0, 0, 6, 0)
    assert len(out) == 52
    out += song
    if rng.random() < 0.08:
        block_offs[rng.randrange(nblocks)] = rng.choice([0, 4, total + 10, 0x7fffffff])
    out += b"".join(struct.pack(">I", o) for o in block_offs) + b"".join(struct.pack(">I", o) for o in ins_offs)
    for b in blocks:
        out += b
    for ins in instrs:
        if ins is not None:
            out += ins
            if len(out) & 1:
                out += b"\0"
    out += expblob
    if rng.random() < 0.1:
        out = out[:rng.randrange(len(out) // 2, len(out))]
    return bytes(out), "med"


GENS = [gen_mod, gen_xm, gen_xm, gen_s3m, gen_it, gen_it]
# generators added for C01 only (C02 keeps using GENS through write_set)
GENS_C01_EXTRA = [gen_dbm, gen_it_compressed, gen_mmd, gen_dbm, gen_mmd, gen_it_compressed, gen_it_midi, gen_mod_invloop, gen_med3, gen_med3]


def write_set_extra(rng, dirname, count, gens=None, prefix="syx"):
    """Like write_set, for the generators in GENS_C01_EXTRA."""
    import os
    gens = gens or GENS_C01_EXTRA
    os.makedirs(dirname, exist_ok=True)
    paths = []
    for i in range(count):
        g = gens[i % len(gens)]
        try:
            data, ext = g(rng)
        except Exception:
            continue
        p = os.path.join(dirname, "%s%04d.%s" % (prefix, i, ext))
        with open(p, "wb") as f:
            f.write(data)
        paths.append(p)
    return paths


def write_set(rng, dirname, count, prefix="syn"):
    """Writes `count` synthetic modules into dirname; returns their paths."""
    import os
    os.makedirs(dirname, exist_ok=True)
    paths = []
    for i in range(count):
        g = GENS[i % len(GENS)]
        try:
            data, ext = g(rng)
        except Exception:
            continue
        p = os.path.join(dirname, "%s%04d.%s" % (prefix, i, ext))
        with open(p, "wb") as f:
            f.write(data)
        paths.append(p)
    return paths


if __name__ == "__main__":
    import random
    import sys
    print(len(write_set(random.Random(int(sys.argv[2]) if len(sys.argv) > 2 else 1), sys.argv[1], 60)))
