#!/usr/bin/env python3
"""Translator: the literals of the header-count validation of the four core
format loaders (mod_load.c, s3m_load.c, xm_load.c, it_load.c), for the C03
header models (lean/XmpModel/LoadPostHdr.lean).

Writes lean/XmpModel/Gen/C03Hdr.lean from /repo's *current* sources:
  * every limit a loader compares a header count with (regular expressions on
    the loader source, tolerant to white space; symbolic limits such as
    XMP_MAX_CHANNELS are resolved through gen_limits' macro probe);
  * the magic -> channel-count table of mod_load.c.
If an expression no longer matches (refactoring) the previous value is kept and
the name is reported in `stale`; the header correspondence of the check probes
every boundary on the real loaders on every run anyway.  A *changed* limit is
regenerated, and `hdrLimits_sane` (XmpProofs/LoadPostHdr.lean) — the facts the
count theorems need — stops being provable when a check was loosened too far.
"""
import os
import re
import sys

sys.path.insert(0, os.path.dirname(os.path.abspath(__file__)))
import vlib  # noqa: E402
import gen_limits  # noqa: E402

OUT = os.path.join(vlib.LEAN, "XmpModel", "Gen", "C03Hdr.lean")

NUM = r"(0x[0-9a-fA-F]+|\d+|[A-Z_][A-Z_0-9]*)"

# lean name -> (file below src/loaders, regex with one group, default)
LIMITS = {
    # mod_load.c
    "modIns": ("mod_load.c", r"mod->ins\s*=\s*" + NUM + r"\s*;\s*mod->smp\s*=\s*mod->ins", 31),
    "modChnReject": ("mod_load.c", r"if\s*\(\s*mod->chn\s*>=\s*" + NUM + r"\s*\)\s*\{?\s*return\s+-1", 64),
    "modOrderStop": ("mod_load.c", r"if\s*\(\s*mod->xxo\[i\]\s*>\s*" + NUM + r"\s*\)\s*break", 0x7f),
    "modOrders": ("mod_load.c", r"memcpy\s*\(\s*mod->xxo\s*,\s*mh\.order\s*,\s*" + NUM + r"\s*\)", 128),
    "modRestartMax": ("mod_load.c", r"mh\.restart\s*<\s*" + NUM + r"\s*&&", 0x7f),
    "modRestartSkip": ("mod_load.c", r"mh\.restart\s*!=\s*" + NUM + r"\s*&&", 0x78),
    "modRows": ("mod_load.c", r"libxmp_alloc_pattern_tracks\s*\(\s*mod\s*,\s*i\s*,\s*" + NUM + r"\s*\)", 64),
    "modTestChMax": ("mod_load.c", r"if\s*\(\s*i\s*>\s*0\s*&&\s*i\s*<=\s*" + NUM + r"\s*\)", 32),
    # s3m_load.c
    "s3mOrdMax": ("s3m_load.c", r"sfh\.ordnum\s*>\s*" + NUM, 255),
    "s3mInsMax": ("s3m_load.c", r"sfh\.insnum\s*>\s*" + NUM, 255),
    "s3mPatMax": ("s3m_load.c", r"sfh\.patnum\s*>\s*" + NUM, 255),
    "s3mChannels": ("s3m_load.c", r"for\s*\(\s*i\s*=\s*0\s*;\s*i\s*<\s*" + NUM + r"\s*;\s*i\+\+\s*\)\s*\{\s*int\s+x\s*;", 32),
    "s3mOrderSkip": ("s3m_load.c", r"mod->xxo\[i\]\s*<\s*" + NUM + r"\s*&&\s*mod->xxo\[i\]\s*>\s*mod->pat", 0xfe),
    "s3mRows": ("s3m_load.c", r"libxmp_alloc_pattern_tracks\s*\(\s*mod\s*,\s*i\s*,\s*" + NUM + r"\s*\)", 64),
    # xm_load.c
    "xmLenMax": ("xm_load.c", r"xfh\.songlen\s*>\s*" + NUM, 256),
    "xmPatMax": ("xm_load.c", r"xfh\.patterns\s*>\s*" + NUM, 256),
    "xmInsMax": ("xm_load.c", r"xfh\.instruments\s*>\s*" + NUM, 255),
    "xmChnMax": ("xm_load.c", r"xfh\.channels\s*>\s*" + NUM, 64),
    "xmTempoReject": ("xm_load.c", r"xfh\.tempo\s*>=\s*" + NUM, 32),
    "xmBpmMin": ("xm_load.c", r"xfh\.bpm\s*<\s*" + NUM, 32),
    "xmBpmMax": ("xm_load.c", r"xfh\.bpm\s*>\s*" + NUM, 1000),
    "xmHdrBase": ("xm_load.c", r"len\s*=\s*xfh\.headersz\s*-\s*" + NUM, 0x14),
    "xmHdrLenMax": ("xm_load.c", r"len\s*<\s*0\s*\|\|\s*len\s*>\s*" + NUM, 256),
    "xmRowsMax": ("xm_load.c", r"xph\.rows\s*>\s*" + NUM, 256),
    "xmRowsZero": ("xm_load.c", r"if\s*\(\s*r\s*==\s*0\s*\)\s*\{?\s*r\s*=\s*" + NUM, 0x100),
    "xmExtraRows": ("xm_load.c", r"mod->xxp\[i\]->rows\s*=\s*" + NUM, 64),
    # it_load.c
    "itInsMax": ("it_load.c", r"mod->ins\s*>\s*" + NUM + r"\s*\|\|", 255),
    "itSmpMax": ("it_load.c", r"mod->smp\s*>\s*" + NUM + r"\s*\|\|", 255),
    "itPatMax": ("it_load.c", r"\|\|\s*mod->pat\s*>\s*" + NUM, 255),
    "itGvMax": ("it_load.c", r"ifh\.gv\s*>\s*" + NUM, 0x80),
    "itRowsMax": ("it_load.c", r"num_rows\s*>\s*" + NUM + r"\s*\)\s*\{", 1024),
    "itEmptyRows": ("it_load.c", r"pp_pat\[i\]\s*==\s*0\s*\)\s*\{\s*mod->xxp\[i\]->rows\s*=\s*" + NUM, 64),
    "itChannelMask": ("it_load.c", r"c\s*=\s*\(\s*b\s*-\s*1\s*\)\s*&\s*" + NUM, 63),
    # loaders/common.c: the row ranges of the allocation helpers
    "helperRowsMax": ("common.c", r"rows\s*<=\s*0\s*\|\|\s*rows\s*>\s*" + NUM, 256),
}


def strip_comments(text):
    text = re.sub(r"/\*.*?\*/", " ", text, flags=re.S)
    return re.sub(r"//[^\n]*", " ", text)


def previous():
    try:
        txt = open(OUT).read()
    except OSError:
        return {}
    return {k: int(v) for k, v in re.findall(r"^def (\w+) : Nat := (\d+)", txt, re.M)}


def generate():
    macros = gen_limits.macro_values()
    prev = previous()
    src = {}
    vals, stale = {}, []
    for name, (fn, rx, default) in LIMITS.items():
        if fn not in src:
            src[fn] = strip_comments(open(os.path.join(vlib.REPO, "src", "loaders", fn)).read())
        m = re.search(rx, src[fn])
        v = None
        if m:
            tok = m.group(1)
            if re.match(r"^(0x[0-9a-fA-F]+|\d+)$", tok):
                v = int(tok, 0)
            elif tok in macros:
                v = macros[tok]
        if v is None:
            v = prev.get(name, default)
            stale.append(name)
        vals[name] = v
    # the magic table of mod_load.c: {"M.K.", flag, TRACKER_X, channels}
    body = re.search(r"mod_magic\[\]\s*=\s*\{(.*?)\};", src["mod_load.c"], re.S)
    magics = []
    if body:
        for mg, fl, ch in re.findall(r'\{\s*"([^"]{4})"\s*,\s*(\d+)\s*,\s*\w+\s*,\s*(\d+)\s*\}', body.group(1)):
            magics.append((mg, int(fl), int(ch)))
    if not magics:
        stale.append("modMagic")
        old = re.search(r"def modMagic : List \(List Nat × Nat × Nat\) := \[(.*?)\]\n", open(OUT).read(), re.S) if os.path.exists(OUT) else None
        magic_txt = old.group(1) if old else ""
    else:
        magic_txt = ",\n".join("  ([%s], %d, %d)" % (", ".join(str(ord(c)) for c in mg), fl, ch) for mg, fl, ch in magics)
    lines = ["/-! GENERATED by tools/c03_gen_hdr.py from /repo (src/loaders/{mod,s3m,xm,it}_load.c, common.c).",
             "Header-count limits of the four core loaders.  Do not edit: regenerated on every run of the C03 check. -/",
             "namespace Xmp.Gen.C03Hdr", ""]
    for k in LIMITS:
        lines.append("def %s : Nat := %d" % (k, vals[k]))
    lines += ["", "/-- `mod_magic[]`: magic bytes at offset 1080, the `flag` (tracker known for sure: no further",
              "identification from header details) and the channel count they stand for -/",
              "def modMagic : List (List Nat × Nat × Nat) := [", magic_txt, "]", "", "end Xmp.Gen.C03Hdr", ""]
    changed = vlib.write_if_changed(OUT, "\n".join(lines))
    return {"values": vals, "stale": stale, "changed": changed, "magics": len(magics)}


if __name__ == "__main__":
    print(generate())
