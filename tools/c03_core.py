"""C03 sub-check: the four core loaders' bodies (cross-property C03 x C19).

proof : XmpProps.C03Core over XmpModel/LoadPostCore.lean: for MOD, S3M, XM and IT, for EVERY byte string the C19 reader of
        the format accepts, the song has patterns of >= 1 row, names shorter than their arrays (C03_core_*_song) and PCM of
        exactly `len` frames per sample (C03_core_*_pcm, incl. IT 2.14/2.15 decompression), so the raw module
        `toRaw L song extra` satisfies LoaderOblig for every `extra` (C03_core_oblig), hence (C03_finish_full) every
        successful `finish` yields a well-formed module: C03_core_mod_wf / _s3m_wf / _xm_wf / _it_wf / C03_core_wf.
tie   : `toRaw` against reality.  Files written by C19's independent encoders (drv_c19 `gen`), byte mutants of them and
        corpus modules of the four formats are loaded through ONE real loader by harness/c03_wf.c (`hdr` mode), which dumps
        the RAW module (between the loader's return and the first modification by load_module); drv_c03core prints
        `toRaw (read bytes)`; the two dumps are compared field by field (see compare()).  Fields the abstract song does not
        carry (`Extra`) are range-checked on the real dump instead: envelope scalars in 0..255, restart >= 0, type string
        terminated.
Called from tools/checks/c03.py (importlib hook at the end of its run()).
"""
import hashlib
import os
import random
import shutil
import subprocess
import sys
import time

sys.path.insert(0, os.path.dirname(os.path.abspath(__file__)))
import vlib  # noqa: E402

REQUIRED = ["Xmp.LoadPost.Core.C03_core_oblig", "Xmp.LoadPost.Core.C03_core_mod_wf", "Xmp.LoadPost.Core.C03_core_s3m_wf",
            "Xmp.LoadPost.Core.C03_core_xm_wf", "Xmp.LoadPost.Core.C03_core_it_wf", "Xmp.LoadPost.Core.C03_core_wf",
            "Xmp.LoadPost.Core.C03_core_mod_song", "Xmp.LoadPost.Core.C03_core_s3m_song",
            "Xmp.LoadPost.Core.C03_core_xm_song", "Xmp.LoadPost.Core.C03_core_it_song",
            "Xmp.LoadPost.Core.C03_core_mod_pcm", "Xmp.LoadPost.Core.C03_core_s3m_pcm", "Xmp.LoadPost.Core.C03_core_xm_pcm",
            "Xmp.LoadPost.Core.C03_core_it_pcm", "Xmp.LoadPost.Core.C03_core_pcm", "Xmp.LoadPost.Core.C03_core_guards",
            "Xmp.LoadPost.Core.C03_core_guard_frames", "Xmp.LoadPost.Core.C03_core_mod_wf_vblank"]

FORMATS = ("mod", "s3m", "xm", "it")
WORK = os.path.join(vlib.OUT, "c03core")
LOOP, BIDIR, LOOP_FULL, SLOOP, SBIDIR = 2, 4, 16, 32, 64


def _big_stack():
    import resource
    soft, hard = resource.getrlimit(resource.RLIMIT_STACK)
    want = 4 << 30
    if hard != resource.RLIM_INFINITY:
        want = min(want, hard)
    try:
        resource.setrlimit(resource.RLIMIT_STACK, (want, hard))
    except (ValueError, OSError):
        pass


def run_proc(cmd, text, timeout=1800):
    p = subprocess.run(cmd, input=text.encode(), stdout=subprocess.PIPE, stderr=subprocess.PIPE, timeout=timeout,
                       preexec_fn=_big_stack,
                       env=dict(os.environ, ASAN_OPTIONS="detect_leaks=0:allocator_may_return_null=1",
                                UBSAN_OPTIONS="print_stacktrace=1"))
    return p.returncode, p.stdout.decode("latin-1"), p.stderr.decode("utf-8", "replace")


def shard(items, n):
    n = max(1, min(n, len(items)))
    return [items[i::n] for i in range(n)]


def parse_blocks(text):
    out, cur, cid = [], None, None
    for l in text.split("\n"):
        if l.startswith("begin "):
            cid, cur = l[6:], []
        elif l == "end" and cur is not None:
            out.append((cid, cur))
            cur = None
        elif cur is not None:
            cur.append(l)
    return out


def mutate(rng, data, fmt):
    """byte-level mutant biased to the header area (never truncation: short files are outside the readers)"""
    b = bytearray(data)
    n = len(b)
    where = []
    for _ in range(rng.choice([1, 1, 2, 3])):
        hdr = {"mod": 1084, "s3m": 96 + 300, "xm": 336 + 300, "it": 192 + 700}[fmt]
        pos = rng.randrange(min(n, hdr)) if rng.random() < 0.7 else rng.randrange(n)
        mode = rng.randrange(4)
        if mode == 0:
            b[pos] ^= 1 << rng.randrange(8)
        elif mode == 1:
            b[pos] = rng.choice([0, 1, 0x7f, 0x80, 0xff, 0x40, 0x20])
        elif mode == 2:
            b[pos] = (b[pos] + rng.choice([1, 255])) & 0xff
        else:
            b[pos] = rng.randrange(256)
        where.append(pos)
    return bytes(b), where


def corpus_of(fmt, limit):
    exts = {"mod": (".mod",), "s3m": (".s3m",), "xm": (".xm",), "it": (".it",)}[fmt]
    return [f for f in vlib.corpus_files() if f.lower().endswith(exts) and os.path.getsize(f) < limit]


# ---------------------------------------------------------------------------------------------------------------------
# dump parsing and comparison
# ---------------------------------------------------------------------------------------------------------------------

def cstr(h):
    b = bytes.fromhex(h) if h != "-" else b""
    k = b.find(b"\0")
    return b if k < 0 else b[:k]


def adjust(b):
    """libxmp_adjust_string on a C string: non-printable -> space, trailing spaces removed"""
    return bytes(c if 0x20 <= c <= 0x7e else 0x20 for c in b).rstrip(b" ")


def has_nul(h):
    return h != "-" and 0 in bytes.fromhex(h)


def fix_spd(v):
    return 6 if v <= 0 or v > 255 else v


def fix_bpm(v):
    return 1000 if v > 1000 else (20 if v < 20 else v)


def norm_smp(ln, lps, lpe, flg, hasdata, sus, sue):
    """the epilogue's per-sample rules (LoadPost.epilogueLoop, epilogueSmp) followed by C19's observation rule (loop
    points only when flagged): the abstract song carries loop points / loop flags in this normal form"""
    flg &= 0xff & ~LOOP_FULL
    if hasdata and (lps < 0 or lpe > ln or lps > lpe or ((flg & LOOP) and lps >= lpe)):
        lps = lpe = 0
        flg &= ~(LOOP | BIDIR)
    sus = max(sus, 0)
    sue = min(sue, ln)
    if sus >= ln or sus >= sue:
        sus = sue = 0
        flg &= ~(SLOOP | SBIDIR)
    if not flg & LOOP:
        lps = lpe = 0
    if not flg & SLOOP:
        sus = sue = 0
    return (ln, lps, lpe, flg, sus, sue)


def split_dump(lines):
    d = {"p": [], "i": [], "u": [], "e": [], "s": [], "meta": {}}
    for l in lines:
        w = l.split(" ")
        k = w[0]
        if k in ("p", "i", "u", "e", "s"):
            d[k].append(w)
        elif k in ("mod", "name", "type", "xxo", "tab", "xxt", "xxc"):
            d[k] = w
        elif k in ("oblig", "songok", "pcmok", "cv", "scan"):
            d["meta"].setdefault(k, w[1:])
    return d


def compare(fmt, real, model):
    """field-by-field comparison of the raw dump of a real load with toRaw (read bytes); returns (None, stats) or
    (description of the first difference, stats)"""
    R, M = split_dump(real), split_dump(model)
    st = {"fields": 0}

    def eq(what, a, b):
        st["fields"] += 1
        return None if a == b else "%s: real %s model %s" % (what, str(a)[:120], str(b)[:120])

    rm, mm = [int(x) for x in R["mod"][1:13]], [int(x) for x in M["mod"][1:13]]
    names = ("pat", "trk", "chn", "ins", "smp", "spd", "bpm", "len", "rst")
    for k in range(5):
        d = eq("count " + names[k], rm[k], mm[k])
        if d:
            return d, st
    d = eq("spd (after the epilogue's range rule)", fix_spd(rm[5]), mm[5]) or \
        eq("bpm (after the epilogue's clamp)", fix_bpm(rm[6]), mm[6])
    if d:
        return d, st
    rxxo, mxxo = bytes.fromhex(R["xxo"][1]), bytes.fromhex(M["xxo"][1])
    if mm[7] > 0:
        d = eq("len", rm[7], mm[7]) or eq("order list", rxxo[:rm[7]].hex(), mxxo[:mm[7]].hex())
    else:       # the song's order list is empty: libxmp_prepare_scan will empty it (no entry names a stored pattern)
        d = eq("order list without a stored pattern", all(o >= rm[0] for o in rxxo[:max(rm[7], 0)]), True)
    if d:
        return d, st
    # Extra: restart not negative, type string terminated
    d = eq("rst >= 0", rm[8] >= 0, True) or eq("type terminated", has_nul(R["type"][1]), True)
    if d:
        return d, st
    d = eq("module name terminated", has_nul(R["name"][1]), True) or \
        eq("module name", adjust(cstr(R["name"][1])), cstr(M["name"][1]))
    if d:
        return d, st
    d = eq("tab", R["tab"], M["tab"]) or eq("patterns", len(R["p"]), len(M["p"]))
    if d:
        return d, st
    for a, b in zip(R["p"], M["p"]):
        d = eq("pattern %s (present rows n index*)" % a[1], a, b)
        if d:
            return d, st
    d = eq("tracks (count, rows of each)", R["xxt"], M["xxt"])
    if d:
        return d, st
    d = eq("instruments", len(R["i"]), len(M["i"])) or eq("samples", len(R["s"]), len(M["s"]))
    if d:
        return d, st
    for a, b, ua, ub in zip(R["i"], M["i"], R["u"], M["u"]):
        i = a[1]
        d = eq("ins %s name terminated" % i, has_nul(a[2]), True) or \
            eq("ins %s name" % i, adjust(cstr(a[2])), cstr(b[2])) or \
            eq("ins %s nsm" % i, a[4], b[4]) or \
            eq("ins %s sub-instrument array (entries, -1 = NULL)" % i, a[5], b[5]) or \
            eq("ins %s sample ids" % i, ua, ub)
        if d:
            return d, st
    for k, e in enumerate(R["e"]):
        v = [int(x) for x in e[1:7]]
        if fmt in ("mod", "s3m"):
            d = eq("envelope %d of ins %d untouched" % (k % 3, k // 3), v, [0] * 6)
        else:
            d = eq("envelope %d of ins %d scalars are bytes" % (k % 3, k // 3), all(0 <= x <= 255 for x in v[1:]), True)
        if d:
            return d, st
    for a, b in zip(R["s"], M["s"]):
        i = a[1]
        ra = norm_smp(int(a[3]), int(a[4]), int(a[5]), int(a[6]), a[7] == "1", int(a[9]), int(a[10]))
        mb = norm_smp(int(b[3]), int(b[4]), int(b[5]), int(b[6]), b[7] == "1", int(b[9]), int(b[10]))
        d = eq("smp %s name terminated" % i, has_nul(a[2]), True) or \
            eq("smp %s name" % i, adjust(cstr(a[2])), cstr(b[2])) or \
            eq("smp %s len" % i, a[3], b[3]) or \
            eq("smp %s has data" % i, a[7], b[7]) or \
            eq("smp %s guard frames readable" % i, a[8], b[8]) or \
            eq("smp %s (len lps lpe flg sus sue) after the epilogue's loop rules" % i, ra, mb)
        if d:
            return d, st
    return None, st


# ---------------------------------------------------------------------------------------------------------------------

def build_wf():
    dh = hashlib.sha256(open(os.path.join(vlib.HARNESS, "c03_dump.h"), "rb").read()).hexdigest()[:12]
    return vlib.build_harness("c03_wf", ["c03_wf.c"], defines=["C03_DUMP_H_HASH=0x" + dh])


def make_cases(seed, rng, quick, drv19, log):
    """returns {id: (fmt, bytes, what)}"""
    cases = {}
    for fmt in FORMATS:
        n = 30 if quick else 400
        reqs = []
        for i in range(n):
            size = 0 if i % 3 == 0 else (1 if i % 3 == 1 or quick else 2)
            reqs.append("gen %s %s-g%d %d %d" % (fmt, fmt, i, seed * 100019 + i * 11 + vlib.hash_str(fmt) % 1000, size))
        for j in range(2 if quick else 8):          # the formats' maximum counts
            reqs.append("gen %s %s-s9-%d %d 9" % (fmt, fmt, j, seed * 100019 + 31 * j + 9))
        if fmt == "it":
            for j in range(2 if quick else 8):      # multi-block compressed samples
                reqs.append("gen it it-s3-%d %d 3" % (j, seed * 100019 + 31 * j + 3))
        res = vlib.pmap(lambda ls: run_proc([drv19], "\n".join(ls) + "\n"), shard(reqs, vlib.NCPU))
        gen = {}
        for rc, out, err in res:
            if rc != 0:
                raise vlib.InfraError("drv_c19 gen failed: " + err[-800:])
            for cid, lines in parse_blocks(out):
                hx = next((l[4:] for l in lines if l.startswith("hex ")), None)
                opts = next((l[5:] for l in lines if l.startswith("opts ")), "")
                if hx is None:
                    raise vlib.InfraError("drv_c19 gen produced no file for " + cid)
                gen[cid] = (bytes.fromhex(hx) if hx != "-" else b"", opts)
        for cid, (data, opts) in gen.items():
            cases[cid] = (fmt, data, "written by C19's encoder: " + opts[:200])
        small = sorted(gen, key=lambda c: len(gen[c][0]))[:max(8, len(gen) * 2 // 3)]
        for i in range(48 if quick else 1000):
            src = rng.choice(small)
            mb, where = mutate(rng, gen[src][0], fmt)
            cases["%s-m%d" % (fmt, i)] = (fmt, mb, "mutant of %s at %s" % (src, where))
        cf = corpus_of(fmt, 250000 if quick else 1500000)
        rng.shuffle(cf)
        for p in cf[: (12 if quick else 400)]:
            cases["%s-c-%s" % (fmt, os.path.basename(p).replace(" ", "_"))] = (fmt, open(p, "rb").read(), "corpus " + p)
    return cases


def real_raw(wf, cases, tmp):
    """{id: (rc, raw dump lines)} for every case whose load passed the sanity gate"""
    os.makedirs(tmp, exist_ok=True)
    jobs = []
    for fmt in FORMATS:
        ids = [c for c in cases if cases[c][0] == fmt]
        for c in ids:
            open(os.path.join(tmp, c), "wb").write(cases[c][1])
        for sh in shard(ids, max(1, vlib.NCPU // 2)):
            jobs.append((fmt, sh))

    def one(job):
        fmt, ids = job
        if not ids:
            return 0, b"", ""
        return vlib.run_exe(wf, ["hdr", fmt, tmp] + [os.path.join(tmp, c) for c in ids], timeout=1200)
    out = {}
    aborts = []
    loads = {}
    for (fmt, ids), (rc, o, err) in zip(jobs, vlib.pmap(one, jobs)):
        text = o.decode("latin-1")
        for l in text.split("\n"):
            if l.startswith("load rc="):
                w = dict(p.split("=", 1) for p in l.split(" ")[1:] if "=" in p)
                loads[os.path.basename(w.get("file", "?"))] = int(w["rc"])
        for tag, lines in parse_blocks(text):
            if not tag.startswith("rawload "):
                continue
            w = dict(p.split("=", 1) for p in tag.split(" ")[1:] if "=" in p)
            out[os.path.basename(w["file"])] = (int(w.get("rc", "0")), lines)
        if rc != 0:
            done = set(loads)
            culprit = next((c for c in ids if c not in done), "?")
            aborts.append((fmt, culprit, vlib.sanitizer_signature(err), err[-1500:]))
    return out, loads, aborts


def model_raw(drv, cases):
    reqs = ["raw %s %s %s" % (cases[c][0], c, cases[c][1].hex() or "-") for c in cases]
    out = {}
    for rc, o, err in vlib.pmap(lambda ls: run_proc([drv], "\n".join(ls) + "\n"), shard(reqs, vlib.NCPU)):
        if rc != 0:
            raise vlib.InfraError("drv_c03core failed: " + err[-800:])
        for cid, lines in parse_blocks(o):
            out[cid] = lines
    return out


def evaluate(seed, rng, quick, log=lambda *a: None):
    t0 = time.time()
    drv = vlib.lean_driver("drv_c03core")
    drv19 = vlib.lean_driver("drv_c19")
    if not os.path.exists(drv19):
        ok, o = vlib.lean_build(["drv_c19"])
        if not ok:
            raise vlib.InfraError("drv_c19 does not build: " + o[-500:])
    wf = build_wf()
    tmp = os.path.join(WORK, "files-%d" % os.getpid())
    cases = make_cases(seed, rng, quick, drv19, log)
    t1 = time.time()
    real, loads, aborts = real_raw(wf, cases, tmp)
    t2 = time.time()
    model = model_raw(drv, cases)
    t3 = time.time()
    shutil.rmtree(tmp, ignore_errors=True)
    res = {"stats": {}, "bad": [], "oblig_bad": [], "aborts": aborts, "agree": 0, "keys": [],
           "t": {"gen": round(t1 - t0, 1), "real": round(t2 - t1, 1), "model": round(t3 - t2, 1)}}

    def bump(k, n=1):
        res["stats"][k] = res["stats"].get(k, 0) + n

    for cid, (fmt, data, what) in cases.items():
        kind = "corpus" if "-c-" in cid else ("mutant" if cid.split("-")[1].startswith("m") else "written")
        bump("%s_%s_cases" % (fmt, kind))
        ml = model.get(cid)
        if ml is None:
            raise vlib.InfraError("drv_c03core gave no answer for " + cid)
        silent = bool(ml) and ml[0] == "silent"
        if cid not in real:
            bump("%s_%s_%s" % (fmt, kind, "both_refuse" if silent else "reader_accepts_real_refuses"))
            continue
        if silent:
            bump("%s_%s_reader_silent" % (fmt, kind))
            continue
        rc, rl = real[cid]
        mm = split_dump(ml)["meta"]
        for k in ("oblig", "songok", "pcmok"):
            v = mm.get(k, ["?"])
            good = v[0] in ("ok", "1")
            if not good:
                res["oblig_bad"].append({"id": cid, "what": what, "clause": k + " " + " ".join(v), "hex": data.hex()[:200000]})
        d, st = compare(fmt, rl, ml)
        bump("fields_compared", st["fields"])
        if d:
            res["bad"].append({"id": cid, "fmt": fmt, "what": what, "diff": d, "hex": data.hex()[:400000], "rc": rc,
                               "raw": rl})
        else:
            res["agree"] += 1
            bump("%s_%s_agree" % (fmt, kind))
            res["keys"].append((hashlib.sha1(data).hexdigest()[:16], kind != "written"))
    return res


def real_oblig(b):
    """clauses of LoaderOblig that fail on the real raw dump of a disagreeing case (evaluated by drv_c03), [] if none"""
    drv03 = vlib.lean_driver("drv_c03")
    if not os.path.exists(drv03):
        return []
    text = "begin rawload file=%s fmt=%s what=raw rc=%d\n%s\nend\n" % (b["id"], b["fmt"], b["rc"], "\n".join(b["raw"]))
    rc, out, err = run_proc([drv03], text)
    for l in out.split("\n"):
        w = l.split(" ")
        if w[0] == "oblig" and len(w) > 2 and w[1] == "FAIL":
            return w[2].split(",")
    return []


REQ_NOTE = ("toRaw (XmpModel/LoadPostCore.lean) vs the raw module of real mod/s3m/xm/it loads: counts, every pattern's rows and "
            "track indices, every track's rows, per instrument nsm / sub-instrument allocation / sample ids / name, per "
            "sample len / has-data / guard frames / name compared exactly; loop points, loop flags and sustain loop after the "
            "epilogue's sample rules; speed, tempo after the epilogue's range rules; names after libxmp_adjust_string with "
            "NUL-termination of the real arrays checked directly; Extra fields range-checked (envelope scalars 0..255, "
            "restart >= 0, type string terminated)")


def run(ck):
    quick = ck.tier == "quick"
    t0 = time.time()
    # the theorems: their own build so that a break in a C19 file unproves only these
    saved = (ck.cov["obligations"], ck.cov["discharged"], ck.cov["checker_cmd"], dict(ck.notes), getattr(ck, "lean_ok", None))
    ck.proofs(["XmpProps.C03Core"], required=REQUIRED, drivers=["drv_c03core"])
    core_ok = getattr(ck, "lean_ok", False)
    ck.cov["obligations"] += saved[0]
    ck.cov["discharged"] += saved[1]
    ck.cov["checker_cmd"] = saved[2] + " ; " + ck.cov["checker_cmd"]
    for k in ("axioms_used", "lean_modules", "property_theorems"):
        if k in saved[3]:
            ck.notes[k] = sorted(set(saved[3][k]) | set(ck.notes.get(k, [])))
    if saved[4] is not None:
        ck.lean_ok = saved[4]
    ck.note("c03core_t_proofs_s", round(time.time() - t0, 1))
    if not core_ok and not (vlib.lean_build(["drv_c03core"])[0]):
        return
    if not os.path.exists(vlib.lean_driver("drv_c03core")):
        return
    res = evaluate(ck.seed, random.Random(ck.seed * 7919 + 1903), quick)
    for fmt, culprit, sig, err in res["aborts"]:
        ck.note("c03core_harness_abort_" + fmt, {"case": culprit, "sig": sig})     # memory safety on arbitrary bytes: C01
    for b in res["bad"][:6]:
        p = os.path.join(vlib.OUT, "c03core-%s.bin" % b["id"])
        open(p, "wb").write(bytes.fromhex(b["hex"]))
        # direct oracle first: does the property's own predicate (LoaderOblig, Lean, drv_c03) fail on the REAL raw module?
        broken = real_oblig(b)
        if broken:
            ck.violation("oblig:%s:%s" % (broken[0], b["fmt"]),
                         {"kind": "file", "clauses": broken, "bytes_hex": b["hex"],
                          "tag": {"file": b["id"], "mutseed": "0", "smpctl": "0", "via": "mem", "other": "-", "fmt": b["fmt"]}},
                         "%s: the real %s loader left a raw module that breaks loader obligation(s) %s (and differs from "
                         "Core.toRaw: %s)" % (b["what"], b["fmt"], ",".join(broken), b["diff"]))
            continue
        ck.unproved("correspondence Core.toRaw vs the raw module of the real %s loader" % b["fmt"],
                    "%s: %s (load rc %d); bytes in %s; replay: c03_wf hdr %s /tmp %s ; echo raw %s x $(xxd -p -c0 %s) | drv_c03core"
                    % (b["what"], b["diff"], b["rc"], p, b["fmt"], p, b["fmt"], p))
    for b in res["oblig_bad"][:4]:
        ck.unproved("evaluation of C03_core_* on reader output", "%s (%s): %s" % (b["id"], b["what"], b["clause"]))
    for key, nt in res["keys"]:
        ck.count("core:" + key, nontrivial=nt)
    ck.cov["traces_validated_against_impl"] += res["agree"]
    ck.note("c03core_tie", dict(res["stats"], agree=res["agree"], disagree=len(res["bad"]), seconds=res["t"]))
    ck.note("c03core_tie_compares", REQ_NOTE)
    for fmt in FORMATS:
        if not any(k.startswith(fmt + "_") and k.endswith("_agree") for k in res["stats"]):
            ck.unproved("tie Core.toRaw", "no %s load was compared with toRaw" % fmt)
    ck.assumptions += [
        "C03 x C19: the readers Fmt.Mod/S3m/Xm/It.read are tied to the real loaders by C19's correspondence; toRaw by the "
        "comparison above; loop points / loop flags / speed / tempo / names are compared in the normal form the abstract song "
        "carries them in (after the epilogue's rules and libxmp_adjust_string), which LoaderOblig does not depend on",
    ]
    ck.note("c03core_t_total_s", round(time.time() - t0, 1))


if __name__ == "__main__":
    seed = int(sys.argv[1]) if len(sys.argv) > 1 else 1
    r = evaluate(seed, random.Random(seed * 7919 + 1903), (sys.argv[2] if len(sys.argv) > 2 else "quick") == "quick")
    import json
    print(json.dumps(r["stats"], indent=1, sort_keys=True))
    print("agree", r["agree"], "bad", len(r["bad"]), "oblig_bad", len(r["oblig_bad"]), "aborts", [a[:3] for a in r["aborts"]], r["t"])
    seen = set()
    for b in r["bad"]:
        import re
        k = (b["fmt"], re.sub(r"\d+", "N", b["diff"].split(":")[0]))
        if k in seen:
            continue
        seen.add(k)
        print(b["id"], "|", b["what"][:100], "|", b["diff"])
    for b in r["oblig_bad"][:5]:
        print("OBLIG", b["id"], b["what"][:100], b["clause"])
