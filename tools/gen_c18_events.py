#!/usr/bin/env python3
"""Translator for C18: the player runs the flow effect of an event whatever its note column holds and whether or not
its note gets a mixer voice -- the LinFlow model reads one flow effect per row and nothing else.  Extracted from
/repo's working tree into lean/XmpModel/Gen/C18Events.lean on every run of the C18 check:

 * earlyReturns: for every event reader of src/read_event.c (read_event_mod / ft2 / st3 / it / med), the `return`s
   that come before its final libxmp_process_fx() calls: (function, guard of the enclosing block, does that block call
   libxmp_process_fx before returning);
 * readRowFxWrites: every assignment to ev.fxt / ev.fxp in read_row() of src/player.c (the row reader may rewrite an
   event before it is read): (conjuncts of the enclosing if-conditions, statement).

XmpProps/C18.lean proves over these lists that no reader leaves before the effects except under the listed FT2
late-note rule, and that read_row only strips a *note delay* (EX_DELAY) next to a key-off."""
import os
import re
import sys

sys.path.insert(0, os.path.dirname(os.path.abspath(__file__)))
import vlib  # noqa: E402

OUT = os.path.join(vlib.LEAN, "XmpModel", "Gen", "C18Events.lean")
READERS = ["read_event_mod", "read_event_ft2", "read_event_st3", "read_event_it", "read_event_med"]


def _strip(t):
    t = re.sub(r"/\*.*?\*/", lambda m: " " * len(m.group(0)), t, flags=re.S)
    t = re.sub(r"//[^\n]*", lambda m: " " * len(m.group(0)), t)
    return re.sub(r"^[ \t]*#[^\n]*", lambda m: " " * len(m.group(0)), t, flags=re.M)


def _norm(e):
    return re.sub(r"\s+", " ", e.strip())


def func_body(src, name):
    m = re.search(r"\b%s\s*\([^;{]*\)\s*\{" % re.escape(name), src)
    if not m:
        raise RuntimeError("gen_c18_events: function %s not found" % name)
    i = m.end()
    depth, j = 1, i
    while depth:
        c = src[j]
        depth += c == "{"
        depth -= c == "}"
        j += 1
    return src[i:j - 1]


def enclosing(body, pos):
    """innermost-first list of (block start offset, guard text) of the blocks of `body` that contain offset pos"""
    stack, out = [], None
    for k, c in enumerate(body[:pos]):
        if c == "{":
            stack.append(k)
        elif c == "}":
            stack.pop()
    res = []
    for st in reversed(stack):
        head = body[:st].rstrip()
        g = ""
        if head.endswith(")"):
            depth, q = 0, len(head) - 1
            while q >= 0:
                depth += head[q] == ")"
                depth -= head[q] == "("
                if depth == 0:
                    break
                q -= 1
            kw = re.search(r"(\w+)\s*$", head[:q])
            if kw and kw.group(1) in ("if", "while", "for", "switch"):
                g = _norm(head[q + 1:-1]) if kw.group(1) == "if" else kw.group(1)
        elif re.search(r"\belse\s*$", head):
            g = "else"
        res.append((st, g))
    return res


def split_and(g):
    """top-level conjuncts of a C condition"""
    out, depth, cur, k = [], 0, "", 0
    while k < len(g):
        c = g[k]
        depth += c == "("
        depth -= c == ")"
        if depth == 0 and g.startswith("&&", k):
            out.append(_norm(cur))
            cur, k = "", k + 2
            continue
        cur += c
        k += 1
    out.append(_norm(cur))
    return out


def extract(repo=None):
    repo = repo or vlib.REPO
    rd = _strip(open(os.path.join(repo, "src/read_event.c")).read())
    early = []
    for fn in READERS:
        body = func_body(rd, fn)
        last = body.rfind("libxmp_process_fx(")
        if last < 0:
            raise RuntimeError("gen_c18_events: %s does not call libxmp_process_fx" % fn)
        for m in re.finditer(r"\breturn\b", body[:last]):
            enc = enclosing(body, m.start())
            if not enc:
                early.append((fn, "", False))
                continue
            st, guard = enc[0]
            covered = "libxmp_process_fx(" in body[st:m.start()]
            early.append((fn, guard, covered))
    pl = _strip(open(os.path.join(repo, "src/player.c")).read())
    body = func_body(pl, "read_row")
    writes = []
    for m in re.finditer(r"\bev\.(?:fxt|fxp|f2t|f2p)\s*=[^=][^;]*;", body):
        conds = [g for _, g in enclosing(body, m.start()) if g and g not in ("for", "while", "switch", "else")]
        conj = []
        for g in reversed(conds):
            conj += split_and(g)
        writes.append((conj, _norm(m.group(0))))
    # control.c, xmp_set_player(XMP_PLAYER_MODE): the block that keeps the old mode when the rescan under the new one fails
    ct = _strip(open(os.path.join(repo, "src/control.c")).read())
    m = re.search(r"if\s*\(\s*libxmp_scan_sequences\s*\(\s*ctx\s*\)\s*<\s*0\s*\)\s*\{", ct)
    if not m:
        raise RuntimeError("gen_c18_events: refused-mode branch of xmp_set_player not found in src/control.c")
    depth, j = 1, m.end()
    while depth:
        depth += ct[j] == "{"
        depth -= ct[j] == "}"
        j += 1
    cleanup = [_norm(x) for x in ct[m.end():j - 1].split(";") if _norm(x)]
    return early, writes, cleanup


def _s(x):
    return '"' + x.replace("\\", "\\\\").replace('"', '\\"') + '"'


def generate(repo=None):
    early, writes, cleanup = extract(repo)
    t = ["/- generated by tools/gen_c18_events.py from the working tree of libxmp -- do not edit -/",
         "namespace Xmp.Gen.C18Events",
         "",
         "/-- event readers of read_event.c: the `return`s before the final `libxmp_process_fx` calls:",
         "(function, guard of the enclosing block, that block has called `libxmp_process_fx`) -/",
         "def earlyReturns : List (String × String × Bool) := [" +
         ", ".join("(%s, %s, %s)" % (_s(f), _s(g), "true" if c else "false") for f, g, c in early) + "]",
         "",
         "/-- `read_row` of player.c: assignments to the effect fields of the event before it is read:",
         "(conjuncts of the enclosing `if` conditions, statement) -/",
         "def readRowFxWrites : List (List String × String) := [" +
         ", ".join("([%s], %s)" % (", ".join(_s(x) for x in g), _s(w)) for g, w in writes) + "]",
         "",
         "/-- control.c, `xmp_set_player(XMP_PLAYER_MODE)`: the statements of the branch taken when the rescan under the new",
         "mode finds nothing playable (\"keep the old mode\"), in order -/",
         "def refusedModeCleanup : List String := [" + ", ".join(_s(x) for x in cleanup) + "]",
         "",
         "end Xmp.Gen.C18Events", ""]
    changed = vlib.write_if_changed(OUT, "\n".join(t))
    return dict(early=early, writes=writes, cleanup=cleanup), changed


if __name__ == "__main__":
    info, ch = generate()
    for e in info["early"]:
        print(e)
    for w in info["writes"]:
        print(w)
    print(info["cleanup"])
