#!/usr/bin/env python3
"""Translator: constants of the final downmix stage -> lean/XmpModel/Gen/MixerConsts.lean

Regenerated from the working tree of libxmp on every run of the C13 check.

* macro values: a probe file `#include "mixer.c"` followed by marker lines is run
  through the C preprocessor only (`gcc -E`, nothing is compiled or linked); the
  fully expanded integer expressions are evaluated here (integers, + - * / << >> ~ & | only).
* shape facts (regular expressions on src/mixer.c, src/control.c): the shift
  expression of both downmix functions evaluated at amp = 0 and amp = 1, the
  offsets passed at the call site, and the range accepted for XMP_PLAYER_AMP.
  If a shape cannot be recognised (harmless rewrite of the function) the fact is emitted as
  `none`; the theorems comparing it with the model are then vacuous for that fact (the number
  of recognised facts is recorded in the evidence) and the differential correspondence alone
  carries the tie.  A recognised fact that disagrees with the model breaks the theorem.
"""
import ast
import os
import re
import subprocess
import sys
import tempfile

sys.path.insert(0, os.path.dirname(os.path.abspath(__file__)))
import vlib  # noqa: E402

MACROS = [
    # (lean name, C expression)
    ("downmixShift", "DOWNMIX_SHIFT"),
    ("lim8Hi", "LIM8_HI"), ("lim8Lo", "LIM8_LO"),
    ("lim16Hi", "LIM16_HI"), ("lim16Lo", "LIM16_LO"),
    ("defaultAmplify", "DEFAULT_AMPLIFY"), ("defaultMix", "DEFAULT_MIX"),
    ("maxFramesize", "XMP_MAX_FRAMESIZE"),
    ("minSrate", "XMP_MIN_SRATE"), ("maxSrate", "XMP_MAX_SRATE"), ("minBpm", "XMP_MIN_BPM"),
    ("fmt8bit", "XMP_FORMAT_8BIT"), ("fmtUnsigned", "XMP_FORMAT_UNSIGNED"), ("fmtMono", "XMP_FORMAT_MONO"),
    ("anticlickShift", "ANTICLICK_SHIFT"),
    ("sizeofInt16", "sizeof(int16)"), ("sizeofInt32", "sizeof(int32)"),
    ("errorState", "XMP_ERROR_STATE"), ("statePlaying", "XMP_STATE_PLAYING"),
]

_ALLOWED = (ast.Expression, ast.BinOp, ast.UnaryOp, ast.Constant, ast.Add, ast.Sub, ast.Mult, ast.FloorDiv,
            ast.LShift, ast.RShift, ast.BitAnd, ast.BitOr, ast.BitXor, ast.Invert, ast.USub, ast.UAdd)


def c_int_eval(expr, env=None):
    """Evaluate a preprocessed C integer constant expression (non-negative division only)."""
    e = expr
    e = re.sub(r"sizeof\s*\(\s*(?:int16|short|signed short|short int)\s*\)", "2", e)
    e = re.sub(r"sizeof\s*\(\s*(?:int32|int|signed int)\s*\)", "4", e)
    e = re.sub(r"\b(0[xX][0-9a-fA-F]+|\d+)[uUlL]*\b", r"\1", e)
    for k, v in (env or {}).items():
        e = re.sub(r"\b%s\b" % re.escape(k), "(%d)" % v, e)
    e = e.replace("/", "//")
    tree = ast.parse(e.strip(), mode="eval")
    for n in ast.walk(tree):
        if not isinstance(n, _ALLOWED):
            raise ValueError("unsupported token in constant expression %r" % expr)
    return int(eval(compile(tree, "<c>", "eval"), {"__builtins__": {}}))


def preprocess_probe(repo):
    src = os.path.join(repo, "src")
    probe = '#include "mixer.c"\n' + "".join("VERIF_CONST %s = %s ;\n" % (n, e) for n, e in MACROS)
    with tempfile.TemporaryDirectory() as td:
        p = os.path.join(td, "probe.c")
        open(p, "w").write(probe)
        cmd = ["gcc", "-E", "-P", "-DLIBXMP_VERIF", "-I" + os.path.join(repo, "include"), "-I" + src, p]
        r = subprocess.run(cmd, stdout=subprocess.PIPE, stderr=subprocess.PIPE)
        if r.returncode != 0:
            raise vlib.InfraError("gen_mixer_consts: preprocessing mixer.c failed:\n" + r.stderr.decode()[-2000:])
        return r.stdout.decode("utf-8", "replace")


def function_body(text, name):
    """Body text of the C function `name` (first definition, brace matched)."""
    m = re.search(r"^[A-Za-z_][^\n;{}()]*\b%s\s*\([^;{}]*\)\s*\{" % re.escape(name), text, re.M | re.S)
    if not m:
        return None
    i = m.end()
    depth = 1
    while i < len(text) and depth:
        if text[i] == "{":
            depth += 1
        elif text[i] == "}":
            depth -= 1
        i += 1
    return text[m.end():i - 1]


def strip_comments(t):
    t = re.sub(r"/\*.*?\*/", " ", t, flags=re.S)
    return re.sub(r"//[^\n]*", " ", t)


def shape_facts(repo, vals, pre):
    """Facts recognised from the shape of the code; value None = not recognised."""
    facts = {}
    # use the *preprocessed* mixer.c so macros are expanded in the function bodies
    for w, fn in ((8, "downmix_int_8bit"), (16, "downmix_int_16bit")):
        body = function_body(pre, fn)
        a0 = a1 = None
        if body:
            m = re.search(r"\bint\s+shift\s*=\s*([^;]+);", body)
            if m:
                try:
                    a0 = c_int_eval(m.group(1), {"amp": 0})
                    a1 = c_int_eval(m.group(1), {"amp": 1})
                except Exception:
                    a0 = a1 = None
        facts["shift%dAmp0" % w] = a0
        facts["shift%dAmp1" % w] = a1
    soft = function_body(pre, "libxmp_mixer_softmixer") or ""
    for w, fn in ((8, "downmix_int_8bit"), (16, "downmix_int_16bit")):
        off = None
        m = re.search(re.escape(fn) + r"\s*\((?:[^;]*?),\s*s->format\s*&\s*\(?([^?]+?)\)?\s*\?\s*([^:;]+?)\s*:\s*([^;)]+?)\s*\)\s*;", soft, re.S)
        if m:
            try:
                if c_int_eval(m.group(1)) == vals["fmtUnsigned"] and c_int_eval(m.group(3)) == 0:
                    off = c_int_eval(m.group(2))
            except Exception:
                off = None
        facts["offs%dUnsigned" % w] = off
    # guard of libxmp_mixer_prepare: `if (s->ticksize < 0 || s->ticksize > (CAP)) s->ticksize = VALUE;`
    prep = function_body(pre, "libxmp_mixer_prepare") or ""
    cap = capval = None
    m = re.search(r"s->ticksize\s*>\s*\(?([^{};]+?)\)?\s*\)\s*\{?\s*s->ticksize\s*=\s*([^;]+);", prep, re.S)
    if m:
        try:
            cap, capval = c_int_eval(m.group(1)), c_int_eval(m.group(2))
        except Exception:
            cap = capval = None
    facts["ticksizeCapGuard"], facts["ticksizeCapAssigned"] = cap, capval
    ctl = strip_comments(open(os.path.join(repo, "src", "control.c")).read())
    lo = hi = None
    m = re.search(r"case\s+XMP_PLAYER_AMP\s*:\s*if\s*\(\s*val\s*>=\s*(-?\w+)\s*&&\s*val\s*<=\s*(-?\w+)\s*\)\s*\{\s*s->amplify\s*=\s*val\s*;", ctl)
    if m:
        try:
            lo, hi = c_int_eval(m.group(1)), c_int_eval(m.group(2))
        except Exception:
            lo = hi = None
    facts["ampMin"], facts["ampMax"] = lo, hi
    # xmp_set_tempo_factor (control.c): the acceptance test of the new factor.  Recognised shape:
    #   val *= N; ticksize = libxmp_mixer_get_ticksize(s->freq, val, m->rrate, p->bpm);
    #   if (ticksize < 0 || ticksize > (CAP)) return -1;   m->time_factor = val;
    # CAP must be a constant expression (macros of xmp.h only): a bound that mentions the output format or any
    # other variable is *not* recognised (fact `none`, the theorem tying the model's bound to the code fails).
    body = function_body(ctl, "xmp_set_tempo_factor") or ""
    tfcap = tfscale = tfargs = None
    m = re.search(r"ticksize\s*<\s*0\s*\|\|\s*ticksize\s*>\s*\(?([^{};]+?)\)?\s*\)\s*\{?\s*return\s*-\s*1\s*;", body, re.S)
    if m:
        try:
            tfcap = c_int_eval(m.group(1), {"XMP_MAX_FRAMESIZE": vals["maxFramesize"]})
        except Exception:
            tfcap = None
    m = re.search(r"\bval\s*\*=\s*(\d+)\s*;", body)
    if m:
        tfscale = int(m.group(1))
    if re.search(r"ticksize\s*=\s*libxmp_mixer_get_ticksize\s*\(\s*s->freq\s*,\s*val\s*,\s*m->rrate\s*,\s*p->bpm\s*\)\s*;", body) and \
            len(re.findall(r"\bticksize\s*[-+*/|&^]?=[^=]", body)) == 1 and "format" not in body:
        tfargs = 1
    facts["tempoFactorCap"], facts["tempoFactorScale"], facts["tempoFactorArgs"] = tfcap, tfscale, tfargs
    # xmp_play_frame (player.c): the sequencing half of the frame - everything before libxmp_mixer_softmixer - must not
    # look at a volume / output setting, and the per-tick channel update must run for every virtual channel:
    #   for (i = 0; i < p->virt.virt_channels; i++) { play_channel(ctx, i); }
    ply = strip_comments(open(os.path.join(repo, "src", "player.c")).read())
    pf = function_body(ply, "xmp_play_frame") or ""
    head = pf.split("libxmp_mixer_softmixer")[0] if "libxmp_mixer_softmixer" in pf else ""
    loop = None
    m = re.search(r"for\s*\(\s*i\s*=\s*0\s*;\s*i\s*<\s*p->virt\.virt_channels\s*;\s*i\+\+\s*\)\s*\{\s*play_channel\s*\(\s*ctx\s*,\s*i\s*\)\s*;\s*\}", head)
    if m and len(re.findall(r"\bplay_channel\s*\(", head)) == 1:
        loop = 1
    facts["tickLoopUnconditional"] = loop
    cfg_fields = ["master_vol", "smix_vol", "channel_mute", "channel_vol", "amplify", "mix", "interp", "format", "freq", "dsp", "numvoc"]
    facts["playFrameConfigReads"] = None if not head else sorted({f for f in cfg_fields if re.search(r"(->|\.)%s\b" % f, head)})
    return facts


def lean_int(v):
    return "%d" % v if v >= 0 else "(%d)" % v


def generate(repo=None):
    repo = repo or vlib.REPO
    pre = preprocess_probe(repo)
    vals = {}
    for name, _ in MACROS:
        m = re.search(r"VERIF_CONST\s+%s\s*=\s*(.*?)\s*;" % name, pre, re.S)
        if not m:
            raise vlib.InfraError("gen_mixer_consts: marker for %s lost" % name)
        try:
            vals[name] = c_int_eval(m.group(1))
        except Exception as e:
            raise vlib.InfraError("gen_mixer_consts: cannot evaluate %s = %r (%s)" % (name, m.group(1), e))
    facts = shape_facts(repo, vals, pre)
    out = ["/-! GENERATED by tools/gen_mixer_consts.py from src/mixer.c, src/mixer.h, src/common.h,",
           "include/xmp.h, src/control.c of the libxmp working tree — do not edit. -/",
           "namespace Xmp.Gen.MixerConsts", ""]
    nat_names = {"downmixShift", "maxFramesize", "minSrate", "maxSrate", "minBpm", "fmt8bit", "fmtUnsigned",
                 "fmtMono", "anticlickShift", "sizeofInt16", "sizeofInt32", "errorState", "statePlaying"}
    for name, cexpr in MACROS:
        v = vals[name]
        if name in nat_names and v >= 0:
            out.append("/-- `%s` -/\ndef %s : Nat := %d" % (cexpr, name, v))
        else:
            out.append("/-- `%s` -/\ndef %s : Int := %s" % (cexpr, name, lean_int(v)))
    # the tick-size cap used by the model: the recognised guard, else the value the tree had when the
    # model was last updated (the `prep` correspondence then carries the tie alone)
    cap_used = facts["ticksizeCapGuard"] if facts["ticksizeCapGuard"] is not None and facts["ticksizeCapGuard"] >= 0 else vals["maxFramesize"] // 4
    vals["ticksizeCap"] = cap_used
    out.append("/-- largest tick size `libxmp_mixer_prepare` lets through (its guard expression, evaluated) -/\ndef ticksizeCap : Nat := %d" % cap_used)
    out.append("")
    doc = {
        "shift8Amp0": "`int shift = …` of downmix_int_8bit evaluated at amp = 0",
        "shift8Amp1": "… at amp = 1", "shift16Amp0": "`int shift = …` of downmix_int_16bit at amp = 0",
        "shift16Amp1": "… at amp = 1",
        "offs8Unsigned": "offset passed to downmix_int_8bit when XMP_FORMAT_UNSIGNED is set (0 otherwise)",
        "offs16Unsigned": "offset passed to downmix_int_16bit when XMP_FORMAT_UNSIGNED is set (0 otherwise)",
        "ticksizeCapGuard": "bound in the guard `s->ticksize > (…)` of libxmp_mixer_prepare",
        "ticksizeCapAssigned": "value assigned to s->ticksize when the guard fires",
        "ampMin": "lowest value xmp_set_player(XMP_PLAYER_AMP) accepts", "ampMax": "highest value it accepts",
        "tempoFactorCap": "bound CAP of `if (ticksize < 0 || ticksize > (CAP)) return -1;` in xmp_set_tempo_factor (constant expression only)",
        "tempoFactorScale": "N of `val *= N;` in xmp_set_tempo_factor",
        "tickLoopUnconditional": "1 when the per-tick channel loop of xmp_play_frame is exactly `for (i = 0; i < p->virt.virt_channels; i++) "
                                 "{ play_channel(ctx, i); }` and play_channel is called nowhere else before the mixer",
        "tempoFactorArgs": "1 when the tick size tested by xmp_set_tempo_factor is exactly `libxmp_mixer_get_ticksize(s->freq, val, m->rrate, p->bpm)`, "
                           "assigned once, and the function does not mention the output format",
    }
    for k in ("shift8Amp0", "shift8Amp1", "shift16Amp0", "shift16Amp1", "offs8Unsigned", "offs16Unsigned", "ampMin", "ampMax",
              "ticksizeCapGuard", "ticksizeCapAssigned", "tempoFactorCap", "tempoFactorScale", "tempoFactorArgs", "tickLoopUnconditional"):
        v = facts[k]
        out.append("/-- %s (recognised from the code shape; `none` = not recognised) -/\ndef %s : Option Int := %s" % (
            doc[k], k, "none" if v is None else "some %s" % lean_int(v)))
    pr = facts["playFrameConfigReads"]
    out.append("/-- volume / output-configuration fields (master_vol, smix_vol, channel_mute, channel_vol, amplify, mix, interp, format, freq, "
               "dsp, numvoc) that the body of xmp_play_frame mentions before it calls libxmp_mixer_softmixer (`none` = function not recognised) -/")
    out.append("def playFrameConfigReads : Option (List String) := %s" % (
        "none" if pr is None else "some [%s]" % ", ".join('"%s"' % f for f in pr)))
    out += ["", "end Xmp.Gen.MixerConsts", ""]
    path = os.path.join(vlib.LEAN, "XmpModel", "Gen", "MixerConsts.lean")
    changed = vlib.write_if_changed(path, "\n".join(out))
    return dict(values=vals, facts=facts, changed=changed, path=path)


if __name__ == "__main__":
    r = generate()
    print(r["values"])
    print(r["facts"])
    print("changed" if r["changed"] else "unchanged", r["path"])
