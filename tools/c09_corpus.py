#!/usr/bin/env python3
"""C09 regression corpus: corpus/C09/*.json, run FIRST by tools/checks/c09.py.

One case per file:
  {"id", "fmt", "name", "variant", "why",
   "archive_hex" | "repo_file",        # the intact archive (tiny payload) or a file of /repo
   "payload_md5",                       # MD5 of the packed module (absent for repo_file cases)
   "fault": ["flip", off, bit] | ["sub", off, val] | ["trunc", len] | ["none"],
   "expect": "reject" | "same"}        # faulted archive must fail to load | must load to payload_md5

Cases are minimal by construction: the smallest loadable payload (one-pattern M.K. module), one
archive, one single fault; every case is one that a past defect or a hand-made mutation of libxmp let
through (see "why").  `add` records a new one from the replay file of a violation found by the check.

  python3 tools/c09_corpus.py seed          regenerate the seed cases (deterministic)
  python3 tools/c09_corpus.py add <replay.json> <id> <why...>
"""
import glob
import json
import os
import random
import struct
import sys
import zipfile

sys.path.insert(0, os.path.dirname(os.path.abspath(__file__)))
import vlib
import c09_archives as A

DIR = os.path.join(vlib.VERIF, "corpus", "C09")


def load_cases():
    out = []
    for f in sorted(glob.glob(os.path.join(DIR, "*.json"))):
        c = json.load(open(f))
        c["file"] = os.path.basename(f)
        if "repo_file" in c:
            try:
                c["data"] = open(os.path.join(vlib.REPO, c["repo_file"]), "rb").read()
            except OSError:
                continue
        else:
            c["data"] = bytes.fromhex(c["archive_hex"])
        c["fault"] = tuple(c["fault"])
        out.append(c)
    return out


def _write(cid, a, fault, expect, why, payload):
    os.makedirs(DIR, exist_ok=True)
    obj = {"id": cid, "fmt": a["fmt"], "name": a["name"], "variant": a["variant"], "why": why,
           "archive_hex": a["data"].hex(), "payload_md5": A.md5hex(payload), "fault": list(fault), "expect": expect}
    with open(os.path.join(DIR, cid + ".json"), "w") as f:
        json.dump(obj, f, indent=1)
        f.write("\n")


def seed():
    rng = random.Random(909)
    p = A.synth_mod(rng, tiny=True)
    # --- bzip2: the stream CRC (defect repaired by /repo b6ac87c) and a block header CRC
    a = A.make_bz2(rng, p, level=1)
    lay = A.bz_layout(a["data"], p)
    sb = lay["eos_bit"] + 48
    for k in (0, 13, 31):
        _write("bzip2-stream-crc-bit%02d" % k, a, ("flip", (sb + k) // 8, 7 - (sb + k) % 8), "reject",
               "bunzip2 never compared the stored stream CRC: any flip of its 32 bits was accepted (fixed by b6ac87c)", p)
    hb = lay["block_bits"][0] + 48
    _write("bzip2-block-crc-bit05", a, ("flip", (hb + 5) // 8, 7 - (hb + 5) % 8), "reject",
           "mutation C09-m1: block CRC mismatch no longer aborted the decode", p)
    # --- ARC: stored member (mutation C09-m2: CRC-16 only verified for members that went through an unpacker)
    a = A.make_arc(rng, p, 2)
    _write("arc-stored-data-flip", a, ("flip", 29 + 1084 + 7, 3), "reject",
           "mutation C09-m2: stored ARC members were accepted corrupted (CRC-16 skipped when no unpacker ran)", p)
    _write("arc-stored-crc16-flip", a, ("flip", 23, 0), "reject", "ARC CRC-16 field, one bit", p)
    a = A.make_arc(rng, p, 3)
    _write("arc-rle-data-sub", a, ("sub", len(a["data"]) - 40, 0x55), "reject", "ARC packed (RLE90) member, one byte substituted", p)
    # --- ArcFS
    a = A.make_arcfs(rng, p, 2)
    if a is not None:
        _write("arcfs-crc16-flip", a, ("flip", 96 + 26, 4), "reject", "ArcFS CRC-16 field, one bit", p)
        _write("arcfs-data-flip", a, ("flip", len(a["data"]) - 100, 1), "reject", "ArcFS stored member data, one bit", p)
    # --- gzip
    a = A.make_gzip(rng, p, level=6)
    n = len(a["data"])
    _write("gzip-crc32-flip", a, ("flip", n - 8, 0), "reject", "gzip trailer CRC-32, one bit", p)
    _write("gzip-isize-flip", a, ("flip", n - 2, 7), "reject", "gzip trailer ISIZE, high bit (sign extension of the int compare)", p)
    a0 = A.make_gzip(rng, p, level=0)
    _write("gzip-stored-data-flip", a0, ("flip", a0["start"] + 5 + 1084 + 3, 6), "reject",
           "gzip with stored deflate blocks: only the CRC-32 can notice a flipped data bit", p)
    # --- zip
    a = A.make_zip(rng, p, zipfile.ZIP_STORED)
    c = a["zip"]["cdh"]
    _write("zip-cdh-crc32-flip", a, ("flip", c + 16, 2), "reject", "zip central-directory CRC-32, one bit", p)
    _write("zip-stored-data-flip", a, ("flip", a["zip"]["data"] + 1084 + 9, 5), "reject",
           "zip stored member data, one bit (CRC-32 verified after extraction)", p)
    a = A.make_zip(rng, p, zipfile.ZIP_DEFLATED, streamed=True)
    c = a["zip"]["cdh"]
    assert struct.unpack("<I", a["data"][c + 20:c + 24])[0] < 256
    _write("zip-cdh-compsize-zero", a, ("sub", c + 20, 0), "reject",
           "compressed size (< 256) damaged to 0 by one byte: miniz's extract returns the untouched malloc buffer before its "
           "CRC compare when comp_size = 0; closed by mz_zip_reader_init's `decomp_size && !comp_size` test", p)
    _write("zip-dd-cdh-usize-flip", a, ("flip", c + 24, 0), "reject",
           "zip with data descriptors: central-directory uncompressed size, one bit", p)
    dd = a["fields"]["datadesc"][0]
    _write("zip-dd-descriptor-crc-flip", a, ("flip", dd + 4, 0), "same",
           "CRC-32 inside the data descriptor: never read by miniz (central directory is the authority); payload unchanged", p)
    # --- xz, multi-block container
    a = A.make_xz_multi(rng, p, nblocks=2)
    F = a["fields"]
    _write("xz-block2-check-flip", a, ("flip", F["check1"][0] + 3, 7), "reject", "Check (CRC-32) of the second Block, one bit", p)
    _write("xz-block1-header-flip", a, ("flip", F["blockhdr0"][0] + 1, 6), "reject", "Block Flags of the first Block Header", p)
    _write("xz-index-record-flip", a, ("flip", F["index"][0] + 2, 0), "reject", "Index: Unpadded Size of record 1", p)
    _write("xz-index-crc-flip", a, ("flip", F["index"][0] + F["index"][1] - 1, 0), "reject", "Index CRC-32", p)
    _write("xz-footer-flags-flip", a, ("flip", F["footer"][0] + 9, 2), "reject", "Stream Footer flags differ from the header's", p)
    _write("xz-footer-backward-flip", a, ("flip", F["footer"][0] + 4, 0), "reject", "Backward Size", p)
    _write("xz-streamflags-flip", a, ("flip", 7, 0), "reject", "Stream Flags: check type CRC-32 -> none (header CRC-32 refuses)", p)
    pad = [k for k in F if k.startswith("blockpad")]
    if pad:
        _write("xz-blockpad-flip", a, ("flip", F[pad[0]][0], 0), "reject", "Block Padding must be zero", p)
    _write("xz-truncated-footer", a, ("trunc", len(a["data"]) - 1), "reject", "last byte of the Stream Footer missing", p)
    # --- LZX
    a = A.make_lzx_stored(rng, p)
    _write("lzx-data-flip", a, ("flip", len(a["data"]) - 10, 0), "reject", "LZX stored entry data, one bit (data CRC-32)", p)
    _write("lzx-header-crc-flip", a, ("flip", 10 + 26, 0), "reject", "LZX entry header CRC-32, one bit", p)
    # --- boundary check values: a member whose CRC-16 is exactly 0x0000 (seeded defect m5: ArcFS's "stored 0 = not
    #     recorded" rule leaked into the ARC/Spark comparison)
    p0 = A.force_tail(A.crc16_arc, p, 2, 0)
    a = A.make_arc(rng, p0, 2)
    _write("arc-crc0000-stored-data-flip", a, ("flip", 29 + 1084 + 11, 2), "reject",
           "seeded m5: ARC stored member whose CRC-16 is 0x0000 -- a shared helper ignored stored CRC 0 (ArcFS rule) for ARC", p0)
    a = A.make_arc(rng, p0, 3)
    _write("arc-crc0000-packed-data-flip", a, ("flip", len(a["data"]) - 60, 5), "reject",
           "seeded m5: ARC packed (RLE90) member whose CRC-16 is 0x0000", p0)
    p32 = A.force_tail(A.crc32_bitwise, p, 4, 0)
    a = A.make_zip(rng, p32, zipfile.ZIP_STORED)
    _write("zip-crc00000000-data-flip", a, ("flip", a["zip"]["data"] + 1084 + 5, 1), "reject",
           "zip stored member whose CRC-32 is 0x00000000", p32)
    a = A.make_gzip(rng, A.force_tail(A.crc32_bitwise, p, 4, 0xFFFFFFFF), level=0)
    _write("gzip-crcffffffff-data-flip", a, ("flip", a["start"] + 5 + 1084 + 2, 4), "reject",
           "gzip (stored blocks) whose CRC-32 is 0xFFFFFFFF", A.force_tail(A.crc32_bitwise, p, 4, 0xFFFFFFFF))
    pb = A.force_tail(A.crc32_bz, p, 4, 0)
    a = A.make_bz2(rng, pb, level=1)
    lay = A.bz_layout(a["data"], pb)
    _write("bzip2-crc00000000-streamcrc-flip", a, ("flip", (lay["eos_bit"] + 48 + 9) // 8, 7 - (lay["eos_bit"] + 48 + 9) % 8), "reject",
           "bzip2 whose block and stream CRC are 0x00000000: one bit of the stream CRC", pb)
    # --- several loadable members (seeded defect m6: decrunch_zip continued with the next member after a failed extraction)
    ps = [p, A.synth_mod(rng, tiny=True), A.synth_mod(rng, tiny=True)]
    a = A.make_zip_multi(rng, ps)
    _write("zip-multi-first-member-data-flip", a, ("flip", a["zip"]["data"] + 40, 3), "reject",
           "seeded m6: corruption inside the first loadable zip member was swallowed and the second member's payload returned", p)
    _write("zip-multi-first-member-crc-flip", a, ("flip", a["zip"]["cdh"] + 17, 6), "reject",
           "seeded m6: central-directory CRC-32 of the first loadable member", p)
    a = A.make_arc_multi(rng, ps)
    o = a["fields"]["blockdata1_head"][0]
    _write("arc-multi-first-member-data-flip", a, ("flip", o + 30, 0), "reject",
           "ARC with several loadable members: data of the first one", p)
    a = A.make_lzx_multi(rng, ps[:2])
    o = a["fields"]["blockdata1_head"][0]
    _write("lzx-multi-first-member-data-flip", a, ("flip", o + 30, 0), "reject",
           "LZX with two loadable entries: data of the first one (data CRC-32 mismatch must not fall through)", p)
    # --- members inside directories (seeded defect m14: arc_read skipped the CRC-16 for members at level > 0)
    for spark, depth, cid in ((False, 1, "arc6-dir-member-data-flip"), (True, 1, "spark-dir-member-data-flip"),
                              (False, 2, "arc6-dir2-member-data-flip"), (True, 2, "spark-dir2-member-crc-flip")):
        a = A.make_arc_nested(rng, p, spark, depth, method=2)
        o = a["fields"]["blockdataN_head"][0]
        flt = ("flip", a["crc_at"], 3) if cid.endswith("crc-flip") else ("flip", o + 1084 + 13, 4)
        _write(cid, a, flt, "reject",
               "seeded m14: members of %s directories (depth %d) were not CRC-16 checked (`level ? e.crc16 : arc_crc16(...)`)" % (
                   "Spark" if spark else "ARC 6", depth), p)
    a = A.make_arcfs_nested(rng, p, 1, method=2)
    if a is not None:
        _write("arcfs-dir-member-data-flip", a, ("flip", a["fields"]["blockdataN_head"][0] + 1084 + 3, 1), "reject",
               "ArcFS member listed after a directory entry: data, one bit", p)
    # --- the corrupted file of libxmp's own test suite
    os.makedirs(DIR, exist_ok=True)
    with open(os.path.join(DIR, "repo-corrupted-gz.json"), "w") as f:
        json.dump({"id": "repo-corrupted-gz", "fmt": "gzip", "name": "corrupted.gz", "variant": "repo:corrupted.gz",
                   "why": "test-dev/data/corrupted.gz (test_api_load_module.c expects a load error)",
                   "repo_file": "test-dev/data/corrupted.gz", "fault": ["none"], "expect": "reject"}, f, indent=1)
        f.write("\n")


def add_from_replay(path, cid, why):
    rp = json.load(open(path))
    r = rp.get("replay", rp)
    a = {"fmt": r["fmt"], "name": r["name"], "variant": r.get("variant", "?"), "data": bytes.fromhex(r["archive_hex"])}
    os.makedirs(DIR, exist_ok=True)
    obj = {"id": cid, "fmt": a["fmt"], "name": a["name"], "variant": a["variant"], "why": why,
           "archive_hex": r["archive_hex"], "payload_md5": r["orig_md5"], "fault": list(r["fault"]), "expect": "reject"}
    with open(os.path.join(DIR, cid + ".json"), "w") as f:
        json.dump(obj, f, indent=1)
        f.write("\n")
    print("wrote", os.path.join(DIR, cid + ".json"))


if __name__ == "__main__":
    if len(sys.argv) >= 2 and sys.argv[1] == "seed":
        seed()
        print("%d cases in %s" % (len(load_cases()), DIR))
    elif len(sys.argv) >= 5 and sys.argv[1] == "add":
        add_from_replay(sys.argv[2], sys.argv[3], " ".join(sys.argv[4:]))
    else:
        print(__doc__)
        sys.exit(2)
