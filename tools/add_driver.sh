#!/bin/sh
# tools/add_driver.sh drv_c20 Drv.C20   -- appends a lean_exe entry to lean/lakefile.toml (idempotent, locked)
set -e
F="$(dirname "$0")/../lean/lakefile.toml"
mkdir -p "/var/tmp/xmpverif-locks"
(
 flock 9
 if ! grep -q "name = \"$1\"" "$F"; then
  printf '\n[[lean_exe]]\nname = "%s"\nroot = "%s"\n' "$1" "$2" >> "$F"
 fi
) 9>"/var/tmp/xmpverif-locks/lock-lakefile"
