#!/usr/bin/env python3
"""Translator for property C15: lists every store that player-side C code makes
into the loaded module's tables, and extracts the guard/patch constants.

Writes lean/XmpModel/Gen/DataWriters.lean (namespace Xmp.Gen.DataWriters).

Method
------
All of src/*.c (plus any loader/depacker file the call graph leads into) is parsed with clang-14
(JSON AST); the call graph (direct calls, address-taken functions, file-scope tables of function
pointers, inline functions of libxmp headers) is closed from the post-load API entry points of
include/xmp.h (everything but creation, loading, testing and tear-down), and the functions reachable
from them are walked.  Inside every function defined in that file each *store* is
collected:
  * `=` / compound assignment / `++` / `--`      -> the stored-to lvalue
  * memcpy/memmove/memset/strcpy/strncpy/snprintf/sprintf/fread/hio_read -> `*arg0`
The lvalue is then classified by walking its base chain (MemberExpr -> base,
subscript/deref/pointer arithmetic -> pointer operand, casts stripped) down to
the root variable.  Local pointer variables are replaced by the provenance of
everything assigned to them in the same function (fixpoint), pointer parameters
by their pointee type.  The innermost module-table record type on the chain
gives the class (`Target`); a chain through `struct smix_data` sets `smix`
(the external-sample mixer's own tables, not the loaded module).  Stores that
reach no module-table type (player state, voices, mix buffers, locals) are not
listed.

The Lean file contains classes only (file, function, target, smix, field) — no
line numbers or counts — so moving or reformatting code does not change it,
while a new store into module data in any scanned function adds an entry and
breaks `C15_writers` unless it belongs to an allowed class.

Trusted / limits: clang's AST, this walk.  Not tracked: stores made by callees
outside the scanned files through pointers handed to them (other than the
listed mem*/str* functions), pointers laundered through integers or through
non-local storage (a pointer to sample data saved in a struct field other than
`sptr`/`data`), inline assembly.
"""
import concurrent.futures
import glob
import json
import os
import re
import subprocess
import sys

VERIF = os.path.dirname(os.path.dirname(os.path.abspath(__file__)))
OUT = os.environ.get("C15_WRITERS_OUT", os.path.join(VERIF, "lean", "XmpModel", "Gen", "DataWriters.lean"))

PLAYER_FILES = ["player", "mixer", "mix_all", "mix_paula", "virtual", "effects", "read_event", "control", "scan",
                "smix", "flow", "filter", "lfo", "period", "extras"]

# record type -> Target
RECORD_TARGET = {
    "xmp_event": "event", "xmp_track": "track", "xmp_pattern": "pattern", "xmp_instrument": "instrument",
    "xmp_subinstrument": "subinstrument", "xmp_envelope": "envelope", "xmp_sample": "sampleHdr",
    "xmp_module": "moduleHdr", "extra_sample_data": "sampleExtra", "xmp_channel": "channelTbl",
}
# (record, pointer field) whose pointee is sample PCM
DATA_FIELDS = {("xmp_sample", "data"), ("mixer_voice", "sptr"), ("loop_data", "sptr")}
TARGETS = ["sampleBytes", "sampleHdr", "sampleExtra", "instrument", "subinstrument", "envelope", "pattern", "track",
           "event", "orderList", "channelTbl", "moduleHdr"]
STORE_CALLS = {"memcpy", "memmove", "memset", "strcpy", "strncpy", "strlcpy", "snprintf", "sprintf", "fread",
               "hio_read", "__builtin_memcpy", "__builtin_memset", "__builtin_memmove"}
ASSIGN_OPS = {"=", "+=", "-=", "*=", "/=", "%=", "&=", "|=", "^=", "<<=", ">>="}


class GenError(Exception):
    pass


def repo_root(repo=None):
    return repo or os.environ.get("XMP_REPO", "/repo")


def player_files(repo):
    names = set(PLAYER_FILES)
    for p in glob.glob(os.path.join(repo, "src", "*_extras.c")):
        names.add(os.path.basename(p)[:-2])
    return sorted(n + ".c" for n in names if os.path.exists(os.path.join(repo, "src", n + ".c")))


_AST_CACHE = {}


def clang_ast(repo, fname):
    key = (repo, fname)
    if key not in _AST_CACHE:
        _AST_CACHE[key] = _clang_ast(repo, fname)
    return _AST_CACHE[key]


def _clang_ast(repo, fname):
    src = os.path.join(repo, "src", fname)
    cmd = ["clang-14", "-fsyntax-only", "-Xclang", "-ast-dump=json", "-I" + os.path.join(repo, "include"),
           "-I" + os.path.join(repo, "src"), "-DLIBXMP_STATIC", "-DHAVE_POWF=1", "-DHAVE_FNMATCH=1", "-DHAVE_DIRENT=1",
           "-DHAVE_MKSTEMP=1", "-DHAVE_UMASK=1", "-std=gnu90", "-w", src]
    p = subprocess.run(cmd, stdout=subprocess.PIPE, stderr=subprocess.PIPE)
    if p.returncode != 0 or not p.stdout:
        raise GenError("clang-14 failed on %s: %s" % (fname, p.stderr.decode()[-800:]))
    try:
        return json.loads(p.stdout)
    except ValueError as e:
        raise GenError("cannot parse clang AST of %s: %s" % (fname, e))


# ---- helpers on AST nodes --------------------------------------------------

def strip(n):
    while n is not None and n.get("kind") in ("ParenExpr", "ImplicitCastExpr", "CStyleCastExpr", "ConstantExpr"):
        inner = n.get("inner") or []
        if not inner:
            break
        n = inner[-1]
    return n


def qual(n):
    t = n.get("type") or {}
    return t.get("desugaredQualType") or t.get("qualType") or ""


def record_of(typestr):
    """'struct xmp_sample *' -> ('xmp_sample', ptrdepth)"""
    s = re.sub(r"\b(const|volatile|restrict|__restrict)\b", "", typestr)
    depth = s.count("*") + s.count("[")
    s = re.sub(r"[\*\[\]0-9 ]+$", "", s.strip())
    s = re.sub(r"\[.*", "", s).replace("*", "").strip()
    m = re.match(r"(?:struct|union)\s+(\w+)$", s)
    return (m.group(1) if m else None), depth


def is_pointerish(typestr):
    return "*" in typestr or "[" in typestr


class Prov:
    """provenance of a pointer/lvalue: list of chain items, innermost first.
    item = ('rec', record, field) | ('data', record, field) | ('call', name) | ('root', name, type)"""
    __slots__ = ("items",)

    def __init__(self, items=()):
        self.items = tuple(items)

    def key(self):
        return self.items


NON_CONTAINERS_OK = {"module_data", "context_data", "smix_data", "xmp_module"} | set(RECORD_TARGET)


def walk_chain(n, env, nd=0):
    """Path from the stored-to location outwards, as alternatives of item lists.
    `nd` = how many times the *value* of expression n is dereferenced to reach the location
    (0: the location is the object n designates itself).
    items: ('rec', record, field)   a field of a record object
           ('data', record, field)  the PCM a sample-data pointer field points to
           ('deref',)               a pointer value loaded from the next item is followed
           ('call', name) ('root', name, type) ('localobj', name, type)   chain ends"""
    if isinstance(n, dict) and n.get("kind") == "__loaded":
        # the value held in the location designated by the inner lvalue
        return walk_chain(n["inner"][0], env, nd)
    n = strip(n)
    if n is None:
        return [[]]
    k = n.get("kind")
    inner = n.get("inner") or []
    if k == "MemberExpr":
        base = inner[0]
        rec, _ = record_of(qual(strip(base)))
        fld = n.get("name", "")
        isdata = nd >= 1 and (rec, fld) in DATA_FIELDS
        item = ("data" if isdata else "rec", rec or "?", fld)
        alts = walk_chain(base, env, 1 if n.get("isArrow") else 0)
        return [[("deref",)] * nd + [item] + a for a in alts]
    if k == "ArraySubscriptExpr":
        a, b = inner[0], inner[1]
        ptr = a if is_pointerish(qual(strip(a))) else b
        t = qual(strip(ptr))
        if t.rstrip().endswith("]"):
            # element of a true array object (track->event[row], a local array): same storage as the array
            return walk_chain(ptr, env, nd)
        return walk_chain(ptr, env, nd + 1)
    if k == "UnaryOperator":
        op = n.get("opcode")
        if op == "*":
            return walk_chain(inner[0], env, nd + 1)
        if op == "&":
            return walk_chain(inner[0], env, nd - 1) if nd >= 1 else [[]]
        if op in ("++", "--"):
            return walk_chain(inner[0], env, nd)
        return [[]]
    if k == "BinaryOperator" or k == "CompoundAssignOperator":
        op = n.get("opcode")
        if op in ("+", "-"):
            out = []
            for side in inner:
                if is_pointerish(qual(strip(side))):
                    out += walk_chain(side, env, nd)
            return out or [[]]
        if op == ",":
            return walk_chain(inner[-1], env, nd)
        if op in ASSIGN_OPS:
            return walk_chain(inner[0], env, nd)
        return [[]]
    if k == "ConditionalOperator":
        return walk_chain(inner[1], env, nd) + walk_chain(inner[2], env, nd)
    if k == "CallExpr":
        callee = strip(inner[0])
        name = (callee.get("referencedDecl") or {}).get("name", "?") if callee else "?"
        rec, depth = record_of(qual(n))
        if rec and depth and nd == depth:
            return [[("rec", rec, "")] + [("deref",)] * nd + [("call", name, "")]]
        return [[("deref",)] * nd + [("call", name, "")]]
    if k == "DeclRefExpr":
        d = n.get("referencedDecl") or {}
        name = d.get("name", "?")
        t = (d.get("type") or {}).get("desugaredQualType") or (d.get("type") or {}).get("qualType") or ""
        isvar = d.get("kind") in ("VarDecl", "ParmVarDecl")
        if nd == 0:
            return [[("localobj" if isvar else "root", name, t)]]
        if isvar and name in env and env[name]:
            return [[("deref",)] * (nd - 1) + list(a) for a in env[name]]
        rec, depth = record_of(t)
        if rec and depth and nd == depth:
            return [[("rec", rec, "")] + [("deref",)] * nd + [("root", name, t)]]
        return [[("deref",)] * nd + [("root", name, t)]]
    return [[]]


def classify(items):
    """items (location outwards) -> (target, smix, field) or None"""
    items = list(items)
    if items and items[-1][0] == "localobj":
        # everything after the last dereference lives inside the local object itself
        last = max([i for i, it in enumerate(items) if it[0] == "deref"], default=-1)
        items = items[:last + 1]
    smix = any(it[0] in ("rec", "data") and it[1] == "smix_data" for it in items)
    first_field = next((it[2] for it in items if it[0] == "rec"), "") if items and items[0][0] == "rec" else ""

    def embedded_in_foreign(idx):
        # the record object found at idx is embedded (no pointer hop) in a non-module container
        for it in items[idx + 1:]:
            if it[0] == "deref":
                return False
            if it[0] in ("rec", "data") and it[1] not in NON_CONTAINERS_OK:
                return True
        return False

    for idx, it in enumerate(items):
        if it[0] == "deref":
            continue
        if it[0] == "data":
            return ("sampleBytes", smix, "", "%s.%s" % (it[1], it[2]))
        if it[0] != "rec":
            continue
        rec, fld = it[1], it[2]
        if rec == "xmp_module":
            if embedded_in_foreign(idx):
                return None
            before = [x for x in items[:idx] if x[0] != "deref"]
            hops = [x for x in items[:idx] if x[0] == "deref"]
            if not before and not hops:
                return ("moduleHdr", smix, fld, "")
            tbl = {"xxo": "orderList", "xxp": "pattern", "xxt": "track", "xxi": "instrument", "xxs": "sampleHdr",
                   "xxc": "channelTbl"}.get(fld)
            return (tbl or "moduleHdr", smix, first_field if tbl else fld, "")
        if rec in RECORD_TARGET:
            if embedded_in_foreign(idx):
                return None
            return (RECORD_TARGET[rec], smix, first_field if idx == 0 else (first_field or fld), "")
        if rec == "module_data" and fld == "xtra" and any(x[0] == "deref" for x in items[:idx]):
            return ("sampleExtra", smix, first_field, "")
    return None


def local_struct_root(items):
    """store into a local (non-pointer) struct variable: not module memory"""
    if not items:
        return False
    root = items[-1]
    if root[0] != "root":
        return False
    # the chain reached the root without ever dereferencing: all items are '.'-accesses; we cannot see
    # that here, so the walk only reports rec items for dereferenced bases (see walk_chain)
    return False


def collect_function(fn, fname):
    """yield (line, target, smix, field) for every classified store in FunctionDecl fn"""
    env = {}
    body = [c for c in fn.get("inner", []) if c.get("kind") == "CompoundStmt"]
    if not body:
        return []
    # parameters: pointer to module record -> provenance is that record
    for c in fn.get("inner", []):
        if c.get("kind") == "ParmVarDecl":
            t = (c.get("type") or {}).get("desugaredQualType") or (c.get("type") or {}).get("qualType") or ""
            rec, depth = record_of(t)
            if rec and depth:
                pass   # typed by the DeclRefExpr fallback in walk_chain
    stores, assigns, published, line = [], [], [], [0]
    calls = fn.setdefault("_calls", set())

    def visit(n):
        if not isinstance(n, dict):
            return
        loc = n.get("range", {}).get("begin", {})
        ln = loc.get("line") or (loc.get("expansionLoc") or {}).get("line")
        if ln:
            line[0] = ln
        k = n.get("kind")
        inner = n.get("inner") or []
        here = line[0]
        if k == "VarDecl" and is_pointerish(qual(n)) and inner:
            init = inner[-1]
            if init.get("kind") not in ("FullComment",):
                assigns.append((n.get("name", "?"), init))
        if k in ("BinaryOperator", "CompoundAssignOperator") and n.get("opcode") in ASSIGN_OPS:
            lhs = strip(inner[0])
            stores.append((here, inner[0]))
            if lhs is not None and lhs.get("kind") == "DeclRefExpr" and is_pointerish(qual(lhs)) and n.get("opcode") == "=":
                assigns.append(((lhs.get("referencedDecl") or {}).get("name", "?"), inner[1]))
            # publication: `table->slot = p` where p is a local pointer to a fresh allocation made in
            # this function -- from then on p designates what the slot points to, so stores through p
            # (also the earlier ones, flow-insensitively) are stores into that table's storage
            rhs = strip(inner[1])
            while rhs is not None and rhs.get("kind") == "BinaryOperator" and rhs.get("opcode") in ("+", "-"):
                rhs = strip((rhs.get("inner") or [None])[0])
            if (n.get("opcode") == "=" and rhs is not None and rhs.get("kind") == "DeclRefExpr"
                    and is_pointerish(qual(rhs)) and (lhs is None or lhs.get("kind") != "DeclRefExpr")):
                published.append(((rhs.get("referencedDecl") or {}).get("name", "?"), inner[0]))
        if k == "UnaryOperator" and n.get("opcode") in ("++", "--"):
            stores.append((here, inner[0]))
        if k == "VarDecl" and n.get("storageClass") == "static":
            t = qual(n)
            # writable function-local static: state shared by every context and thread that runs this function
            if not re.match(r"^\s*(static\s+)?const\b", t) and " const" not in t.split("[")[0].split("*")[-1] + " ":
                fn.setdefault("_statics", set()).add(n.get("name", "?"))
        if k == "DeclRefExpr":
            rd = n.get("referencedDecl") or {}
            if rd.get("kind") == "FunctionDecl" and rd.get("name"):
                calls.add(rd["name"])          # called or address taken
            elif rd.get("kind") == "VarDecl" and rd.get("name"):
                fn.setdefault("_varrefs", set()).add(rd["name"])
        if k == "CallExpr" and inner:
            callee = strip(inner[0])
            name = (callee.get("referencedDecl") or {}).get("name") if callee else None
            if name in STORE_CALLS and len(inner) > 1:
                stores.append((here, {"kind": "UnaryOperator", "opcode": "*", "inner": [inner[1]]}))
        for c in inner:
            visit(c)

    visit(body[0])
    fresh = set()
    for name, init in assigns:
        i = strip(init)
        if i is not None and i.get("kind") == "CallExpr":
            callee = strip((i.get("inner") or [None])[0])
            if callee and (callee.get("referencedDecl") or {}).get("name") in ("malloc", "calloc", "realloc"):
                fresh.add(name)
    for name, lhs in published:
        if name in fresh:
            assigns.append((name, {"kind": "__loaded", "inner": [lhs]}))
    # fixpoint for local pointer provenance
    for _ in range(6):
        changed = False
        for name, init in assigns:
            alts = walk_chain(init, env, 1)
            alts = [a for a in alts if any(it[0] in ("rec", "data") for it in a)]
            cur = env.setdefault(name, [])
            for a in alts:
                if a not in cur:
                    cur.append(a)
                    changed = True
        if not changed:
            break
    out = []
    for ln, lv in stores:
        for items in walk_chain(lv, env, 0):
            c = classify(items)
            if c:
                out.append((ln,) + c)
    return out


def _func_refs(n, out):
    """names of functions referenced anywhere below n"""
    if isinstance(n, dict):
        if n.get("kind") == "DeclRefExpr" and (n.get("referencedDecl") or {}).get("kind") == "FunctionDecl":
            out.add(n["referencedDecl"].get("name"))
        for c in n.get("inner") or []:
            _func_refs(c, out)
    return out


def scan_file(args):
    """One translation unit -> (function records, file-scope variables holding function pointers).
    A function record: name, file (the .c file, or the libxmp header an inline function comes from), static?,
    classified stores, names of functions called / address-taken, names of variables referenced."""
    repo, rel, headers = args
    ast = _clang_ast(repo, rel)
    fname = os.path.basename(rel)
    funcs, tables, fields = [], {}, {}

    def record_fields(rd, prefix):
        """field path -> C type of every scalar field of a record (anonymous member structs are descended)"""
        anon = None
        for c in rd.get("inner") or []:
            if c.get("kind") == "RecordDecl":
                anon = c
            elif c.get("kind") == "FieldDecl":
                t = (c.get("type") or {}).get("desugaredQualType") or (c.get("type") or {}).get("qualType") or ""
                if ("unnamed" in t or "anonymous" in t) and anon is not None:
                    record_fields(anon, prefix + c.get("name", "?") + ".")
                else:
                    fields[prefix + c.get("name", "?")] = t
                anon = None

    for d in ast.get("inner", []):
        if d.get("kind") == "RecordDecl" and d.get("name") in WANTED_RECORDS and d.get("completeDefinition"):
            record_fields(d, d["name"] + ".")
        loc = d.get("loc", {})
        eloc = loc.get("expansionLoc") or loc
        from_header = "includedFrom" in eloc
        if d.get("kind") == "VarDecl" and not from_header:
            refs = _func_refs(d, set())
            if refs:
                tables[d.get("name", "?")] = sorted(refs)
            continue
        if d.get("kind") != "FunctionDecl" or not any(c.get("kind") == "CompoundStmt" for c in d.get("inner", [])):
            continue
        name = d.get("name", "?")
        where = fname
        if from_header:
            where = headers.get(name)      # inline function of a libxmp header; system headers: skipped
            if where is None:
                continue
        entries = [{"file": where, "func": name, "target": t, "smix": sm, "field": fl, "via": via, "line": ln}
                   for (ln, t, sm, fl, via) in collect_function(d, where)]
        funcs.append({"name": name, "file": where, "static": d.get("storageClass") == "static", "entries": entries,
                      "calls": sorted(d.get("_calls", set())), "varrefs": sorted(d.get("_varrefs", set())),
                      "statics": sorted(d.get("_statics", set()))})
    return funcs, tables, fname, fields


# records whose integer field widths matter to the writers (indices into sample data, invert-loop state)
WANTED_RECORDS = {"channel_data", "xmp_sample", "extra_sample_data", "mixer_voice", "loop_data"}
C_INT_TYPES = {"int": (32, True), "unsigned int": (32, False), "short": (16, True), "unsigned short": (16, False),
               "signed char": (8, True), "char": (8, True), "unsigned char": (8, False), "long": (64, True),
               "unsigned long": (64, False), "long long": (64, True), "unsigned long long": (64, False)}
# (field path, role): the invert-loop state, the loop bounds it is compared with / added to, the indices of the patch
INDEX_FIELDS = [("channel_data.invloop.speed", "invSpeed"), ("channel_data.invloop.count", "invCount"),
                ("channel_data.invloop.pos", "invPos"),
                ("xmp_sample.len", "loopBound"), ("xmp_sample.lps", "loopBound"), ("xmp_sample.lpe", "loopBound"),
                ("extra_sample_data.sus", "loopBound"), ("extra_sample_data.sue", "loopBound"),
                ("mixer_voice.start", "patchIndex"), ("mixer_voice.end", "patchIndex"),
                ("loop_data.start", "patchIndex"), ("loop_data.end", "patchIndex"),
                ("loop_data.prologue_num", "patchIndex"), ("loop_data.epilogue_num", "patchIndex")]


# API functions that are not "post-load" calls on a loaded module: creation, loading, testing, tear-down
NOT_POST_LOAD = {"xmp_create_context", "xmp_free_context", "xmp_load_module", "xmp_load_module_from_memory",
                 "xmp_load_module_from_file", "xmp_load_module_from_callbacks", "xmp_test_module",
                 "xmp_test_module_from_memory", "xmp_test_module_from_file", "xmp_test_module_from_callbacks",
                 "xmp_release_module", "xmp_set_instrument_path", "xmp_get_format_list", "xmp_syserrno"}


def api_roots(repo):
    hdr = open(os.path.join(repo, "include", "xmp.h"), errors="replace").read()
    names = set(re.findall(r"^LIBXMP_EXPORT\s+[\w\s\*]*?\b(xmp_\w+)\s*\(", hdr, re.M))
    if "xmp_play_frame" not in names or "xmp_set_player" not in names:
        raise GenError("cannot read the exported API from include/xmp.h")
    return sorted(names - NOT_POST_LOAD)


def _definition_index(repo):
    """function name -> files under src/loaders, src/depackers that seem to define it (text scan; used only to decide
    which further translation units must be parsed when the call graph leaves src/*.c)"""
    idx = {}
    for sub in ("loaders", "loaders/prowizard", "depackers"):
        for p in sorted(glob.glob(os.path.join(repo, "src", sub, "*.c"))):
            txt = open(p, errors="replace").read()
            for m in re.finditer(r"^[A-Za-z_][\w \t\*]*?\b(\w+)[ \t]*\([^;{]*\)\s*\{", txt, re.M):
                idx.setdefault(m.group(1), []).append(os.path.relpath(p, os.path.join(repo, "src")))
    return idx


def _libxmp_header_inlines(repo):
    out = {}
    for p in sorted(glob.glob(os.path.join(repo, "src", "*.h")) + glob.glob(os.path.join(repo, "src", "loaders", "*.h"))):
        txt = open(p, errors="replace").read()
        for m in re.finditer(r"^(?:static|LIBXMP_INLINE|inline)[\w \t\*]*?\b(\w+)[ \t]*\([^;{]*\)\s*\{", txt, re.M):
            out.setdefault(m.group(1), os.path.basename(p))
    return out


def reachable_functions(repo):
    """Parse src/*.c (and whatever loader/depacker file the call graph leads into), build the call graph (direct
    calls, address-taken functions, file-scope tables of function pointers) and return the function records
    reachable from the post-load API entry points."""
    headers = _libxmp_header_inlines(repo)
    todo = sorted(os.path.relpath(p, os.path.join(repo, "src")) for p in glob.glob(os.path.join(repo, "src", "*.c")))
    index = _definition_index(repo)
    parsed, records, tables, fields = set(), {}, {}, {}
    roots = api_roots(repo)
    with concurrent.futures.ProcessPoolExecutor(max_workers=min(16, os.cpu_count() or 2)) as ex:
        while True:
            batch = [f for f in todo if f not in parsed]
            for funcs, tbls, fname, flds in ex.map(scan_file, [(repo, f, headers) for f in batch]):
                for k, v in flds.items():
                    if fields.setdefault(k, v) != v:
                        raise GenError("field %s has different types in different translation units" % k)
                for fr in funcs:
                    lst = records.setdefault(fr["name"], [])
                    if not any(o["file"] == fr["file"] for o in lst):
                        lst.append(fr)
                for k, v in tbls.items():
                    tables.setdefault(k, set()).update(v)
            parsed.update(batch)
            # reachability with what is known so far
            seen, order, work = set(), [], []

            def norm(n):
                return re.sub(r"_v\d+__$", "", n)

            for name, lst in records.items():
                if norm(name) in roots:
                    work += [(fr, norm(name)) for fr in lst]
            missing = set()
            while work:
                fr, root = work.pop()
                key = (fr["file"], fr["name"])
                if key in seen:
                    continue
                seen.add(key)
                fr["root"] = root
                order.append(fr)
                names = set(fr["calls"])
                for v in fr["varrefs"]:
                    names |= tables.get(v, set())
                for n in names:
                    cands = records.get(n)
                    if not cands:
                        if n in index:
                            missing.update(index[n])
                        continue
                    same = [c for c in cands if c["file"] == fr["file"]]
                    for c in (same or cands):
                        work.append((c, root))
            todo = sorted(missing - parsed)
            if not todo:
                break
    # direct reachable callers of every reachable function (by name)
    callers = {}
    for fr in order:
        names = set(fr["calls"])
        for v in fr["varrefs"]:
            names |= tables.get(v, set())
        for n in names:
            callers.setdefault(n, set()).add(fr["name"])
    for fr in order:
        fr["callers"] = sorted(callers.get(fr["name"], set()) - {fr["name"]})
    if not any(fr["name"] == "xmp_play_frame" for fr in order):
        raise GenError("xmp_play_frame not found among the parsed functions")
    return order, roots, sorted(parsed), fields


# ---- control skeleton of the functions that patch / restore -------------------

TOKS = ["patch", "restore", "loopBegin", "loopEnd", "cont", "brk", "ifBegin", "elseBegin", "ifEnd", "ret", "unsupported"]


def _param_records(fn):
    out = []
    for c in fn.get("inner", []):
        if c.get("kind") == "ParmVarDecl":
            t = (c.get("type") or {}).get("desugaredQualType") or (c.get("type") or {}).get("qualType") or ""
            out.append(record_of(t)[0])
    return out


def skeletons(repo, entries):
    """Token streams (structured control flow + patch/restore calls) of every function of mixer.c that calls the
    wrap-around patch or restore function.  Roles are recognised by signature and by what the functions store to,
    not by name: both store to sample bytes through loop_data.sptr; the patch function also takes the voice."""
    ast = clang_ast(repo, "mixer.c")
    writers = {e["func"] for e in entries if e["file"] == "mixer.c" and e["target"] == "sampleBytes" and e["via"] == "loop_data.sptr"}
    fns = {d.get("name"): d for d in ast.get("inner", [])
           if d.get("kind") == "FunctionDecl" and any(c.get("kind") == "CompoundStmt" for c in d.get("inner", []))}
    patch = {n for n in writers if n in fns and "loop_data" in _param_records(fns[n]) and "mixer_voice" in _param_records(fns[n])}
    restore = {n for n in writers if n in fns and _param_records(fns[n]) == ["loop_data"]}
    if len(patch) != 1 or len(restore) != 1 or (writers - patch - restore):
        raise GenError("cannot identify the wrap-around patch/restore pair in mixer.c: patch=%s restore=%s writers=%s" % (
            sorted(patch), sorted(restore), sorted(writers)))

    def callee_name(n):
        c = strip((n.get("inner") or [None])[0])
        return (c.get("referencedDecl") or {}).get("name") if c else None

    def has_pr(n):
        if not isinstance(n, dict):
            return False
        if n.get("kind") == "CallExpr" and callee_name(n) in patch | restore:
            return True
        return any(has_pr(c) for c in n.get("inner") or [])

    labels_seen, label_no = set(), {}

    def walk(n, out):
        if not isinstance(n, dict) or not n:
            return
        k = n.get("kind")
        inner = n.get("inner") or []
        if k == "IfStmt":
            walk(inner[0], out)
            out.append("ifBegin")
            walk(inner[1], out)
            if len(inner) > 2:
                out.append("elseBegin")
                walk(inner[2], out)
            out.append("ifEnd")
        elif k in ("ForStmt", "WhileStmt", "DoStmt"):
            if k == "ForStmt":
                walk(inner[0], out)
                out.append("loopBegin")
                for c in inner[1:3]:
                    walk(c, out)
                walk(inner[4] if len(inner) > 4 else None, out)
                walk(inner[3] if len(inner) > 3 else None, out)
            else:
                out.append("loopBegin")
                for c in inner:
                    walk(c, out)
            out.append("loopEnd")
        elif k == "ContinueStmt":
            out.append("cont")
        elif k == "BreakStmt":
            out.append("brk")
        elif k == "ReturnStmt":
            for c in inner:
                walk(c, out)
            out.append("ret")
        elif k in ("SwitchStmt", "ConditionalOperator", "BinaryConditionalOperator") or (
                k == "BinaryOperator" and n.get("opcode") in ("&&", "||")):
            if has_pr(n):
                out.append("unsupported")     # patch/restore under control flow the checker does not model
        elif k == "LabelStmt":
            lid = n.get("declId")
            labels_seen.add(lid)
            out.append("label %d" % label_no.setdefault(lid, len(label_no)))
            for c in inner:
                walk(c, out)
        elif k == "GotoStmt":
            lid = n.get("targetLabelDeclId")
            if lid is None or lid in labels_seen:
                out.append("unsupported")          # backward jump: a loop the checker does not model
            else:
                out.append("gotoF %d" % label_no.setdefault(lid, len(label_no)))
        elif k == "IndirectGotoStmt":
            out.append("unsupported")
        elif k == "CallExpr":
            for c in inner[1:]:
                walk(c, out)
            nm = callee_name(n)
            if nm in patch:
                out.append("patch")
            elif nm in restore:
                out.append("restore")
        else:
            for c in inner:
                walk(c, out)

    res = []
    for name, d in sorted(fns.items()):
        if name in patch | restore or not has_pr(d):
            continue
        out = []
        labels_seen.clear()
        label_no.clear()
        walk([c for c in d["inner"] if c.get("kind") == "CompoundStmt"][0], out)
        res.append((name, out))
    if not res:
        raise GenError("no function of mixer.c calls the wrap-around patch/restore pair")
    return res


# ---- constants --------------------------------------------------------------

def constants(repo):
    mixer = open(os.path.join(repo, "src", "mixer.c"), errors="replace").read()
    sample = open(os.path.join(repo, "src", "loaders", "sample.c"), errors="replace").read()

    def need(pat, text, what):
        m = re.search(pat, text, re.S)
        if not m:
            raise GenError("pattern for %s no longer matches the source" % what)
        return m

    pro = int(need(r"#\s*define\s+LOOP_PROLOGUE\s+(\d+)", mixer, "LOOP_PROLOGUE").group(1))
    epi = int(need(r"#\s*define\s+LOOP_EPILOGUE\s+(\d+)", mixer, "LOOP_EPILOGUE").group(1))
    body = need(r"\nint\s+libxmp_load_sample\s*\(.*?\n\}\n", sample, "libxmp_load_sample").group(0)
    g1 = int(need(r"malloc\s*\(\s*bytelen\s*\+\s*extralen\s*\+\s*(\d+)\s*\)", body, "sample allocation size").group(1))
    g2 = int(need(r"xxs->data\s*\+=\s*(\d+)\s*;", body, "sample data offset").group(1))
    post = int(need(r"\bextralen\s*=\s*(\d+)\s*;", body, "extralen").group(1))
    # extralen must scale with the frame size exactly like bytelen does
    for flag in ("XMP_SAMPLE_16BIT", "XMP_SAMPLE_STEREO"):
        need(r"if\s*\(\s*xxs->flg\s*&\s*%s\s*\)\s*\{[^}]*bytelen\s*\*=\s*2\s*;[^}]*extralen\s*\*=\s*2\s*;" % flag, body,
             "extralen scaling for " + flag)
    fr = need(r"\nvoid\s+libxmp_free_sample\s*\(.*?\n\}\n", sample, "libxmp_free_sample").group(0)
    g3 = int(need(r"free\s*\(\s*s->data\s*-\s*(\d+)\s*\)", fr, "free(s->data - N)").group(1))
    if not (g1 == g2 == g3):
        raise GenError("guard sizes disagree: malloc +%d, data += %d, free - %d" % (g1, g2, g3))
    player = open(os.path.join(repo, "src", "player.c"), errors="replace").read()
    tbl = need(r"\binvloop_table\s*\[\s*\]\s*=\s*\{([^}]*)\}", player, "invloop_table").group(1)
    table = [int(x, 0) for x in re.findall(r"[-+]?\w+", tbl)]
    common = open(os.path.join(repo, "src", "common.h"), errors="replace").read()
    mss = int(need(r"#\s*define\s+MAX_SAMPLE_SIZE\s+(0x[0-9a-fA-F]+|\d+)", common, "MAX_SAMPLE_SIZE").group(1), 0)
    return {"maxSampleSize": mss, "loopPrologue": pro, "loopEpilogue": epi, "guardPreBytes": g1, "guardPostFrames": post, "invloopTable": table}


# ---- output -------------------------------------------------------------------

def lean_str(s):
    return '"' + s.replace("\\", "\\\\").replace('"', '\\"') + '"'


def generate(repo=None):
    repo = repo_root(repo)
    reach, roots, parsed, fields = reachable_functions(repo)
    idx = []
    for path, role in INDEX_FIELDS:
        t = re.sub(r"\b(const|volatile)\b", "", fields.get(path, "")).strip()
        if t not in C_INT_TYPES:
            raise GenError("field %s not found or not a plain integer (type %r)" % (path, fields.get(path)))
        idx.append((path, role) + C_INT_TYPES[t])
    statics = sorted({(fr["file"], fr["name"], v) for fr in reach for v in fr["statics"]})
    entries = [e for fr in reach for e in fr["entries"]]
    for fr in reach:
        for e in fr["entries"]:
            e["root"] = fr["root"]
            e["callers"] = fr["callers"]
    files = sorted({fr["file"] for fr in reach})
    uniq = sorted({(e["file"], e["func"], e["target"], e["smix"], e["field"], e["via"], tuple(e["callers"])) for e in entries})
    k = constants(repo)
    skel = skeletons(repo, entries)
    L = []
    L.append("/-! GENERATED by tools/gen_data_writers.py from the libxmp working tree — do not edit. -/")
    L.append("namespace Xmp.Gen.DataWriters\n")
    L.append("/-- which module table a store goes to -/")
    L.append("inductive Target where")
    L.append("  | " + " | ".join(TARGETS))
    L.append("  deriving DecidableEq, Repr\n")
    L.append("/-- one class of store sites in a function reachable from a post-load API call: file, enclosing function, target table, whether the access chain goes")
    L.append("through `struct smix_data` (the external-sample mixer's own tables), innermost field stored to")
    L.append("(\"\" for element stores through a data pointer) -/")
    L.append("structure Writer where")
    L.append("  file : String\n  func : String\n  target : Target\n  smix : Bool\n  field : String")
    L.append("  /-- for `sampleBytes`: the pointer field the store goes through (`record.field`) -/")
    L.append("  via : String")
    L.append("  /-- the reachable functions that call `func` directly (or hold its address) -/")
    L.append("  callers : List String")
    L.append("  deriving DecidableEq, Repr\n")
    L.append("def dataWriters : List Writer := [")
    rows = ["  { file := %s, func := %s, target := .%s, smix := %s, field := %s, via := %s, callers := [%s] }" % (
        lean_str(f), lean_str(fn), t, "true" if sm else "false", lean_str(fl), lean_str(via),
        ", ".join(lean_str(c) for c in cs)) for (f, fn, t, sm, fl, via, cs) in uniq]
    L.append(",\n".join(rows))
    L.append("]\n")
    L.append("/-- the post-load API entry points (include/xmp.h minus creation/loading/testing/tear-down) -/")
    L.append("def apiRoots : List String := [" + ", ".join(lean_str(f) for f in roots) + "]\n")
    L.append("/-- files holding at least one function reachable from an API root (direct calls, address-taken functions,")
    L.append("file-scope tables of function pointers); `dataWriters` lists the stores of exactly these functions -/")
    L.append("def scannedFiles : List String := [" + ", ".join(lean_str(f) for f in files) + "]\n")
    L.append("/-- the reachable functions -/")
    L.append("def reachableFuncs : List String := [" + ", ".join(lean_str(f) for f in sorted({fr["name"] for fr in reach})) + "]\n")
    L.append("/-- `LOOP_PROLOGUE`, `LOOP_EPILOGUE` (src/mixer.c) -/")
    L.append("def loopPrologue : Nat := %d" % k["loopPrologue"])
    L.append("def loopEpilogue : Nat := %d" % k["loopEpilogue"])
    L.append("/-- guard bytes in front of every sample's data and guard frames after it (libxmp_load_sample) -/")
    L.append("def guardPreBytes : Nat := %d" % k["guardPreBytes"])
    L.append("def guardPostFrames : Nat := %d" % k["guardPostFrames"])
    L.append("/-- `MAX_SAMPLE_SIZE` (src/common.h): longer samples are not loaded (`data == NULL`) -/")
    L.append("def maxSampleSize : Nat := %d" % k["maxSampleSize"])
    L.append("/-- declared C type (bits, signed) of the integer fields that hold sample indices or invert-loop state, with")
    L.append("their role: `invSpeed`/`invCount`/`invPos` = `xc->invloop`, `loopBound` = loop points the invert-loop position is")
    L.append("compared with, `patchIndex` = element indices of the wrap-around patch -/")
    L.append("def indexFields : List (String × String × Nat × Bool) := [")
    L.append(",\n".join("  (%s, %s, %d, %s)" % (lean_str(pth), lean_str(role), bits, "true" if sg else "false")
                         for pth, role, bits, sg in idx))
    L.append("]")
    L.append("/-- writable function-local `static` variables in functions reachable from the post-load API (file, function,")
    L.append("variable): state shared between contexts and threads -/")
    L.append("def localStatics : List (String × String × String) := [" + ", ".join(
        "(%s, %s, %s)" % (lean_str(a), lean_str(b), lean_str(c)) for a, b, c in statics) + "]")
    L.append("/-- `invloop_table` (src/player.c): per-tick increment of the invert-loop counter by effect speed -/")
    L.append("def invloopTable : List Nat := [" + ", ".join(str(x) for x in k["invloopTable"]) + "]")
    L.append("")
    L.append("/-- structured control flow of a C function reduced to what matters for the patch protocol -/")
    L.append("inductive Tok where")
    L.append("  | " + " | ".join(TOKS))
    L.append("  /-- forward `goto` to / position of the label numbered `l` (backward gotos are `unsupported`) -/")
    L.append("  | gotoF (l : Nat) | label (l : Nat)")
    L.append("  deriving DecidableEq, Repr\n")
    L.append("/-- every function of mixer.c that calls the wrap-around patch (`Tok.patch`) or restore (`Tok.restore`) function,")
    L.append("in source order: loops, if/else, continue, break, return and those calls -/")
    L.append("def patchSkeletons : List (String × List Tok) := [")
    L.append(",\n".join("  (%s, [%s])" % (lean_str(n), ", ".join(("(.%s)" % t) if " " in t else ("." + t) for t in toks)) for n, toks in skel))
    L.append("]")
    L.append("\nend Xmp.Gen.DataWriters\n")
    return "\n".join(L), entries


def write(repo=None):
    text, entries = generate(repo)
    os.makedirs(os.path.dirname(OUT), exist_ok=True)
    try:
        if open(OUT).read() == text:
            return False
    except OSError:
        pass
    tmp = OUT + ".tmp%d" % os.getpid()
    open(tmp, "w").write(text)
    os.rename(tmp, OUT)
    return True


def main():
    try:
        text, entries = generate()
        changed = write()
    except GenError as e:
        print("gen_data_writers: " + str(e))
        return 2
    for e in sorted(entries, key=lambda e: (e["file"], e["line"])):
        print("%s:%d %s %s%s %s %s (reachable from %s)" % (e["file"], e["line"], e["func"], e["target"],
                                                       " [smix]" if e["smix"] else "", e["field"], e["via"], e.get("root")))
    print("%d store sites, %s" % (len(entries), "file rewritten" if changed else "file unchanged"))
    return 0


if __name__ == "__main__":
    sys.exit(main())
