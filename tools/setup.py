#!/usr/bin/env python3
"""MANIFEST.setup_cmd: build the framework offline from files on disk only
(Lean libraries + native drivers for every registered check, sanitized libxmp
from /repo's working tree).  Each check rebuilds what it needs anyway; this
only warms the caches."""
import json
import os
import re
import sys

sys.path.insert(0, os.path.dirname(os.path.abspath(__file__)))
import vlib


def main():
    man = json.load(open(os.path.join(vlib.VERIF, "MANIFEST.json")))
    props = [c["property_id"] for c in man["checks"]]
    lf = open(os.path.join(vlib.LEAN, "lakefile.toml")).read()
    exes = set(re.findall(r'\[\[lean_exe\]\]\s*name\s*=\s*"(\w+)"', lf))
    targets = []
    for p in props:
        if os.path.exists(os.path.join(vlib.LEAN, "XmpProps", p + ".lean")):
            targets.append("XmpProps." + p)
        # drivers named in the check module
        src = open(os.path.join(vlib.VERIF, "tools", "checks", p.lower() + ".py")).read()
        for d in set(re.findall(r'"(drv_\w+)"', src)):
            if d in exes:
                targets.append(d)
    targets = sorted(set(targets))
    # regenerate the translator outputs from /repo's working tree first: the committed copies may
    # stem from another tree state
    import gen_all
    gen_all.main()
    ok, out = vlib.lean_build(targets)
    print(out[-1500:])
    if not ok:
        # every check rebuilds and re-audits its own targets and reports a broken proof itself
        # (VIOLATION … no-failing-input-found); setup only warms the caches
        print("WARNING lake build failed for some targets (reported by the corresponding check)")
    vlib.build_repo("asan")
    print("setup ok: " + " ".join(targets))
    return 0


if __name__ == "__main__":
    sys.exit(main())
