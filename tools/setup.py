#!/usr/bin/env python3
"""MANIFEST.setup_cmd: build the framework offline from files on disk only
(Lean libraries + native drivers, sanitized libxmp from /repo's working tree)."""
import os
import re
import sys

sys.path.insert(0, os.path.dirname(os.path.abspath(__file__)))
import vlib


def main():
    lf = open(os.path.join(vlib.LEAN, "lakefile.toml")).read()
    exes = re.findall(r'\[\[lean_exe\]\]\s*name\s*=\s*"(\w+)"', lf)
    ok, out = vlib.lean_build(["XmpModel", "XmpProofs", "XmpProps"] + exes)
    print(out[-1500:])
    if not ok:
        print("ERROR lake build failed")
        return 2
    vlib.build_repo("asan")
    print("setup ok")
    return 0


if __name__ == "__main__":
    sys.exit(main())
