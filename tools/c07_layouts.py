#!/usr/bin/env python3
"""Layout-controlled synthetic modules for the C07 entry-point oracle.

The stream back-ends differ in *when* they report end of data (divergence D3:
the memory back-end answers `hio_eof() != 0` as soon as the position equals
the size, stdio and callbacks only after a read came up short).  A loader that
consults `hio_eof` after a complete read, or as a loop condition, therefore
behaves differently exactly when the structure it is reading is the LAST thing
in the file and ends at the last byte.  The writers here produce small, tame,
structurally valid modules in which each section in turn is stored last and
ends exactly at the end of the file:

  S3M / IT / MMD (offset-linked)  every permutation-by-last of their sections
  XM                               last pattern / instrument header / sample header / sample data last
  MOD                              pattern data last (all samples empty), sample data last
  DBM (IFF)                        each chunk last, an empty chunk last, an empty unknown chunk last

plus `sweep_modules()`: one small module per core format for the every-byte
truncation sweep.  Written from the format descriptions (and, for DBM, the
writer in tools/synthmods.py); independent of libxmp.  Deterministic."""
import struct

import synthmods

PER = [428, 381, 339, 320, 285, 254, 226, 214]


def _pcm(n, k=1):
    return bytes(((i * 29 * k) ^ (i >> 2)) & 0xff for i in range(n))


# --------------------------------------------------------------------------
# MOD
# --------------------------------------------------------------------------

def mod(sample_lens=(64, 32), npat=1):
    out = bytearray(b"c07 layout mod".ljust(20, b"\0"))
    for i in range(31):
        n = sample_lens[i] if i < len(sample_lens) else 0
        out += (b"smp%d" % i).ljust(22, b"\0") + struct.pack(">HBBHH", n // 2, 0, 64 if n else 0, 0, 1)
    out += bytes([npat, 0x7f]) + bytes(range(npat)).ljust(128, b"\0") + b"M.K."
    for p in range(npat):
        for r in range(64):
            for c in range(4):
                if (r + c + p) % 5 == 0:
                    per = PER[(r + c) % len(PER)]
                    ins = 1 + (r % max(1, len(sample_lens))) if sample_lens else 1
                    out += bytes([(ins & 0x10) | (per >> 8), per & 0xff, ((ins & 0x0f) << 4) | 0x0c, 0x20 + (r % 32)])
                else:
                    out += bytes(4)
    for i, n in enumerate(sample_lens):
        out += _pcm(n, i + 1)
    return bytes(out)


# --------------------------------------------------------------------------
# S3M: header, orders, parapointers, then sections "ins" / "pat" / "smp" in any order
# --------------------------------------------------------------------------

def s3m(order=("ins", "pat", "smp"), nins=2, npat=2, chn=4, b16=False):
    orders = list(range(npat)) + [0xff] * (npat % 2)
    hdr = bytearray(b"c07 layout s3m".ljust(28, b"\0") + b"\x1a" + bytes([16]) + b"\0\0")
    hdr += struct.pack("<HHHHHH", len(orders), nins, npat, 0, 0x1320, 2)
    hdr += b"SCRM" + bytes([64, 6, 125, 0xb0, 16, 0]) + bytes(8) + struct.pack("<H", 0)
    hdr += bytes([(i if i < 8 else (i - 8) | 8) if i < chn else 255 for i in range(32)])
    base = (96 + len(orders) + 2 * nins + 2 * npat + 15) & ~15
    smp = [_pcm((24 + 8 * i) * (2 if b16 else 1), i + 1) for i in range(nins)]
    pats = []
    for p in range(npat):
        data = bytearray()
        for r in range(64):
            for c in range(chn):
                if (r + 2 * c + p) % 7 == 0:
                    data += bytes([0x20 | 0x40 | c, 0x40 + (r % 12), 1 + (r % nins), 32 + (r % 32)])
            data += b"\0"
        pats.append(struct.pack("<H", len(data) + 2) + bytes(data))
    # place the sections; every blob starts on a paragraph, the very last one is not padded
    blobs = []          # (kind, index, bytes)
    for sec in order:
        if sec == "ins":
            blobs += [("ins", i, None) for i in range(nins)]
        elif sec == "pat":
            blobs += [("pat", p, pats[p]) for p in range(npat)]
        else:
            blobs += [("smp", i, smp[i]) for i in range(nins)]
    off = base
    where = {}
    for k, (kind, i, b) in enumerate(blobs):
        where[(kind, i)] = off
        n = 80 if kind == "ins" else len(b)
        off += n
        if k != len(blobs) - 1:
            off = (off + 15) & ~15
    body = bytearray()
    for k, (kind, i, b) in enumerate(blobs):
        assert base + len(body) == where[(kind, i)]
        if kind == "ins":
            seg = where[("smp", i)] // 16
            ins = bytearray([1]) + b"sample.raw".ljust(12, b"\0") + bytes([(seg >> 16) & 0xff, seg & 0xff, (seg >> 8) & 0xff])
            n = len(smp[i]) // (2 if b16 else 1)
            ins += struct.pack("<III", n, 0, n) + bytes([48, 0, 0, (4 if b16 else 0) | (1 if i == 0 else 0)])
            ins += struct.pack("<I", 8363) + bytes(12) + (b"smp%d" % i).ljust(28, b"\0") + b"SCRS"
            b = bytes(ins)
            assert len(b) == 80
        body += b
        if k != len(blobs) - 1:
            body += bytes((-len(body)) % 16)
    out = bytes(hdr) + bytes(orders) + b"".join(struct.pack("<H", where[("ins", i)] // 16) for i in range(nins)) + \
        b"".join(struct.pack("<H", where[("pat", p)] // 16) for p in range(npat))
    return out.ljust(base, b"\0") + bytes(body)


# --------------------------------------------------------------------------
# IT: header, orders, offset tables, then "ihdr" (instrument mode) / "shdr" / "pat" / "smp" in any order
# --------------------------------------------------------------------------

def it(order=("shdr", "pat", "smp"), nsmp=2, npat=2, instruments=False, b16=False):
    nins = 2 if instruments else 0
    ords = list(range(npat)) + [0xff]
    hdr = bytearray(b"IMPM" + b"c07 layout it".ljust(26, b"\0") + b"\x04\x10")
    hdr += struct.pack("<HHHH", len(ords), nins, nsmp, npat)
    hdr += struct.pack("<HHHH", 0x0214, 0x0214, 0x09 | (0x04 if instruments else 0), 0)
    hdr += bytes([128, 48, 6, 125, 128, 0]) + struct.pack("<HII", 0, 0, 0)
    hdr += bytes([32] * 64) + bytes([64] * 64)
    base = 192 + len(ords) + 4 * nins + 4 * nsmp + 4 * npat
    sdata = [_pcm((20 + 6 * i) * (2 if b16 else 1), i + 3) for i in range(nsmp)]
    pats = []
    for p in range(npat):
        data = bytearray()
        rows = 16 + 16 * p
        for r in range(rows):
            for c in range(3):
                if (r + c + p) % 5 == 0:
                    data += bytes([(c + 1) | 0x80, 0x07, 48 + (r % 24), 1 + (r % max(1, nins or nsmp)), 32 + (r % 32)])
            data += b"\0"
        pats.append(struct.pack("<HHI", len(data), rows, 0) + bytes(data))
    seq = []
    for sec in order:
        if sec == "ihdr":
            seq += [("ihdr", i) for i in range(nins)]
        elif sec == "shdr":
            seq += [("shdr", i) for i in range(nsmp)]
        elif sec == "pat":
            seq += [("pat", p) for p in range(npat)]
        else:
            seq += [("smp", i) for i in range(nsmp)]
    if instruments and not any(k == "ihdr" for k, _ in seq):
        seq = [("ihdr", i) for i in range(nins)] + seq
    size = {"ihdr": lambda i: 554, "shdr": lambda i: 80, "pat": lambda p: len(pats[p]), "smp": lambda i: len(sdata[i])}
    where, off = {}, base
    for kind, i in seq:
        where[(kind, i)] = off
        off += size[kind](i)
    body = bytearray()
    for kind, i in seq:
        if kind == "ihdr":
            ih = bytearray(b"IMPI" + b"ins.iti".ljust(12, b"\0") + bytes([0, 0, 0, 0]) + struct.pack("<H", 64))
            ih += bytes([0, 60, 128, 32 | 0x80, 0, 0]) + struct.pack("<H", 0x0214) + bytes([1, 0])
            ih += (b"ins%d" % i).ljust(26, b"\0") + bytes([0, 0, 0, 0]) + struct.pack("<H", 0)
            ih += b"".join(bytes([n, 1 + (i % nsmp)]) for n in range(120))
            for e in range(3):
                ih += bytes([0, 2, 0, 0, 0, 0]) + bytes([64 if e == 0 else 0]) + struct.pack("<H", 0) + \
                    bytes([64 if e == 0 else 0]) + struct.pack("<H", 10) + bytes(69) + b"\0"
            ih = ih.ljust(554, b"\0")
            assert len(ih) == 554, len(ih)
            body += ih
        elif kind == "shdr":
            n = len(sdata[i]) // (2 if b16 else 1)
            sh = bytearray(b"IMPS" + b"sample.raw".ljust(12, b"\0") + b"\0" + bytes([64, 1 | (2 if b16 else 0), 64]))
            sh += (b"smp%d" % i).ljust(26, b"\0") + bytes([1, 32])
            sh += struct.pack("<IIII", n, 0, n, 8363) + struct.pack("<III", 0, 0, where[("smp", i)]) + bytes([0, 0, 0, 0])
            assert len(sh) == 80
            body += sh
        elif kind == "pat":
            body += pats[i]
        else:
            body += sdata[i]
    out = bytes(hdr) + bytes(ords) + b"".join(struct.pack("<I", where[("ihdr", i)]) for i in range(nins)) + \
        b"".join(struct.pack("<I", where[("shdr", i)]) for i in range(nsmp)) + \
        b"".join(struct.pack("<I", where[("pat", p)]) for p in range(npat))
    assert len(out) == base
    return out + bytes(body)


# --------------------------------------------------------------------------
# XM: strictly sequential; the variants decide what the last structure is
# --------------------------------------------------------------------------

def xm(variant="sample-data", chn=2, npat=2):
    """variant: sample-data | empty-sample (last sample header, length 0) | empty-instrument (29-byte header, no samples)
    | pattern-data (no instruments) | empty-pattern (no instruments, last pattern without data)"""
    nins = 0 if variant in ("pattern-data", "empty-pattern") else 2
    out = bytearray(b"Extended Module: " + b"c07 layout xm".ljust(20, b" ") + b"\x1a" + b"FastTracker v2.00   ")
    out += struct.pack("<H", 0x0104) + struct.pack("<I", 20 + 256)
    out += struct.pack("<HHHHHHHH", npat, 0, chn, npat, nins, 1, 6, 125)
    out += bytes(range(npat)).ljust(256, b"\0")
    for p in range(npat):
        rows = 8 + 8 * p
        data = bytearray()
        if not (variant == "empty-pattern" and p == npat - 1):
            for r in range(rows):
                for c in range(chn):
                    if (r + c) % 3 == 0:
                        data += bytes([0x80 | 0x01 | 0x02 | 0x04, 37 + (r % 24), 1, 0x10 + (r % 0x40)])
                    else:
                        data += b"\x80"
        out += struct.pack("<IBHH", 9, 0, rows, len(data)) + data
    for i in range(nins):
        last = i == nins - 1
        if last and variant == "empty-instrument":
            out += struct.pack("<I", 29) + (b"empty").ljust(22, b"\0") + b"\0" + struct.pack("<H", 0)
            continue
        nsmp = 2
        hdr = bytearray(struct.pack("<I", 263) + (b"ins%d" % i).ljust(22, b"\0") + b"\0" + struct.pack("<H", nsmp) + struct.pack("<I", 40))
        hdr += bytes([0] * 48 + [1] * 48)
        hdr += struct.pack("<HHHH", 0, 64, 20, 32).ljust(48, b"\0") + struct.pack("<HHHH", 0, 32, 20, 32).ljust(48, b"\0")
        hdr += bytes([2, 2, 0, 0, 0, 0, 0, 0, 0, 0]) + bytes([0, 0, 0, 0]) + struct.pack("<H", 0x100) + bytes(2)
        out += hdr.ljust(263, b"\0")
        datas = []
        for s in range(nsmp):
            n = 24 + 8 * s
            if last and s == nsmp - 1 and variant == "empty-sample":
                n = 0
            out += struct.pack("<IIIBbBBb", n, 0, 0, 48, 0, 0, 128, 0) + b"\0" + (b"smp%d" % s).ljust(22, b"\0")
            d = _pcm(n, s + 1)
            datas.append(bytes((d[k] - (d[k - 1] if k else 0)) & 0xff for k in range(n)))      # delta coded
        for d in datas:
            out += d
    return bytes(out)


# --------------------------------------------------------------------------
# OctaMED MMD0: everything addressed from the 52-byte header; sections in any order
# --------------------------------------------------------------------------

def mmd0(order=("song", "blockarr", "smplarr", "blocks", "smp"), nblocks=2, nins=2, ntrk=4):
    song = bytearray()
    sdata = []
    for i in range(63):
        if i < nins:
            n = 32 + 16 * i
            sdata.append(struct.pack(">Ih", n, 0) + _pcm(n, i + 2))
            song += struct.pack(">HHBBBb", 0, 1, 0, 0, 48, 0)
        else:
            song += bytes(8)
    song += struct.pack(">HH", nblocks, nblocks) + bytes(range(nblocks)).ljust(256, b"\0")
    song += struct.pack(">HbBBB", 125, 0, 0x20, 0x20 | 7, 6) + bytes([64] * 16) + bytes([64, nins])
    assert len(song) == 788
    blocks = []
    for b in range(nblocks):
        lines = 15 + 16 * b
        body = bytearray()
        for r in range(lines + 1):
            for t in range(ntrk):
                if (r + t + b) % 4 == 0:
                    note, ins = 13 + (r % 24), 1 + (r % nins)
                    body += bytes([note & 0x3f, ((ins & 0x0f) << 4) | 0x0c, 0x20])
                else:
                    body += bytes(3)
        blocks.append(bytes([ntrk, lines]) + bytes(body))
    size = {"song": 788, "blockarr": 4 * nblocks, "smplarr": 4 * nins, "blocks": sum(map(len, blocks)),
            "smp": sum(len(s) + (len(s) & 1) for s in sdata)}
    where, off = {}, 52
    for sec in order:
        where[sec] = off
        off += size[sec]
    total = off
    block_offs, o = [], where["blocks"]
    for b in blocks:
        block_offs.append(o)
        o += len(b)
    smp_offs, o = [], where["smp"]
    for s in sdata:
        smp_offs.append(o)
        o += len(s) + (len(s) & 1)
    out = bytearray(b"MMD0" + struct.pack(">IIHHIIIIII", total, where["song"], 0, 0, where["blockarr"], 0, where["smplarr"], 0, 0, 0))
    out += struct.pack(">HHHHHBB", 0, 0, 0, 0, 0, 6, 0)
    assert len(out) == 52
    for k, sec in enumerate(order):
        assert len(out) == where[sec]
        if sec == "song":
            out += song
        elif sec == "blockarr":
            out += b"".join(struct.pack(">I", x) for x in block_offs)
        elif sec == "smplarr":
            out += b"".join(struct.pack(">I", x) for x in smp_offs)
        elif sec == "blocks":
            out += b"".join(blocks)
        else:
            for s in sdata:
                out += s + (b"\0" if len(s) & 1 else b"")
    return bytes(out)


# --------------------------------------------------------------------------
# DBM (IFF-style, big endian): chunk order, empty chunk last
# --------------------------------------------------------------------------

def dbm(order=("INFO", "SONG", "INST", "PATT", "SMPL"), tail=b""):
    cells = [(r, 1 + (r % 2), 0x31 + (r % 12), 1, None, 0, None, 0) for r in range(0, 16, 2)]
    patterns = [(16, cells), (8, cells[:3])]
    insts = [(1, 48, 8363, 0, 0, 0, 0)]
    samples = [(1, 40, _pcm(40, 5))]
    venv = [(1, 1, 1, 0, 0, 0, 0, [(0, 64), (16, 0)])]
    return synthmods.dbm_module(2, [0, 1], patterns, insts, samples, venv=venv if "VENV" in order else (), order=order) + tail


# --------------------------------------------------------------------------
# the sets
# --------------------------------------------------------------------------

def _rot_last(secs):
    """orders of `secs` in which each section in turn is the last one"""
    out = []
    for last in secs:
        rest = [s for s in secs if s != last]
        out.append(tuple(rest + [last]))
        if len(rest) > 1:
            out.append(tuple(rest[::-1] + [last]))
    return out


def layouts():
    """-> [(file name, bytes, what is stored last)]"""
    out = []
    out.append(("mod.patterns-last", mod(sample_lens=()), "pattern data"))
    out.append(("mod.samples-last", mod(sample_lens=(64, 32)), "sample data"))
    for o in _rot_last(["ins", "pat", "smp"]):
        for b16 in (False, True):
            out.append(("s3m.%s%s" % ("-".join(o), ".16" if b16 else ""), s3m(o, b16=b16), o[-1]))
    for o in _rot_last(["shdr", "pat", "smp"]):
        out.append(("it.%s" % "-".join(o), it(o), o[-1]))
    for o in _rot_last(["ihdr", "shdr", "pat", "smp"]):
        out.append(("it.ins.%s" % "-".join(o), it(o, instruments=True, b16=True), o[-1]))
    for v in ("sample-data", "empty-sample", "empty-instrument", "pattern-data", "empty-pattern"):
        out.append(("xm.%s" % v, xm(v), v))
    for o in _rot_last(["song", "blockarr", "smplarr", "blocks", "smp"]):
        out.append(("med.%s" % "-".join(o), mmd0(o), o[-1]))
    base = ["INFO", "SONG", "INST", "PATT", "SMPL"]
    for o in _rot_last(base[1:]):
        out.append(("dbm.%s" % "-".join(o), dbm(("INFO",) + o), o[-1]))
    out.append(("dbm.venv-last", dbm(tuple(base) + ("VENV",)), "VENV"))
    out.append(("dbm.empty-known-last", dbm(tuple(base), tail=b"VENV" + struct.pack(">I", 0)), "empty VENV chunk"))
    out.append(("dbm.empty-unknown-last", dbm(tuple(base), tail=b"ZZZZ" + struct.pack(">I", 0)), "empty unknown chunk"))
    out.append(("dbm.hdr-only-last", dbm(tuple(base), tail=b"ZZZZ"), "chunk id without a length"))
    return out


def sweep_modules():
    """small modules for the every-byte truncation sweep: [(file name, bytes)]"""
    return [("sweep.mod", mod(sample_lens=(16, 8))), ("sweep.xm", xm("sample-data", npat=1)),
            ("sweep.s3m", s3m(("ins", "pat", "smp"), npat=1)), ("sweep.it", it(("shdr", "pat", "smp"), npat=1)),
            ("sweep.it.ins", it(("ihdr", "shdr", "pat", "smp"), npat=1, instruments=True)),
            ("sweep.med", mmd0(nblocks=1)), ("sweep.dbm", dbm())]


def append_empty_chunk(b):
    """generic IFF-style enlargement: an empty chunk (zero length reads the same in both byte orders) as the
    last thing of the file, and a bare chunk id.  -> [(label, edits)]"""
    n = len(b)
    return [("iff-empty-last", [(n, b"ZZZZ" + bytes(4))]), ("iff-id-only-last", [(n, b"ZZZZ")])]


# --------------------------------------------------------------------------
# chunk surgery: lengths of 0 (and other small values) in length-prefixed structures
# --------------------------------------------------------------------------

_IDCHARS = set(b"ABCDEFGHIJKLMNOPQRSTUVWXYZ0123456789 ._-")


def find_chunks(b, limit=1 << 17):
    """chunk headers (4 id characters, 32-bit length that fits the file), nested ones included.
    -> [(offset of the id, 'big'|'little', length)]"""
    out, n = [], len(b)
    for off in range(0, min(n, limit) - 8):
        cid = b[off:off + 4]
        if not all(c in _IDCHARS for c in cid) or sum(1 for c in cid if 65 <= c <= 90) < 2:
            continue
        for en in ("big", "little"):
            v = int.from_bytes(b[off + 4:off + 8], en)
            if 0 < v <= n - (off + 8):
                out.append((off, en, v))
                break
    # keep the candidates that take part in a chain: something starts where they end (or they end with the file
    # or with an enclosing candidate), or something ends where they start
    starts = {o for o, _, _ in out}
    ends = {o + 8 + v for o, _, v in out} | {o + 8 + v + (v & 1) for o, _, v in out}
    body_starts = {o + 8 for o, _, _ in out} | {o + 12 for o, _, _ in out}
    keep = []
    for (o, en, v) in out:
        e = o + 8 + v
        if (e in starts or e + (v & 1) in starts or e == n or e in ends - {e} and False) or o in ends or o in body_starts:
            keep.append((o, en, v))
    return keep


def shrink_chunk(b, chunks, k, newlen):
    """Edits that cut chunk `k` down to `newlen` body bytes: its tail is removed, its length field set, and
    the length of every detected chunk that encloses it reduced by as much (nested IFF: SAMP > SNAM)."""
    off, en, v = chunks[k]
    cut = v - newlen
    if cut <= 0:
        return None
    edits = [(off + 4, newlen.to_bytes(4, en))]
    for j, (o2, e2, v2) in enumerate(chunks):
        if j != k and o2 < off and o2 + 8 + v2 >= off + 8 + v and v2 - cut >= 0:
            edits.append((o2 + 4, (v2 - cut).to_bytes(4, e2)))
    edits.append((off + 8 + newlen, cut))          # an int = that many bytes removed there (after the overwrites)
    return edits


def zero_length_variants(rng, b, per_file):
    """-> [(label, edits)]: chunks emptied or cut to small sizes (name_len 0, comment length 0, zero-size sample
    chunk, a header chunk holding only its fixed part); chunks that are not the last one first."""
    chunks = find_chunks(b)
    if not chunks:
        return []
    cand = []
    for k, (off, en, v) in enumerate(chunks):
        cid = b[off:off + 4].decode("latin-1")
        if v <= 64:
            sizes = set(range(v))           # small chunk (header / name / table): every shorter length
        else:
            sizes = {0, 1, 2, 4, 8, 12, 14, 16, 20, 32, v - 1, v - 2, v - 4, v // 2}
        for nl in sorted(x for x in sizes if 0 <= x < v):
            cand.append((k, nl, "chunk:%s@%d->%d" % (cid.strip() or "?", off, nl), v))
    rng.shuffle(cand)
    # every distinct chunk id before a second chunk of the same id; zero lengths first, then small chunks
    first = {}
    for k, (off, en, v) in enumerate(chunks):
        first.setdefault(b[off:off + 4], k)
    cand.sort(key=lambda c: (0 if first[b[chunks[c[0]][0]:chunks[c[0]][0] + 4]] == c[0] else 1,
                             0 if c[1] == 0 else 1 if c[3] <= 64 else 2))
    cand = [c[:3] for c in cand]
    out = []
    for k, nl, lab in cand:
        v = shrink_chunk(b, chunks, k, nl)
        if v:
            out.append((lab, v))
        if len(out) >= per_file:
            break
    return out


# --------------------------------------------------------------------------
# container signatures: an independent reading of the documented signatures
# --------------------------------------------------------------------------

def documented_container(b):
    """Is `b` a container by the DOCUMENTED signature of a format libxmp unpacks?  Written from the formats'
    descriptions, not from libxmp: -> name, or None (plain file), or "?" when the answer needs more than a
    signature (ARC: marker 0x1a + method + name field).  libxmp looks at files of >= 22 bytes only."""
    if len(b) < 22:
        return None
    if b[:4] == b"PK\x03\x04" or b[:8] == b"PK00PK\x03\x04":
        return "zip"
    if b[2:5] == b"-lh" and b[6:7] == b"-" and b[20] <= 3:
        return "lha"
    if b[:2] == b"\x1f\x8b":
        return "gzip"
    if b[:3] == b"BZh":
        return "bzip2"
    if b[:6] == b"\xfd7zXZ\x00":
        return "xz"
    if b[:2] == b"\x1f\x9d":
        return "compress"
    if b[:4] == b"PP20":
        return "pp"
    if b[:4] == b"XPKF" and b[8:12] == b"SQSH":
        return "sqsh"
    if b[:1] == b"\x1a":
        return "?"
    if b[:8] == b"Archive\x00":
        return "arcfs"
    if b[:8] == b"ziRCONia":
        return "mmcmp"
    if b[:3] == b"LZX":
        return "lzx"
    if b[:4] == b"S404":
        return "s404"
    if b[:3] in (b"MO3", b"Rar"):
        return "external"
    return None


def apply_plant(b, ops):
    """C11's plant syntax (tools/checks/c11.py SIG_PLANTS): `h:<off>.<hex>` bytes at off, `z:<off>.<value>` one byte"""
    out = bytearray(b)
    for op in ops.split(";"):
        if op.startswith("h:"):
            off, hx = op[2:].split(".")
            d = bytes.fromhex(hx)
            out[int(off):int(off) + len(d)] = d
        elif op.startswith("z:"):
            off, val = op[2:].split(".")
            out[int(off)] = int(val)
    return bytes(out)


if __name__ == "__main__":
    for name, b, last in layouts():
        print("%-40s %6d bytes, last: %s" % (name, len(b), last))
    for name, b in sweep_modules():
        print("%-40s %6d bytes (sweep)" % (name, len(b)))
