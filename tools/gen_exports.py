#!/usr/bin/env python3
"""Translator for C05: regenerates lean/XmpModel/Gen/Exports.lean from /repo's working tree.

  * exported symbols          <- libxmp.map (all `global:` sections, de-duplicated, in order)
  * prototypes                <- include/xmp.h (LIBXMP_EXPORT lines): name, returns-void?, #int args
  * numeric constants         <- `gcc -E -dM include/xmp.h` (XMP_*), src/common.h + src/mixer.h
                                 (DEFAULT_AMPLIFY, DEFAULT_MIX, SMIX_NUMVOC)
  * documented numbers        <- docs/libxmp.rst (ranges and defaults quoted in the API reference);
                                 these feed XmpModel/ApiSpec.lean (namespace Xmp.Api.Doc)
  * error names per section   <- docs/libxmp.rst, for the evidence (documentation drift report)
"""
import os
import re
import subprocess
import sys

sys.path.insert(0, os.path.dirname(os.path.abspath(__file__)))
import vlib  # noqa: E402


def map_exports(repo):
    txt = open(os.path.join(repo, "libxmp.map")).read()
    out = []
    for sec in re.finditer(r"global:(.*?)(?:local:|\})", txt, re.S):
        for sym in re.findall(r"([A-Za-z_]\w*)\s*;", sec.group(1)):
            if sym not in out:
                out.append(sym)
    return out


def header_protos(repo):
    """name -> (is_void, n_int_args, is_data)"""
    txt = open(os.path.join(repo, "include", "xmp.h")).read()
    protos = {}
    for m in re.finditer(r"LIBXMP_EXPORT(_VAR)?\s+(?:extern\s+)?([^;]*?)\b(xmp_\w+)\s*(\(([^;]*)\))?\s*;", txt):
        data = bool(m.group(1))
        name = m.group(3)
        ret = m.group(2).strip()
        args = (m.group(5) or "").split(",") if not data else []
        nint = sum(1 for a in args if a.strip() == "int")
        protos[name] = (ret == "void", nint, data)
    return protos


def _eval(expr, env):
    expr = re.sub(r"/\*.*?\*/", "", expr).strip()
    if not expr or '"' in expr:
        return None
    names = re.findall(r"[A-Za-z_]\w*", expr)
    for n in names:
        if n not in env:
            return None
    try:
        v = eval(re.sub(r"[A-Za-z_]\w*", lambda m: str(env[m.group(0)]), expr).replace("/", "//"), {"__builtins__": {}})
    except Exception:
        return None
    return v if isinstance(v, int) else None


def macro_consts(repo):
    rc, out = vlib.sh(["gcc", "-E", "-dM", os.path.join(repo, "include", "xmp.h")])
    if rc != 0:
        raise vlib.InfraError("gcc -E -dM xmp.h failed: " + out[-500:])
    raw = {}
    for m in re.finditer(r"^#define (XMP_\w+)\s+(.+)$", out, re.M):
        raw[m.group(1)] = m.group(2)
    env = {}
    for _ in range(4):
        for k, v in raw.items():
            if k not in env:
                r = _eval(v, env)
                if r is not None:
                    env[k] = r
    # private defaults
    for fn, names in (("src/common.h", ["DEFAULT_AMPLIFY", "DEFAULT_MIX"]), ("src/mixer.h", ["SMIX_NUMVOC"])):
        txt = open(os.path.join(repo, fn)).read()
        for n in names:
            m = re.search(r"^#define\s+%s\s+(.+)$" % n, txt, re.M)
            if not m or _eval(m.group(1), env) is None:
                raise vlib.InfraError("constant %s not found in %s" % (n, fn))
            env[n] = _eval(m.group(1), env)
    return env


DOC_PATTERNS = [
    # name, regex (one or two integer groups), fallback
    ("ampLo ampHi", r"Amplification factor: ranges from (\d+) to (\d+)", (0, 3)),
    ("ampDefault", r"Amplification factor:[^*]*?Default value is (\d+)", (1,)),
    ("mixDefault", r"Stereo mixing:[^*]*?Default is (\d+)", (70,)),
    ("volLo volHi", r"Player volumes:[^*]*?Valid values are (\d+) to (\d+)", (0, 100)),
    ("defpanDefault", r"Default pan separation:[^*]*?Default\s+is (\d+)%", (100,)),
    ("voicesDefault", r"Maximum number of mixer voices:[^*]*?Default is (\d+)", (128,)),
    ("rateLoK rateHiK", r"Valid values\s+range from (\d+)kHz to (\d+)kHz", (8, 48)),
    ("smixChLo smixChHi", r"number of reserved sound mixer channels \((\d+) to (\d+)\)", (1, 64)),
    ("panLo panHi", r"the pan value to set \((\d+) to (\d+)\)", (0, 255)),
    ("chanVolLo chanVolHi", r"a value from (\d+)-(\d+) to set the channel volume", (0, 100)),
]


def doc_consts(repo):
    txt = open(os.path.join(repo, "docs", "libxmp.rst")).read()
    flat = re.sub(r"\s+", " ", txt)
    vals, missing = {}, []
    for names, rx, fb in DOC_PATTERNS:
        m = re.search(rx, flat)
        got = tuple(int(g) for g in m.groups()) if m else fb
        if not m:
            missing.append(names)
        for n, v in zip(names.split(), got):
            vals[n] = v
    # error names mentioned per function section
    errs = {}
    secs = re.split(r"\n\.\. _?(xmp_\w+)\(\):\n", txt)
    for i in range(1, len(secs) - 1, 2):
        body = secs[i + 1]
        errs[secs[i]] = sorted(set(re.findall(r"-XMP_(?:ERROR_\w+|END)", body)))
    return vals, missing, errs


def generate(repo=None):
    repo = repo or vlib.REPO
    exports = map_exports(repo)
    protos = header_protos(repo)
    consts = macro_consts(repo)
    doc, missing, errs = doc_consts(repo)
    L = ["/-! GENERATED by tools/gen_exports.py from libxmp.map, include/xmp.h, src/common.h, src/mixer.h and",
         "    docs/libxmp.rst of the working tree.  Do not edit. -/",
         "namespace Xmp.Api.Gen", "",
         "/-- every symbol of the `global:` sections of libxmp.map -/",
         "def exports : List String := ["]
    L.append(",\n".join('  "%s"' % e for e in exports) + "]")
    L += ["", "/-- (name, returns void, number of `int` parameters, is a data symbol) from the LIBXMP_EXPORT lines of xmp.h -/",
          "def protos : List (String × Bool × Nat × Bool) := ["]
    L.append(",\n".join('  ("%s", %s, %d, %s)' % (n, str(v[0]).lower(), v[1], str(v[2]).lower()) for n, v in sorted(protos.items())) + "]")
    L += ["", "/-! numeric macros -/"]
    keep = [k for k in sorted(consts) if re.match(r"XMP_(PLAYER|STATE|ERROR|INTERP|MODE|MIXER|MAX|MIN|FORMAT|DSP|FLAGS|SMPCTL|CHANNEL_MUTE|END|KEY)", k)
            or k in ("DEFAULT_AMPLIFY", "DEFAULT_MIX", "SMIX_NUMVOC")]
    for k in keep:
        L.append("@[simp] abbrev %s : Int := %d" % (k, consts[k]))
    L += ["", "/-- the XMP_PLAYER_* parameter numbers -/",
          "def playerParams : List Int := [" + ", ".join(str(consts[k]) for k in sorted(consts, key=lambda k: consts[k]) if k.startswith("XMP_PLAYER_")) + "]",
          "", "end Xmp.Api.Gen", "",
          "/-! numbers quoted by docs/libxmp.rst (API reference) -/",
          "namespace Xmp.Api.Doc"]
    for k in sorted(doc):
        L.append("@[simp] abbrev %s : Int := %d" % (k, doc[k]))
    L += ["end Xmp.Api.Doc", ""]
    path = os.path.join(vlib.LEAN, "XmpModel", "Gen", "Exports.lean")
    changed = vlib.write_if_changed(path, "\n".join(L))
    return dict(exports=exports, protos=protos, consts=consts, doc=doc, doc_missing=missing, doc_errors=errs, changed=changed)


if __name__ == "__main__":
    r = generate()
    print("exports:", len(r["exports"]), "changed:", r["changed"], "doc:", r["doc"], "missing:", r["doc_missing"])
    for k, v in sorted(r["doc_errors"].items()):
        print("  ", k, v)
