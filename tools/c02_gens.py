#!/usr/bin/env python3
"""Generators for the C02 search that are not in synthmods: modules whose headers
declare far more sample data than the file holds, on the paths that allocate from
the declaration (IT compressed samples)."""
import struct
import synthmods


def gen_it_comp_liar(rng):
    """IT module with an IT2.14-compressed sample declaring up to MAX_SAMPLE_SIZE frames over a few bytes of
    block data: the loader may allocate in proportion to the bytes present, not to the declaration."""
    nsmp = rng.randint(1, 2)
    samples = []
    for i in range(nsmp):
        n = rng.choice([0x00400000, 0x00800000, 0x02000000, 0x08000000, 0x0fffffff, 0x10000000])
        b16 = rng.random() < 0.5
        blocks = bytearray()
        for _ in range(rng.choice([1, 1, 2])):
            ln = rng.choice([2, 16, 60])
            blocks += struct.pack("<H", ln) + bytes(rng.randrange(256) for _ in range(ln))
        flg = 0x08 | rng.choice([0, 0x10])
        samples.append(dict(n=n, c5spd=8363, flg=flg, b16=b16, data=bytes(blocks), lps=0, lpe=n, sus=0, sue=0))
    rows = {0: [(1, 60, 1, None, 0)]}
    data = bytearray(synthmods.it_module(samples, rows, title=b"comp liar"))
    for k in range(nsmp):
        o = 192 + 1 + 4 * nsmp + 4 + 80 * k + 0x2e
        data[o] = rng.choice([1, 1 | 4])
    return bytes(data), "it"


GENS = [synthmods.gen_mmd, gen_it_comp_liar, synthmods.gen_it_compressed, synthmods.gen_mmd, synthmods.gen_dbm, gen_it_comp_liar]


# --------------------------------------------------------------------------
# OctaMED synth instruments: the volume / waveform command tables are little programs
# interpreted once per tick; a cycle made only of jump commands must not hang a frame
# --------------------------------------------------------------------------

JMP_CYCLES = [bytes([0xfe, 0x00]), bytes([0xfe, 0x02, 0xfe, 0x00]), bytes([0xfe, 0x01, 0x00, 0xfe, 0x01]),
              bytes([0xfe, 0x7f]) + bytes(125) + bytes([0xfe, 0x00]), bytes([0xfe, 0x04, 0xff, 0xff, 0xfe, 0x06, 0xfe, 0x04])]


def med_synth_offsets(data):
    """file offsets of the synth/hybrid instrument headers of an MMD0..3 file"""
    if len(data) < 800 or data[:3] != b"MMD" or data[3:4] not in (b"0", b"1", b"2", b"3"):
        return []
    song, smplarr = struct.unpack_from(">I", data, 8)[0], struct.unpack_from(">I", data, 24)[0]
    if song + 788 > len(data) or smplarr == 0:
        return []
    n = data[song + 787]
    out = []
    for i in range(min(n, 63)):
        if smplarr + 4 * i + 4 > len(data):
            break
        ptr = struct.unpack_from(">I", data, smplarr + 4 * i)[0]
        if ptr and ptr + 6 + 16 + 256 <= len(data):
            typ = struct.unpack_from(">h", data, ptr + 4)[0]
            if typ in (-1, -2):
                out.append(ptr)
    return out


def patch_med_jmp(data, rng):
    """overwrite the start of the volume and/or waveform table of every synth instrument with a jump cycle"""
    offs = med_synth_offsets(data)
    if not offs:
        return None
    b = bytearray(data)
    for ptr in offs:
        which = rng.choice(["wf", "vol", "both"])
        for tbl, base in (("vol", ptr + 22), ("wf", ptr + 150)):
            if which in (tbl, "both"):
                cyc = rng.choice(JMP_CYCLES)
                b[base:base + len(cyc)] = cyc
        # table lengths large enough for the program to be read
        struct.pack_into(">HH", b, ptr + 14, max(struct.unpack_from(">H", b, ptr + 14)[0], 8) & 0x7f or 8,
                         max(struct.unpack_from(">H", b, ptr + 16)[0], 8) & 0x7f or 8)
    return bytes(b)


def gen_med_jmp(rng):
    for _ in range(40):
        data, ext = synthmods.gen_mmd(rng)
        p = patch_med_jmp(data, rng)
        if p is not None:
            return p, ext
    raise ValueError("no synth instrument generated")


def patched_corpus_meds(rng, files, dirname, limit):
    """corpus MED files with synth instruments, their tables patched with jump cycles"""
    import os
    out = []
    for f in files:
        try:
            with open(f, "rb") as fh:
                head = fh.read(4)
                if head[:3] != b"MMD":
                    continue
                data = head + fh.read()
        except OSError:
            continue
        p = patch_med_jmp(data, rng)
        if p is None:
            continue
        path = os.path.join(dirname, "medjmp%03d.med" % len(out))
        with open(path, "wb") as fh:
            fh.write(p)
        out.append(path)
        if len(out) >= limit:
            break
    return out


GENS = GENS + [gen_med_jmp, gen_med_jmp]


# --------------------------------------------------------------------------
# chunked (IFF-style) formats: a chunk of unknown id declaring a length near 2^32 / 2^31
# --------------------------------------------------------------------------

# magic -> (offset of the first chunk, id length, size endianness)
CHUNKED = [(b"OKTASONG", 8, 4, ">"), (b"DBM0", 8, 4, ">"), (b"FORM", 12, 4, ">"), (b"DMDL", 5, 2, "<"), (b"D.T.", 0, 4, ">"),
           (b"PSM ", 12, 4, "<"), (b"RIFF", 12, 4, "<"), (b"MUSX", 8, 4, "<"), (b"GDM\xfe", 0, 4, "<")]
HUGE_LEN = [0xfffffff8, 0xffffffff, 0xfffffff0, 0x80000000, 0x7fffffff, 0x7ffffff8, 0xfffffffc]


def chunk_boundaries(data):
    for magic, start, idlen, end in CHUNKED:
        if data.startswith(magic):
            out, pos = [], start
            while pos + idlen + 4 <= len(data) and len(out) < 64:
                size = struct.unpack_from(end + "I", data, pos + idlen)[0]
                out.append(pos)
                nxt = pos + idlen + 4 + size
                if size > len(data) or nxt <= pos:
                    break
                pos = nxt
            return out, idlen, end
    return [], 0, ">"


def chunk_liar(data, rng):
    """insert a chunk with an id no loader registers and a huge declared length at a chunk boundary, or
    rewrite the header of an existing chunk that way"""
    bounds, idlen, end = chunk_boundaries(data)
    if not bounds:
        return None
    pos = rng.choice(bounds)
    cid = rng.choice([b"XXXX", b"ZZZZ", b"junk", b"\0\0\0\0", b"~~~~"])[:idlen]
    hdr = cid + struct.pack(end + "I", rng.choice(HUGE_LEN))
    b = bytearray(data)
    if rng.random() < 0.6:
        b[pos:pos] = hdr + bytes(rng.choice([0, 4, 8]))
    else:
        b[pos:pos + idlen + 4] = hdr
    return bytes(b)


def okt_minimal(rng):
    """a minimal Oktalyzer module written from the format description (one pattern, one sample)"""
    def ch(cid, body):
        return cid + struct.pack(">I", len(body)) + body
    smp = bytes(20) + struct.pack(">IHHHH", 16, 0, 8, 64, 1)          # name, length, repeat, replen, pad+vol, type
    samp = smp + bytes(32 * 35)
    patt = struct.pack(">H", 4) + bytes(4 * 4 * 4)
    data = (b"OKTASONG" + ch(b"CMOD", bytes(8)) + ch(b"SAMP", samp) + ch(b"SPEE", struct.pack(">H", 6)) +
            ch(b"SLEN", struct.pack(">H", 1)) + ch(b"PLEN", struct.pack(">H", 1)) + ch(b"PATT", bytes(128)) +
            ch(b"PBOD", patt) + ch(b"SBOD", bytes(rng.randrange(256) for _ in range(16))))
    return data


def gen_chunk_liar(rng):
    return chunk_liar(okt_minimal(rng), rng), "okt"


def chunk_liars_from_corpus(rng, files, dirname, limit):
    import os
    out = []
    cand = []
    for f in files:
        try:
            if os.path.getsize(f) > 400000:
                continue
            with open(f, "rb") as fh:
                head = fh.read(8)
        except OSError:
            continue
        if any(head.startswith(m[0]) for m in CHUNKED):
            cand.append(f)
    rng.shuffle(cand)
    for f in cand:
        data = open(f, "rb").read()
        p = chunk_liar(data, rng)
        if p is None:
            continue
        path = os.path.join(dirname, "chunkliar%03d%s" % (len(out), os.path.splitext(f)[1][:6] or ".bin"))
        with open(path, "wb") as fh:
            fh.write(p)
        out.append(path)
        if len(out) >= limit:
            break
    return out


# --------------------------------------------------------------------------
# container headers cut short at every byte (optional gzip fields: FEXTRA, FNAME, FCOMMENT, FHCRC)
# --------------------------------------------------------------------------

def gz_variants(payload):
    import zlib
    co = zlib.compressobj(6, zlib.DEFLATED, -15)
    body = co.compress(payload) + co.flush()
    trailer = struct.pack("<II", zlib.crc32(payload) & 0xffffffff, len(payload) & 0xffffffff)
    out = []
    for flg in (0x00, 0x04, 0x08, 0x10, 0x18, 0x1c, 0x02, 0x1e):
        h = bytearray(b"\x1f\x8b\x08" + bytes([flg]) + bytes(4) + b"\x00\x03")
        if flg & 0x04:
            h += struct.pack("<H", 6) + b"ab\x02\x00xy"
        if flg & 0x08:
            h += b"song.mod\0"
        if flg & 0x10:
            h += b"a comment of some length\0"
        hdr_len = len(h) + (2 if flg & 0x02 else 0)
        if flg & 0x02:
            h += struct.pack("<H", zlib.crc32(bytes(h)) & 0xffff)
        out.append((bytes(h) + body + trailer, hdr_len))
    return out


def header_cuts(rng, dirname, packed_files, limit):
    """gzip files with every optional header field, cut at every byte of the header; and the first bytes of
    packed corpus files cut likewise"""
    import os
    out = []
    mod = synthmods.gen_mod(rng)[0][:3000]
    for data, hl in gz_variants(mod):
        cuts = list(range(10, hl + 3))
        rng.shuffle(cuts)
        for c in cuts[:max(2, limit // 16)]:
            path = os.path.join(dirname, "gzcut%03d.gz" % len(out))
            with open(path, "wb") as fh:
                fh.write(data[:c])
            out.append(path)
    pf = [f for f in packed_files if os.path.getsize(f) < 200000]
    rng.shuffle(pf)
    for f in pf[:max(2, limit // 8)]:
        data = open(f, "rb").read()
        for c in rng.sample(range(1, min(len(data), 96)), min(4, max(1, min(len(data), 96) - 1))):
            path = os.path.join(dirname, "hdrcut%03d%s" % (len(out), os.path.splitext(f)[1][:6] or ".bin"))
            with open(path, "wb") as fh:
                fh.write(data[:c])
            out.append(path)
    return out


GENS = GENS + [gen_chunk_liar]


# --------------------------------------------------------------------------
# compress(1) code-stream bomb: no payload is ever compressed, the codes are written directly.
# literal 0, then always the code the decoder is about to define (the KwKwK case): the k-th code
# expands to k bytes, so a full 16-bit table (65279 codes, ~125 KiB of input) already stands for
# 65279*65280/2 = 2 130 706 560 bytes; `extra` more copies of the longest code add 65279 bytes each.
# --------------------------------------------------------------------------

def compress_code_bomb(ncodes=65279, extra=0, maxbits=16):
    out = bytearray([0x1f, 0x9d, maxbits | 0x80])
    acc = nacc = group = 0
    n_bits = 9
    maxmax = 1 << maxbits
    maxcode = (1 << 9) - 1
    free_ent = 257

    def put(code, nb):
        nonlocal acc, nacc, group
        acc |= code << nacc
        nacc += nb
        group += nb
        while nacc >= 8:
            out.append(acc & 0xff)
            acc >>= 8
            nacc -= 8

    def emit(code, first):
        nonlocal n_bits, maxcode, free_ent, group
        if free_ent > maxcode:
            pad = (-group) % (n_bits * 8)
            while pad > 0:
                k = min(pad, 16)
                put(0, k)
                pad -= k
            group = 0
            n_bits += 1
            maxcode = maxmax if n_bits == maxbits else (1 << n_bits) - 1
        put(code, n_bits)
        if not first and free_ent < maxmax:
            free_ent += 1

    emit(0, True)
    total = 1
    length = 1
    for _ in range(ncodes - 1):
        if free_ent < maxmax:
            code = free_ent          # KwKwK: string of the previous code + its first byte
            length += 1
        else:
            code = maxmax - 1
        emit(code, False)
        total += length
    assert extra == 0 or free_ent >= maxmax, "extra codes only once the table is full"
    for _ in range(extra):
        emit(maxmax - 1, False)
        total += length
    if nacc:
        out.append(acc & 0xff)
    return bytes(out), total


# --------------------------------------------------------------------------
# MMCMP: every entry of the (up to 65535-entry) block table may point at the same stored block, so the same
# `block_bytes` are copied into the output once per table entry: work = entries x block size for a file of
# block size + 4 x entries bytes.
# --------------------------------------------------------------------------

def mmcmp_rewrite_bomb(block_bytes, nblocks=65535):
    body = b"M" * block_bytes
    blk = struct.pack("<IIIHHHH", block_bytes, block_bytes, 0, 1, 0, 0, 0) + struct.pack("<II", 0, block_bytes) + body
    blk_ofs = 24
    table_ofs = blk_ofs + len(blk)
    hdr = b"ziRCONia" + struct.pack("<HHHIIBB", 14, 0x1300, nblocks, max(16, block_bytes), table_ofs, 0, 0)
    assert len(hdr) == 24
    return hdr + blk + struct.pack("<I", blk_ofs) * nblocks


# --------------------------------------------------------------------------
# Walker-stress inputs (run intact by tools/checks/c02.py through every memory / callback entry point):
# Unreal packages (UMX) with boundary values in every count / length / offset of the name and export tables, and
# IT modules whose row-delay effects (SEx) on one row add up to the per-row visit counter's limits.
# --------------------------------------------------------------------------

def fci(v):
    """encode an Unreal FCompactIndex"""
    neg = v < 0
    v = abs(v)
    b0 = (v & 0x3f) | (0x80 if neg else 0)
    v >>= 6
    out = bytearray()
    if v:
        b0 |= 0x40
    out.append(b0)
    shift_bits = [7, 7, 7, 6]
    k = 0
    while v:
        bits = shift_bits[k] if k < 4 else 6
        cur = v & ((1 << bits) - 1)
        v >>= bits
        if v and k < 3:
            cur |= 0x80
        out.append(cur)
        k += 1
        if k == 4:
            break
    return bytes(out)


def tiny_it(rows_fx=None, nchan=4, orders=(0, 255), speed=6):
    """a minimal sample-mode IT module: one pattern whose rows carry (channel, effect, param) triples"""
    rows_fx = rows_fx if rows_fx is not None else [[] for _ in range(4)]
    pat = bytearray()
    for row in rows_fx:
        for ch, fx, param in row:
            pat += bytes([(ch + 1) | 0x80, 0x08, fx, param])
        pat.append(0)
    patblk = struct.pack("<HHI", len(pat), len(rows_fx), 0) + bytes(pat)
    ordnum = len(orders)
    hdr = bytearray(b"IMPM" + b"rowdelay".ljust(26, b"\0"))
    hdr += struct.pack("<HHHHHHHHH", 0x1004, ordnum, 0, 0, 1, 0x0214, 0x0200, 0x0009, 0)
    hdr += bytes([128, 48, speed, 125, 128, 0]) + struct.pack("<HII", 0, 0, 0)
    hdr += bytes([32] * 64) + bytes([64] * 64)
    hdr += bytes(orders)
    pat_ofs = len(hdr) + 4
    hdr += struct.pack("<I", pat_ofs)
    return bytes(hdr) + patblk


def it_rowdelay_set():
    """(name, bytes): SEx on k channels of one row, with and without jumps back to the row"""
    out = []
    combos = []
    for k in range(1, 65):
        for x in range(1, 16):
            if (k * x + 1) % 256 in (255, 0, 1) or (k * x) % 256 in (255, 0):
                combos.append((k, x))
    combos += [(1, 15), (16, 15), (18, 15), (64, 15), (64, 1), (64, 8)]
    for k, x in sorted(set(combos)):
        delay_row = [(ch, 19, 0xE0 | x) for ch in range(k)]
        # B00 on the delayed row (after the delays), on a later row, and no jump at all (restart at pattern end)
        for variant, rows in (("same", [delay_row + [(min(k, 63), 2, 0)]]),
                              ("later", [delay_row, [], [(0, 2, 0)]]),
                              ("none", [delay_row, [], []]),
                              ("loop", [[(0, 19, 0xB0)], delay_row, [(0, 19, 0xB3)]])):
            out.append(("rowdelay-%dx%d-%s.it" % (k, x, variant), tiny_it(rows, nchan=max(4, k + 1))))
    return out


def umx_package(music, typ, version=69, name_count=None, type_idx=None, name_lens=None, serial_size=None, serial_offset=None,
                objsize=None, name_offset=None, export_count=1, junk=0):
    """a minimal Unreal package with one export holding `music`; every count / length / offset can be overridden"""
    names = [b"Music", b"Package", typ, b"None"]
    tidx = 2 if type_idx is None else type_idx
    hdr_len = 64
    ntab = bytearray()
    for i, n in enumerate(names):
        if version >= 64:
            ln = len(n) + 1 if name_lens is None or i >= len(name_lens) or name_lens[i] is None else name_lens[i]
            ntab += bytes([ln & 0xff]) + n + b"\0" + struct.pack("<I", 0x00070010)
        else:
            ntab += n + b"\0" + struct.pack("<I", 0x00070010)
    noff = hdr_len if name_offset is None else name_offset
    # object: [junk fci] [type_name fci] [export size dword if version > 61] [objsize fci] music
    osz = len(music) if objsize is None else objsize
    obj_hdr = (bytes(8) if version < 40 else b"") + (bytes(16) if version < 60 else b"") + fci(junk) + fci(tidx) + \
        (struct.pack("<I", len(music)) if version > 61 else b"") + fci(osz)
    obj = obj_hdr + music
    exp_ofs = hdr_len + len(ntab)
    obj_ofs_guess = exp_ofs + 32
    ssz = len(obj) if serial_size is None else serial_size
    sof = obj_ofs_guess if serial_offset is None else serial_offset
    exp = fci(-1) + fci(0) + (struct.pack("<i", 0) if version >= 60 else b"") + fci(0) + struct.pack("<I", 0x0f0004) + fci(ssz) + fci(sof)
    exp = exp.ljust(32, b"\0")
    hdr = struct.pack("<IiIiiiiii", 0x9e2a83c1, version, 1, len(names) if name_count is None else name_count, noff,
                      export_count, exp_ofs, 0, exp_ofs)
    hdr = hdr.ljust(hdr_len, b"\0")
    return hdr + bytes(ntab) + exp + obj + bytes(48)


def umx_stress_set(rng):
    """(name, bytes): well-formed packages around tiny S3M / IT / XM / MOD exports, then boundary values in every count /
    length / offset field of the header, name table, export entry and object header (negative length bytes included)"""
    mods = [(synthmods.gen_s3m(rng)[0], b"s3m"), (synthmods.gen_it(rng)[0], b"it"), (synthmods.gen_xm(rng)[0], b"xm"),
            (synthmods.gen_mod(rng)[0], b"mod")]
    out = []
    for music, typ in mods:
        for ver in (35, 61, 63, 64, 69):
            out.append(("umx-ok-%s-v%d.umx" % (typ.decode(), ver), umx_package(music, typ, version=ver)))
    music, typ = mods[0][0][:2000], b"s3m"
    big = [0x7ffffffe, 0x7fffffff, 0x10000, 0xffff, 255, 4, 3, 2, 1, 0]
    lens = [0x00, 0x01, 0x02, 0x05, 0x7f, 0x80, 0x81, 0xfa, 0xfb, 0xfc, 0xfe, 0xff]
    for ver in (63, 64, 69):
        for ln in lens:
            for slot in (0, 1, 2):
                nl = [None, None, None, None]
                nl[slot] = ln
                out.append(("umx-len%02x@%d-v%d.umx" % (ln, slot, ver),
                            umx_package(music, typ, version=ver, name_count=0x7fffffff, type_idx=0x7ffffffe, name_lens=nl)))
                out.append(("umx-len%02x@%d-idx2-v%d.umx" % (ln, slot, ver),
                            umx_package(music, typ, version=ver, name_lens=nl)))
        for nc in big:
            for ti in big[:6] + [nc - 1 if nc > 0 else 0]:
                out.append(("umx-nc%x-ti%x-v%d.umx" % (nc, ti, ver), umx_package(music, typ, version=ver, name_count=nc, type_idx=ti)))
        for v in big:
            out.append(("umx-ssz%x-v%d.umx" % (v, ver), umx_package(music, typ, version=ver, serial_size=v)))
            out.append(("umx-sof%x-v%d.umx" % (v, ver), umx_package(music, typ, version=ver, serial_offset=v)))
            out.append(("umx-osz%x-v%d.umx" % (v, ver), umx_package(music, typ, version=ver, objsize=v)))
            out.append(("umx-nof%x-v%d.umx" % (v, ver), umx_package(music, typ, version=ver, name_offset=max(36, v) & 0x7fffffff)))
    return out


# --------------------------------------------------------------------------
# Modules that store or reach a restart position on pattern-less / marker orders, to be PLAYED through their end twice
# (tools/checks/c02.py, harness/c02_play.c): XM restart field, MOD restart byte, IT / S3M order markers and Bxx jumps.
# --------------------------------------------------------------------------

def tiny_xm(orders, restart, npat=1, rows=4, channels=2, songlen=None, fx_last=None):
    songlen = len(orders) if songlen is None else songlen
    hdr = b"Extended Module: " + b"restart".ljust(20, b" ") + b"\x1a" + b"c02_gens".ljust(20, b" ") + struct.pack("<H", 0x0104)
    hdr += struct.pack("<IHHHHHHHH", 276, songlen, restart & 0xffff, channels, npat, 0, 1, 6, 125)
    hdr += bytes(orders).ljust(256, b"\0")
    pats = b""
    for _ in range(npat):
        if fx_last is None:
            pats += struct.pack("<IBHH", 9, 0, rows, 0)
        else:
            data = bytearray()
            for r in range(rows):
                for ch in range(channels):
                    if r == rows - 1 and ch == 0:
                        data += bytes([0x80 | 0x08 | 0x10, fx_last[0], fx_last[1]])
                    else:
                        data.append(0x80)
            pats += struct.pack("<IBHH", 9, 0, rows, len(data)) + bytes(data)
    return hdr + pats


def tiny_mod(orders, restart, songlen=None, fx_last=None):
    songlen = len(orders) if songlen is None else songlen
    npat = max(orders) + 1
    out = bytearray(b"restart".ljust(20, b"\0"))
    for _ in range(31):
        out += bytes(22) + struct.pack(">HBBHH", 0, 0, 0, 0, 1)
    out += bytes([songlen & 0xff, restart & 0xff]) + bytes(orders).ljust(128, b"\0") + b"M.K."
    for p in range(npat):
        pat = bytearray(1024)
        if fx_last is not None:
            pat[63 * 16 + 2] = fx_last[0] & 0x0f
            pat[63 * 16 + 3] = fx_last[1]
        out += pat
    return bytes(out)


def tiny_s3m(orders, npat=1, fx_last=None, channels=4):
    ordnum = len(orders) + (len(orders) & 1)
    ords = bytes(orders).ljust(ordnum, b"\xff")
    hdr = bytearray(b"restart".ljust(28, b"\0") + b"\x1a\x10\0\0")
    hdr += struct.pack("<HHHHHH", ordnum, 0, npat, 0, 0x1320, 2) + b"SCRM" + bytes([64, 6, 125, 0x30, 0, 0]) + bytes(8) + struct.pack("<H", 0)
    hdr += bytes([i if i < channels else 255 for i in range(32)])
    hdr += ords
    base = len(hdr) + 2 * npat
    base += -base % 16
    pats = b""
    ptrs = []
    for p in range(npat):
        data = bytearray()
        for r in range(64):
            if fx_last is not None and r == 63:
                data += bytes([0x80 | 0, fx_last[0], fx_last[1]])
            data.append(0)
        blk = struct.pack("<H", len(data) + 2) + bytes(data)
        blk += bytes(-len(blk) % 16)
        ptrs.append((base + len(pats)) // 16)
        pats += blk
    hdr += b"".join(struct.pack("<H", x) for x in ptrs)
    hdr += bytes(base - len(hdr))
    return bytes(hdr) + pats


def restart_play_set():
    """(name, bytes): modules whose restart position / jump targets / order tails are pattern-less or marker orders"""
    out = []
    for oi, orders in enumerate(([0, 0x40], [0, 0x40, 0x41, 0x42], [0x40, 0], [0, 0, 0x40], [0, 0x40, 0, 0x40], [0x40, 0x41, 0])):
        for rst in sorted({0, 1, 2, 3, len(orders) - 1, len(orders), len(orders) + 1, 255, 0xffff}):
            out.append(("restart-o%d-r%d.xm" % (oi, rst), tiny_xm(orders, rst)))
        for tgt in (0, 1, len(orders) - 1, len(orders), 0x7f, 0xff):
            out.append(("jump-o%d-b%02x.xm" % (oi, tgt), tiny_xm(orders, 0, fx_last=(0x0b, tgt))))
    for oi, orders in enumerate(([0], [0, 1, 0], [1, 0], [0, 0, 0, 1])):
        for rst in (0, 1, 2, 3, 4, 0x40, 0x78, 0x7e, 0x7f, 0x80, 0xff):
            for sl in sorted({len(orders), 1, 128}):
                out.append(("restart-o%d-r%02x-l%d.mod" % (oi, rst, sl), tiny_mod(orders, rst, songlen=sl)))
        for tgt in (0, 1, len(orders), 0x7f, 0xff):
            out.append(("jump-o%d-b%02x.mod" % (oi, tgt), tiny_mod(orders, 0, fx_last=(0x0b, tgt))))
    marker_orders = ([0, 254, 255], [0, 255, 0], [254, 0, 255], [0, 200, 255], [0, 254, 254, 0, 255], [0, 200, 201], [255, 0], [254, 254, 0])
    for oi, orders in enumerate(marker_orders):
        for tgt in (None, 0, 1, 2, 3, len(orders), 0x7f, 0xfe, 0xff):
            rows = [[], [], [], [(0, 2, tgt)] if tgt is not None else []]
            out.append(("markers-o%d-%s.it" % (oi, "none" if tgt is None else "b%02x" % tgt), tiny_it(rows, orders=tuple(orders))))
            out.append(("markers-o%d-%s.s3m" % (oi, "none" if tgt is None else "b%02x" % tgt),
                        tiny_s3m(orders, fx_last=None if tgt is None else (2, tgt))))
    return out


# --------------------------------------------------------------------------
# IFF-family files: a genuine file, then thousands of repeated zero / small-size chunks of an id the file itself uses
# (= an id its loader registers), appended at the end or inserted right behind the first chunk.  Loaded unmodified
# under the heap and read-work meters of harness/c02_play.c.
# --------------------------------------------------------------------------

def iff_repeat_variants(data, repeats=8192, max_ids=12):
    """[(tag, bytes)] for one chunked file (tools' CHUNKED table); empty when the layout is not recognised"""
    bounds, idlen, end = chunk_boundaries(data)
    if len(bounds) < 1:
        return []
    ids = []
    for pos in bounds:
        cid = data[pos:pos + idlen]
        if cid not in ids:
            ids.append(cid)
    first_end = bounds[1] if len(bounds) > 1 else len(data)
    out = []
    for cid in ids[:max_ids]:
        safe = "".join(chr(c) if 48 <= c < 123 and chr(c).isalnum() else "_" for c in cid)
        for size in (0, 4):
            rep = (cid + struct.pack(end + "I", size) + bytes(size)) * (repeats if size == 0 else repeats // 2)
            out.append(("%s-z%d-tail" % (safe, size), data + rep))
            out.append(("%s-z%d-head" % (safe, size), data[:first_end] + rep + data[first_end:]))
    return out


def mmcmp_empty_subblock_bomb(nblocks=65535, nsubs=65535):
    """MMCMP whose block-table entries all name one stored block made of `nsubs` EMPTY sub-blocks: nothing is written, so the
    total-output budget is never used up, but every table entry re-reads the whole sub-block table (nblocks x nsubs reads)"""
    blk = struct.pack("<IIIHHHH", 16, 16, 0, nsubs, 0, 0, 0) + struct.pack("<II", 0, 0) * nsubs + bytes(16)
    blk_ofs = 24
    table_ofs = blk_ofs + len(blk)
    hdr = b"ziRCONia" + struct.pack("<HHHIIBB", 14, 0x1300, nblocks, 16, table_ofs, 0, 0)
    return hdr + blk + struct.pack("<I", blk_ofs) * nblocks


# --------------------------------------------------------------------------
# XM with OpenMPT-style extension blocks behind the sample data (every id xm_load.c knows), honest sizes: the field sweep
# then reaches each block's size field.
# --------------------------------------------------------------------------

def xm_with_extensions(rng):
    base = tiny_xm([0, 0], 0, npat=1, rows=4)
    blocks = [(b"text", b"a song comment\rsecond line"), (b"MIDI", bytes(32)), (b"PNAM", b"pattern zero".ljust(32, b"\0")),
              (b"CNAM", b"chn".ljust(20, b"\0") * 2), (b"CHFX", bytes(8)), (b"FX00", bytes(16))]
    rng.shuffle(blocks)
    blocks.append((b"XTPM", bytes(12)))         # instrument extensions end the block list
    out = base
    for cid, body in blocks:
        out += cid + struct.pack("<I", len(body)) + body
    return out, "xm"


# --------------------------------------------------------------------------
# A module packed k times over in each container that can store data cheaply (k-fold nesting).  The library unpacks one
# level: for k >= 2 what comes out is an archive, not a module.
# --------------------------------------------------------------------------

def nested_set(depths=(1, 2, 3, 10, 100, 1000)):
    import zlib
    import c08_writers as w
    inner = tiny_mod([0], 0)

    def gz(p):
        co = zlib.compressobj(0, zlib.DEFLATED, 31)
        return co.compress(p) + co.flush()

    wrappers = [("mmcmp", lambda p: w.mmcmp_stored(p, block_size=1 << 30)),
                ("gz", gz),
                ("zip", lambda p: w.zip_archive([("m.mod", p, "stored")], method="stored")),
                ("lha", lambda p: w.lha_archive([("m.mod", p)], level=0)),
                ("arc", lambda p: w.arc_archive([("M.MOD", p, 2)]))]
    out = []
    for ext, fn in wrappers:
        data, k = inner, 0
        for d in sorted(depths):
            try:
                while k < d:
                    data = fn(data)
                    k += 1
            except Exception:
                break
            if len(data) > (8 << 20):
                break
            out.append(("nested-%s-x%d.%s" % (ext, d, ext), data, d))
    return out


# --------------------------------------------------------------------------
# Hostile LZW code streams for every LZW width variant (ARC crunch 12 bits, squash 13 bits, Spark / ArcFS compress with a
# maxbits byte of 12 / 13 / 16, compress(1) 9..16 bits): short sequences of 9-bit codes (no width change below ~250 codes)
# that use entries not defined yet, the entry being defined (KwKwK) right after a CLEAR, and codes far above the table —
# the sequences in which a string-table entry can become its own prefix.
# --------------------------------------------------------------------------

def pack9(codes):
    acc = n = 0
    out = bytearray()
    for c in codes:
        acc |= (c & 0x1ff) << n
        n += 9
        while n >= 8:
            out.append(acc & 0xff)
            acc >>= 8
            n -= 8
    if n:
        out.append(acc & 0xff)
    return bytes(out)


def hostile_lzw_sequences(rng, count=24):
    seqs = []
    for b in (257, 258, 259):
        for c in (259, 300, 511):
            for d in (257, 258, 259):
                seqs.append([65, b, c, d] + [d] * 6)
                seqs.append([65, 66, b, 256, c, d, b])
    for _ in range(count):
        free, s = 257, [rng.randrange(256)]
        for _ in range(rng.randrange(3, 200)):
            r = rng.random()
            if r < 0.35:
                c = rng.randrange(256)
            elif r < 0.45:
                c = 256
            elif r < 0.8:
                c = max(257, min(511, free + rng.choice([-3, -2, -1, 0, 0, 1, 2, 5, 40])))
            else:
                c = rng.choice([257, 258, 300, 510, 511])
            s.append(c)
            free = 257 if c == 256 else min(free + 1, 511)
        seqs.append(s)
    return seqs


def hostile_lzw_set(rng):
    """(name, bytes): the sequences above in every container / width variant"""
    import c08_writers as w
    out = []
    fake = bytes(4096)
    for i, seq in enumerate(hostile_lzw_sequences(rng)):
        codes = pack9(seq) + bytes(4)
        out.append(("lzw%03d-crunch12.arc" % i, w.arc_archive([("A.MOD", fake, 8, bytes([12]) + codes)])))
        out.append(("lzw%03d-squash13.arc" % i, w.arc_archive([("A.MOD", fake, 9, codes)])))
        for mb in (12, 13, 16):
            out.append(("lzw%03d-spark%d.arc" % (i, mb), w.arc_archive([("A.MOD", fake, 0x7f, bytes([mb]) + codes)], spark=True)))
            out.append(("lzw%03d-arcfs%d.arcfs" % (i, mb), w.arcfs_archive([("a.mod", fake, 0xff, codes, mb)])))
        out.append(("lzw%03d-arcfs-crunch.arcfs" % i, w.arcfs_archive([("a.mod", fake, 0x88, codes, 12)])))
        for mb in (9, 12, 16):
            out.append(("lzw%03d-z%d.Z" % (i, mb), bytes([0x1f, 0x9d, 0x80 | mb]) + codes))
    return out
