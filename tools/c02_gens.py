#!/usr/bin/env python3
"""Generators for the C02 search that are not in synthmods: modules whose headers
declare far more sample data than the file holds, on the paths that allocate from
the declaration (IT compressed samples)."""
import struct
import synthmods


def gen_it_comp_liar(rng):
    """IT module with an IT2.14-compressed sample declaring up to MAX_SAMPLE_SIZE frames over a few bytes of
    block data: the loader may allocate in proportion to the bytes present, not to the declaration."""
    nsmp = rng.randint(1, 2)
    samples = []
    for i in range(nsmp):
        n = rng.choice([0x00400000, 0x00800000, 0x02000000, 0x08000000, 0x0fffffff, 0x10000000])
        b16 = rng.random() < 0.5
        blocks = bytearray()
        for _ in range(rng.choice([1, 1, 2])):
            ln = rng.choice([2, 16, 60])
            blocks += struct.pack("<H", ln) + bytes(rng.randrange(256) for _ in range(ln))
        flg = 0x08 | rng.choice([0, 0x10])
        samples.append(dict(n=n, c5spd=8363, flg=flg, b16=b16, data=bytes(blocks), lps=0, lpe=n, sus=0, sue=0))
    rows = {0: [(1, 60, 1, None, 0)]}
    data = bytearray(synthmods.it_module(samples, rows, title=b"comp liar"))
    for k in range(nsmp):
        o = 192 + 1 + 4 * nsmp + 4 + 80 * k + 0x2e
        data[o] = rng.choice([1, 1 | 4])
    return bytes(data), "it"


GENS = [synthmods.gen_mmd, gen_it_comp_liar, synthmods.gen_it_compressed, synthmods.gen_mmd, synthmods.gen_dbm, gen_it_comp_liar]


# --------------------------------------------------------------------------
# OctaMED synth instruments: the volume / waveform command tables are little programs
# interpreted once per tick; a cycle made only of jump commands must not hang a frame
# --------------------------------------------------------------------------

JMP_CYCLES = [bytes([0xfe, 0x00]), bytes([0xfe, 0x02, 0xfe, 0x00]), bytes([0xfe, 0x01, 0x00, 0xfe, 0x01]),
              bytes([0xfe, 0x7f]) + bytes(125) + bytes([0xfe, 0x00]), bytes([0xfe, 0x04, 0xff, 0xff, 0xfe, 0x06, 0xfe, 0x04])]


def med_synth_offsets(data):
    """file offsets of the synth/hybrid instrument headers of an MMD0..3 file"""
    if len(data) < 800 or data[:3] != b"MMD" or data[3:4] not in (b"0", b"1", b"2", b"3"):
        return []
    song, smplarr = struct.unpack_from(">I", data, 8)[0], struct.unpack_from(">I", data, 24)[0]
    if song + 788 > len(data) or smplarr == 0:
        return []
    n = data[song + 787]
    out = []
    for i in range(min(n, 63)):
        if smplarr + 4 * i + 4 > len(data):
            break
        ptr = struct.unpack_from(">I", data, smplarr + 4 * i)[0]
        if ptr and ptr + 6 + 16 + 256 <= len(data):
            typ = struct.unpack_from(">h", data, ptr + 4)[0]
            if typ in (-1, -2):
                out.append(ptr)
    return out


def patch_med_jmp(data, rng):
    """overwrite the start of the volume and/or waveform table of every synth instrument with a jump cycle"""
    offs = med_synth_offsets(data)
    if not offs:
        return None
    b = bytearray(data)
    for ptr in offs:
        which = rng.choice(["wf", "vol", "both"])
        for tbl, base in (("vol", ptr + 22), ("wf", ptr + 150)):
            if which in (tbl, "both"):
                cyc = rng.choice(JMP_CYCLES)
                b[base:base + len(cyc)] = cyc
        # table lengths large enough for the program to be read
        struct.pack_into(">HH", b, ptr + 14, max(struct.unpack_from(">H", b, ptr + 14)[0], 8) & 0x7f or 8,
                         max(struct.unpack_from(">H", b, ptr + 16)[0], 8) & 0x7f or 8)
    return bytes(b)


def gen_med_jmp(rng):
    for _ in range(40):
        data, ext = synthmods.gen_mmd(rng)
        p = patch_med_jmp(data, rng)
        if p is not None:
            return p, ext
    raise ValueError("no synth instrument generated")


def patched_corpus_meds(rng, files, dirname, limit):
    """corpus MED files with synth instruments, their tables patched with jump cycles"""
    import os
    out = []
    for f in files:
        try:
            with open(f, "rb") as fh:
                head = fh.read(4)
                if head[:3] != b"MMD":
                    continue
                data = head + fh.read()
        except OSError:
            continue
        p = patch_med_jmp(data, rng)
        if p is None:
            continue
        path = os.path.join(dirname, "medjmp%03d.med" % len(out))
        with open(path, "wb") as fh:
            fh.write(p)
        out.append(path)
        if len(out) >= limit:
            break
    return out


GENS = GENS + [gen_med_jmp, gen_med_jmp]
