#!/usr/bin/env python3
"""Generators for the C02 search that are not in synthmods: modules whose headers
declare far more sample data than the file holds, on the paths that allocate from
the declaration (IT compressed samples)."""
import struct
import synthmods


def gen_it_comp_liar(rng):
    """IT module with an IT2.14-compressed sample declaring up to MAX_SAMPLE_SIZE frames over a few bytes of
    block data: the loader may allocate in proportion to the bytes present, not to the declaration."""
    nsmp = rng.randint(1, 2)
    samples = []
    for i in range(nsmp):
        n = rng.choice([0x00400000, 0x00800000, 0x02000000, 0x08000000, 0x0fffffff, 0x10000000])
        b16 = rng.random() < 0.5
        blocks = bytearray()
        for _ in range(rng.choice([1, 1, 2])):
            ln = rng.choice([2, 16, 60])
            blocks += struct.pack("<H", ln) + bytes(rng.randrange(256) for _ in range(ln))
        flg = 0x08 | rng.choice([0, 0x10])
        samples.append(dict(n=n, c5spd=8363, flg=flg, b16=b16, data=bytes(blocks), lps=0, lpe=n, sus=0, sue=0))
    rows = {0: [(1, 60, 1, None, 0)]}
    data = bytearray(synthmods.it_module(samples, rows, title=b"comp liar"))
    for k in range(nsmp):
        o = 192 + 1 + 4 * nsmp + 4 + 80 * k + 0x2e
        data[o] = rng.choice([1, 1 | 4])
    return bytes(data), "it"


GENS = [synthmods.gen_mmd, gen_it_comp_liar, synthmods.gen_it_compressed, synthmods.gen_mmd, synthmods.gen_dbm, gen_it_comp_liar]


# --------------------------------------------------------------------------
# OctaMED synth instruments: the volume / waveform command tables are little programs
# interpreted once per tick; a cycle made only of jump commands must not hang a frame
# --------------------------------------------------------------------------

JMP_CYCLES = [bytes([0xfe, 0x00]), bytes([0xfe, 0x02, 0xfe, 0x00]), bytes([0xfe, 0x01, 0x00, 0xfe, 0x01]),
              bytes([0xfe, 0x7f]) + bytes(125) + bytes([0xfe, 0x00]), bytes([0xfe, 0x04, 0xff, 0xff, 0xfe, 0x06, 0xfe, 0x04])]


def med_synth_offsets(data):
    """file offsets of the synth/hybrid instrument headers of an MMD0..3 file"""
    if len(data) < 800 or data[:3] != b"MMD" or data[3:4] not in (b"0", b"1", b"2", b"3"):
        return []
    song, smplarr = struct.unpack_from(">I", data, 8)[0], struct.unpack_from(">I", data, 24)[0]
    if song + 788 > len(data) or smplarr == 0:
        return []
    n = data[song + 787]
    out = []
    for i in range(min(n, 63)):
        if smplarr + 4 * i + 4 > len(data):
            break
        ptr = struct.unpack_from(">I", data, smplarr + 4 * i)[0]
        if ptr and ptr + 6 + 16 + 256 <= len(data):
            typ = struct.unpack_from(">h", data, ptr + 4)[0]
            if typ in (-1, -2):
                out.append(ptr)
    return out


def patch_med_jmp(data, rng):
    """overwrite the start of the volume and/or waveform table of every synth instrument with a jump cycle"""
    offs = med_synth_offsets(data)
    if not offs:
        return None
    b = bytearray(data)
    for ptr in offs:
        which = rng.choice(["wf", "vol", "both"])
        for tbl, base in (("vol", ptr + 22), ("wf", ptr + 150)):
            if which in (tbl, "both"):
                cyc = rng.choice(JMP_CYCLES)
                b[base:base + len(cyc)] = cyc
        # table lengths large enough for the program to be read
        struct.pack_into(">HH", b, ptr + 14, max(struct.unpack_from(">H", b, ptr + 14)[0], 8) & 0x7f or 8,
                         max(struct.unpack_from(">H", b, ptr + 16)[0], 8) & 0x7f or 8)
    return bytes(b)


def gen_med_jmp(rng):
    for _ in range(40):
        data, ext = synthmods.gen_mmd(rng)
        p = patch_med_jmp(data, rng)
        if p is not None:
            return p, ext
    raise ValueError("no synth instrument generated")


def patched_corpus_meds(rng, files, dirname, limit):
    """corpus MED files with synth instruments, their tables patched with jump cycles"""
    import os
    out = []
    for f in files:
        try:
            with open(f, "rb") as fh:
                head = fh.read(4)
                if head[:3] != b"MMD":
                    continue
                data = head + fh.read()
        except OSError:
            continue
        p = patch_med_jmp(data, rng)
        if p is None:
            continue
        path = os.path.join(dirname, "medjmp%03d.med" % len(out))
        with open(path, "wb") as fh:
            fh.write(p)
        out.append(path)
        if len(out) >= limit:
            break
    return out


GENS = GENS + [gen_med_jmp, gen_med_jmp]


# --------------------------------------------------------------------------
# chunked (IFF-style) formats: a chunk of unknown id declaring a length near 2^32 / 2^31
# --------------------------------------------------------------------------

# magic -> (offset of the first chunk, id length, size endianness)
CHUNKED = [(b"OKTASONG", 8, 4, ">"), (b"DBM0", 8, 4, ">"), (b"FORM", 12, 4, ">"), (b"DMDL", 5, 2, "<"), (b"D.T.", 0, 4, ">"),
           (b"PSM ", 12, 4, "<"), (b"RIFF", 12, 4, "<"), (b"MUSX", 8, 4, "<"), (b"GDM\xfe", 0, 4, "<")]
HUGE_LEN = [0xfffffff8, 0xffffffff, 0xfffffff0, 0x80000000, 0x7fffffff, 0x7ffffff8, 0xfffffffc]


def chunk_boundaries(data):
    for magic, start, idlen, end in CHUNKED:
        if data.startswith(magic):
            out, pos = [], start
            while pos + idlen + 4 <= len(data) and len(out) < 64:
                size = struct.unpack_from(end + "I", data, pos + idlen)[0]
                out.append(pos)
                nxt = pos + idlen + 4 + size
                if size > len(data) or nxt <= pos:
                    break
                pos = nxt
            return out, idlen, end
    return [], 0, ">"


def chunk_liar(data, rng):
    """insert a chunk with an id no loader registers and a huge declared length at a chunk boundary, or
    rewrite the header of an existing chunk that way"""
    bounds, idlen, end = chunk_boundaries(data)
    if not bounds:
        return None
    pos = rng.choice(bounds)
    cid = rng.choice([b"XXXX", b"ZZZZ", b"junk", b"\0\0\0\0", b"~~~~"])[:idlen]
    hdr = cid + struct.pack(end + "I", rng.choice(HUGE_LEN))
    b = bytearray(data)
    if rng.random() < 0.6:
        b[pos:pos] = hdr + bytes(rng.choice([0, 4, 8]))
    else:
        b[pos:pos + idlen + 4] = hdr
    return bytes(b)


def okt_minimal(rng):
    """a minimal Oktalyzer module written from the format description (one pattern, one sample)"""
    def ch(cid, body):
        return cid + struct.pack(">I", len(body)) + body
    smp = bytes(20) + struct.pack(">IHHHH", 16, 0, 8, 64, 1)          # name, length, repeat, replen, pad+vol, type
    samp = smp + bytes(32 * 35)
    patt = struct.pack(">H", 4) + bytes(4 * 4 * 4)
    data = (b"OKTASONG" + ch(b"CMOD", bytes(8)) + ch(b"SAMP", samp) + ch(b"SPEE", struct.pack(">H", 6)) +
            ch(b"SLEN", struct.pack(">H", 1)) + ch(b"PLEN", struct.pack(">H", 1)) + ch(b"PATT", bytes(128)) +
            ch(b"PBOD", patt) + ch(b"SBOD", bytes(rng.randrange(256) for _ in range(16))))
    return data


def gen_chunk_liar(rng):
    return chunk_liar(okt_minimal(rng), rng), "okt"


def chunk_liars_from_corpus(rng, files, dirname, limit):
    import os
    out = []
    cand = []
    for f in files:
        try:
            if os.path.getsize(f) > 400000:
                continue
            with open(f, "rb") as fh:
                head = fh.read(8)
        except OSError:
            continue
        if any(head.startswith(m[0]) for m in CHUNKED):
            cand.append(f)
    rng.shuffle(cand)
    for f in cand:
        data = open(f, "rb").read()
        p = chunk_liar(data, rng)
        if p is None:
            continue
        path = os.path.join(dirname, "chunkliar%03d%s" % (len(out), os.path.splitext(f)[1][:6] or ".bin"))
        with open(path, "wb") as fh:
            fh.write(p)
        out.append(path)
        if len(out) >= limit:
            break
    return out


# --------------------------------------------------------------------------
# container headers cut short at every byte (optional gzip fields: FEXTRA, FNAME, FCOMMENT, FHCRC)
# --------------------------------------------------------------------------

def gz_variants(payload):
    import zlib
    co = zlib.compressobj(6, zlib.DEFLATED, -15)
    body = co.compress(payload) + co.flush()
    trailer = struct.pack("<II", zlib.crc32(payload) & 0xffffffff, len(payload) & 0xffffffff)
    out = []
    for flg in (0x00, 0x04, 0x08, 0x10, 0x18, 0x1c, 0x02, 0x1e):
        h = bytearray(b"\x1f\x8b\x08" + bytes([flg]) + bytes(4) + b"\x00\x03")
        if flg & 0x04:
            h += struct.pack("<H", 6) + b"ab\x02\x00xy"
        if flg & 0x08:
            h += b"song.mod\0"
        if flg & 0x10:
            h += b"a comment of some length\0"
        hdr_len = len(h) + (2 if flg & 0x02 else 0)
        if flg & 0x02:
            h += struct.pack("<H", zlib.crc32(bytes(h)) & 0xffff)
        out.append((bytes(h) + body + trailer, hdr_len))
    return out


def header_cuts(rng, dirname, packed_files, limit):
    """gzip files with every optional header field, cut at every byte of the header; and the first bytes of
    packed corpus files cut likewise"""
    import os
    out = []
    mod = synthmods.gen_mod(rng)[0][:3000]
    for data, hl in gz_variants(mod):
        cuts = list(range(10, hl + 3))
        rng.shuffle(cuts)
        for c in cuts[:max(2, limit // 16)]:
            path = os.path.join(dirname, "gzcut%03d.gz" % len(out))
            with open(path, "wb") as fh:
                fh.write(data[:c])
            out.append(path)
    pf = [f for f in packed_files if os.path.getsize(f) < 200000]
    rng.shuffle(pf)
    for f in pf[:max(2, limit // 8)]:
        data = open(f, "rb").read()
        for c in rng.sample(range(1, min(len(data), 96)), min(4, max(1, min(len(data), 96) - 1))):
            path = os.path.join(dirname, "hdrcut%03d%s" % (len(out), os.path.splitext(f)[1][:6] or ".bin"))
            with open(path, "wb") as fh:
                fh.write(data[:c])
            out.append(path)
    return out


GENS = GENS + [gen_chunk_liar]
