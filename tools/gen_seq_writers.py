#!/usr/bin/env python3
"""Translator: who writes the sequencer kernel? -> lean/XmpModel/Gen/SeqWriters.lean

For every src/*.c of the libxmp working tree (macro-expanded with `gcc -E`, restricted to the
text of the file itself) every statement is listed that

  * assigns / increments / compound-assigns one of the kernel fields of `struct player_data`
    (p->ord,row,pos,frame,speed,bpm,loop_count,current_time,frame_time) through any variable
    declared `struct player_data *`, through `ctx->p.` or `(*p).`;
  * does the same to any member of the player's `struct flow_control` (through a
    `struct flow_control *` variable, `p->flow.`, `ctx->p.flow.`), including array members;
  * takes the address of such an lvalue (`&f->loop_count`) or hands the structure to
    memset/memcpy — listed as potential writes (kind `addr` / `memset`);

each with file and enclosing function.  In addition the set of functions reachable from
`libxmp_mixer_softmixer` over direct calls (identifier followed by `(`, matched against the
functions defined in src/*.c) is emitted.  The theorems over these lists live in
XmpProofs/Downmix.lean and are phrased over classes (file class, reachability), never over
counts, line numbers or statement text.
"""
import os
import re
import subprocess
import sys

sys.path.insert(0, os.path.dirname(os.path.abspath(__file__)))
import vlib  # noqa: E402

KERNEL_FIELDS = ["ord", "row", "pos", "frame", "speed", "bpm", "loop_count", "current_time", "frame_time"]
ROOT = "libxmp_mixer_softmixer"


def strip_comments_and_strings(t):
    t = re.sub(r"/\*.*?\*/", lambda m: re.sub(r"[^\n]", " ", m.group(0)), t, flags=re.S)
    t = re.sub(r"//[^\n]*", " ", t)
    t = re.sub(r'"(?:\\.|[^"\\\n])*"', '""', t)
    t = re.sub(r"'(?:\\.|[^'\\\n])'", "' '", t)
    return t


def expand(repo, path):
    """Macro-expanded text of the file itself (without the text of its includes).
    Falls back to the raw text when preprocessing fails."""
    src = os.path.join(repo, "src")
    cmd = ["gcc", "-E", "-DLIBXMP_VERIF", "-I" + os.path.join(repo, "include"), "-I" + src,
           "-I" + os.path.join(src, "loaders"), path]
    r = subprocess.run(cmd, stdout=subprocess.PIPE, stderr=subprocess.PIPE)
    if r.returncode != 0:
        return strip_comments_and_strings(open(path, errors="replace").read()), False
    out, keep = [], False
    me = os.path.abspath(path)
    for line in r.stdout.decode("utf-8", "replace").split("\n"):
        m = re.match(r'#\s*(?:line\s+)?\d+\s+"([^"]*)"', line)
        if m:
            keep = os.path.abspath(os.path.join(src, m.group(1))) == me or os.path.abspath(m.group(1)) == me
            continue
        if keep:
            out.append(line)
    return strip_comments_and_strings("\n".join(out)), True


_KEYWORDS = {"if", "for", "while", "switch", "return", "sizeof", "do", "else", "case", "defined"}


def functions(text):
    """Yield (name, header, body) of every function definition (brace matching at top level)."""
    i, n, depth = 0, len(text), 0
    last_stmt_end = 0
    res = []
    while i < n:
        c = text[i]
        if c == "{":
            if depth == 0:
                head = text[last_stmt_end:i]
                m = re.search(r"([A-Za-z_]\w*)\s*\(([^{};]*)\)\s*(?:__attribute__\s*\(\(.*?\)\)\s*)?$", head, re.S)
                j, d = i + 1, 1
                while j < n and d:
                    if text[j] == "{":
                        d += 1
                    elif text[j] == "}":
                        d -= 1
                    j += 1
                if m and m.group(1) not in _KEYWORDS and "=" not in head.split("(")[0]:
                    res.append((m.group(1), m.group(2), text[i + 1:j - 1]))
                i = j
                last_stmt_end = i
                continue
            depth += 1
        elif c == "}":
            depth = max(0, depth - 1)
            if depth == 0:
                last_stmt_end = i + 1
        elif c == ";" and depth == 0:
            last_stmt_end = i + 1
        i += 1
    return res


ASSIGN_AFTER = r"\s*\)*\s*(?:=(?!=)|\+=|-=|\*=|/=|%=|&=|\|=|\^=|<<=|>>=|\+\+|--)"
TAIL = r"(?:\s*\[[^\]]*\]|\s*\.\s*\w+|\s*->\s*\w+)*"


def scan_function(fname, func, header, body):
    found = []
    scope = header + ";" + body
    pvars = set(re.findall(r"struct\s+player_data\s*\*\s*(?:const\s+)?(\w+)", scope))
    fvars = set(re.findall(r"struct\s+flow_control\s*\*\s*(?:const\s+)?(\w+)", scope))
    # pointers derived from flow members ( int *count = &f->loop_count; ) are caught as `addr`
    pd_prefix = [r"\bctx\s*->\s*p\s*\.\s*"] + [r"\b%s\s*->\s*" % v for v in pvars] + [r"\(\s*\*\s*%s\s*\)\s*\.\s*" % v for v in pvars]
    fl_prefix = [p + r"flow\s*\.\s*" for p in pd_prefix] + [r"\b%s\s*->\s*" % v for v in fvars]
    lvals = []
    for pre in pd_prefix:
        lvals.append((pre + r"(?P<f>%s)\b(?!\s*\.)" % "|".join(KERNEL_FIELDS), "p."))
    for pre in fl_prefix:
        lvals.append((pre + r"(?P<f>\w+)" + TAIL, "flow."))

    def add(field, kind):
        found.append((fname, func, field, kind))

    for lv, tag in lvals:
        rx = r"(?P<amp>&\s*\(*\s*)?(?P<pre>(?:\+\+|--)\s*\(*\s*)?" + lv + r"(?P<post>" + ASSIGN_AFTER + r")?"
        for m in re.finditer(rx, body):
            field = tag + m.group("f")
            if m.group("post"):
                op = m.group("post").strip(" )\t\n")
                add(field, "incdec" if op in ("++", "--") else "assign")
            elif m.group("pre"):
                add(field, "incdec")
            elif m.group("amp"):
                # unary & only: the previous significant character is not the end of an operand
                k = m.start() - 1
                while k >= 0 and body[k] in " \t\n":
                    k -= 1
                if k < 0 or not (body[k].isalnum() or body[k] in "_)]&"):
                    add(field, "addr")
    # whole-structure writes
    for v in sorted(fvars):
        if re.search(r"\bmem(?:set|cpy|move)\s*\(\s*%s\s*," % v, body) or re.search(r"(?:^|[;{}])\s*\*\s*%s\s*=(?!=)" % v, body):
            add("flow.*", "memset")
    for pre in pd_prefix:
        if re.search(r"\bmem(?:set|cpy|move)\s*\(\s*&\s*" + pre + r"flow\b", body):
            add("flow.*", "memset")
        if re.search(pre + r"flow\s*=(?!=)", body):
            add("flow.*", "assign")
    for v in sorted(pvars):
        if re.search(r"\bmem(?:set|cpy|move)\s*\(\s*%s\s*," % v, body) or re.search(r"(?:^|[;{}])\s*\*\s*%s\s*=(?!=)" % v, body):
            add("p.*", "memset")
    if re.search(r"\bmem(?:set|cpy|move)\s*\(\s*&\s*ctx\s*->\s*p\s*,", body):
        add("p.*", "memset")
    return found


def lean_str(s):
    return '"' + s.replace("\\", "\\\\").replace('"', '\\"') + '"'


def generate(repo=None):
    repo = repo or vlib.REPO
    src = os.path.join(repo, "src")
    files = sorted(f for f in os.listdir(src) if f.endswith(".c"))
    writers, defined, calls, unexpanded = [], {}, {}, []
    for fn in files:
        text, ok = expand(repo, os.path.join(src, fn))
        if not ok:
            unexpanded.append(fn)
        for name, header, body in functions(text):
            defined.setdefault(name, fn)
            calls.setdefault(name, set()).update(re.findall(r"\b([A-Za-z_]\w*)\s*\(", body))
            writers += scan_function(fn, name, header, body)
    # de-duplicate (file, func, field, kind), keep order stable
    seen, uniq = set(), []
    for w in writers:
        if w not in seen:
            seen.add(w)
            uniq.append(w)
    uniq.sort()
    # reachability from the soft mixer over direct calls
    reach, todo = set(), [ROOT]
    while todo:
        f = todo.pop()
        if f in reach or f not in defined:
            continue
        reach.add(f)
        todo += [c for c in calls.get(f, ()) if c in defined and c not in reach]
    reach = sorted(reach)
    out = ["/-! GENERATED by tools/gen_seq_writers.py from src/*.c of the libxmp working tree — do not edit.",
           "Every statement that may write a sequencer-kernel field, with file and function, and the",
           "functions reachable from `libxmp_mixer_softmixer` over direct calls. -/",
           "namespace Xmp.Gen.SeqWriters", "",
           "structure Writer where", "  file : String", "  func : String", "  field : String", "  kind : String",
           "deriving Repr", "",
           "/-- kernel fields of `struct player_data` that are tracked (plus every member of `flow`) -/",
           "def kernelFields : List String := [%s]" % ", ".join(lean_str(f) for f in KERNEL_FIELDS), "",
           "/-- all `src/*.c` files scanned -/",
           "def scannedFiles : List String := [%s]" % ", ".join(lean_str(f) for f in files), "",
           "def writers : List Writer := ["]
    out += ["  ⟨%s, %s, %s, %s⟩%s" % (lean_str(a), lean_str(b), lean_str(c), lean_str(d), "," if i + 1 < len(uniq) else "")
            for i, (a, b, c, d) in enumerate(uniq)]
    out += ["]", "",
            "/-- functions reachable from `libxmp_mixer_softmixer` by direct calls, with their file -/",
            "def softmixerReach : List (String × String) := ["]
    out += ["  (%s, %s)%s" % (lean_str(defined[f]), lean_str(f), "," if i + 1 < len(reach) else "") for i, f in enumerate(reach)]
    out += ["]", "", "end Xmp.Gen.SeqWriters", ""]
    path = os.path.join(vlib.LEAN, "XmpModel", "Gen", "SeqWriters.lean")
    changed = vlib.write_if_changed(path, "\n".join(out))
    return dict(writers=uniq, reach=[(defined[f], f) for f in reach], files=files, unexpanded=unexpanded,
                changed=changed, path=path)


if __name__ == "__main__":
    r = generate()
    from collections import Counter
    print("writers:", len(r["writers"]), Counter(w[0] for w in r["writers"]))
    print("reach:", len(r["reach"]), Counter(f for f, _ in r["reach"]))
    print("unexpanded:", r["unexpanded"])
    for w in r["writers"]:
        if "-v" in sys.argv:
            print(w)
