#!/usr/bin/env python3
"""Translator for C06: the leaf fields of `struct context_data` (and of the two
records it owns through pointers, `struct channel_data` and `struct mixer_voice`)
taken from the real headers of /repo's working tree with
`clang-14 -Xclang -fdump-record-layouts`.

Writes
  lean/XmpModel/Gen/CtxFields.lean   inductive `Field` (one constructor per leaf of context_data),
                                     `Field.all`, `Field.path`, `Field.kind`, `Field.count`,
                                     plus the leaf paths of channel_data / mixer_voice
  harness/c06_ctxfields.h            the same list as C tables (offset, element size, count, stride)
                                     used by harness/c06_reset.c to compare the whole image

A new member of any of these structs therefore shows up as a new constructor: the
hand-written classification `Xmp.Reset.cls` (a total `match`) stops compiling until the
field is classified, and the harness compares it from then on.
"""
import os
import re
import sys

sys.path.insert(0, os.path.dirname(os.path.abspath(__file__)))
import vlib  # noqa: E402

PROBE = r"""
#include "common.h"
#include "player.h"
#include "mixer.h"
#include "virtual.h"
struct context_data *c06_anchor;
unsigned long c06_sz = sizeof(struct context_data) + sizeof(struct channel_data) + sizeof(struct mixer_voice)
  + sizeof(struct pattern_loop) + sizeof(struct virt_channel) + sizeof(struct scan_data) + sizeof(struct extra_sample_data)
  + sizeof(struct midi_macro_data);
"""

CONSTS = ["XMP_STATE_UNLOADED", "XMP_STATE_LOADED", "XMP_STATE_PLAYING", "SMIX_NUMVOC", "DEFAULT_AMPLIFY", "DEFAULT_MIX",
          "XMP_INTERP_LINEAR", "XMP_DSP_LOWPASS", "C4_PAL_RATE", "QUIRK_VIRTUAL", "FLOW_MODE_GENERIC", "READ_EVENT_MOD",
          "PERIOD_AMIGA", "XMP_MODE_AUTO", "XMP_CHANNEL_MUTE", "XMP_MAX_CHANNELS", "XMP_MAX_MOD_LENGTH", "MAX_SAMPLES",
          "XMP_MIN_BPM", "XMP_MIN_SRATE", "XMP_MAX_SRATE", "MAX_SEQUENCES"]
FCONSTS = ["PAL_RATE", "DEFAULT_TIME_FACTOR"]      # doubles, emitted in 1/1000 units


def constants():
    """Values of the macros the model mentions, by compiling and running a probe against the real headers."""
    src = os.path.join(vlib.OUT, "c06_const_probe.c")
    exe = os.path.join(vlib.OUT, "c06_const_probe")
    body = ['#include <stdio.h>', '#include "common.h"', '#include "player.h"', '#include "mixer.h"', '#include "virtual.h"',
            'int main(void){']
    for c in CONSTS:
        body.append('printf("%s %%lld\\n", (long long)(%s));' % (c, c))
    for c in FCONSTS:
        body.append('printf("%s %%lld\\n", (long long)((%s) * 1000.0 + 0.5));' % (c, c))
    body.append('return 0;}')
    open(src, "w").write("\n".join(body) + "\n")
    rc, out = vlib.sh(["clang-14", "-DHAVE_CONFIG_H=0", "-D" + vlib.GUARD, "-I" + os.path.join(vlib.REPO, "include"),
                       "-I" + os.path.join(vlib.REPO, "src"), src, "-o", exe])
    if rc != 0:
        raise vlib.InfraError("constant probe failed to compile:\n" + out[-2000:])
    rc, out = vlib.sh([exe])
    if rc != 0:
        raise vlib.InfraError("constant probe failed")
    return [tuple(l.split()) for l in out.splitlines() if l.strip()]


INT_TYPES = {
    "int": ("int", 4), "unsigned int": ("uint", 4), "unsigned": ("uint", 4), "int32": ("int", 4), "uint32": ("uint", 4),
    "short": ("int", 2), "unsigned short": ("uint", 2), "int16": ("int", 2), "uint16": ("uint", 2),
    "char": ("int", 1), "signed char": ("int", 1), "unsigned char": ("uint", 1), "int8": ("int", 1), "uint8": ("uint", 1),
    "long": ("int", 8), "unsigned long": ("uint", 8), "long long": ("int", 8), "unsigned long long": ("uint", 8),
    "double": ("f64", 8), "float": ("f32", 4),
}


def record_layouts():
    src = os.path.join(vlib.OUT, "c06_layout_probe.c")
    os.makedirs(vlib.OUT, exist_ok=True)
    open(src, "w").write(PROBE)
    cmd = ["clang-14", "-fsyntax-only", "-Xclang", "-fdump-record-layouts", "-DHAVE_CONFIG_H=0", "-D" + vlib.GUARD,
           "-I" + os.path.join(vlib.REPO, "include"), "-I" + os.path.join(vlib.REPO, "src"), src]
    rc, out = vlib.sh(cmd)
    if rc != 0:
        raise vlib.InfraError("record layout dump failed:\n" + out[-2000:])
    recs = {}
    cur = None
    for line in out.splitlines():
        if line.startswith("*** Dumping AST Record Layout"):
            cur = None
            continue
        m = re.match(r"\s*(\d+)?\s*\|\s(\s*)(.*)$", line)
        if not m:
            continue
        off, ind, body = m.group(1), len(m.group(2)), m.group(3).rstrip()
        if body.startswith("[sizeof="):
            if cur is not None:
                recs[cur]["size"] = int(re.match(r"\[sizeof=(\d+)", body).group(1))
            cur = None
            continue
        if off is None:
            continue
        if ind == 0:
            cur = body
            recs[cur] = {"lines": [], "size": 0}
            continue
        if cur is None:
            continue
        # "<type> <name>"; the name is the last token
        mm = re.match(r"(.*\S)\s+(\w+)$", body)
        if not mm:
            continue
        recs[cur]["lines"].append((ind // 2, int(off), mm.group(1).strip(), mm.group(2)))
    return recs


def leaves(recs, rec, prefix="", base=0, stride_chain=()):
    """Yield leaf dicts for record `rec`.  Arrays of scalars are one leaf with
    count>1; arrays of structs are expanded member-wise (`xxc[].pan`, stride = sizeof element)."""
    lines = recs[rec]["lines"]
    out = []
    n = len(lines)
    path_stack = []
    i = 0
    while i < n:
        depth, off, typ, name = lines[i]
        path_stack = path_stack[:depth - 1]
        has_children = i + 1 < n and lines[i + 1][0] > depth
        full = prefix + ".".join(path_stack + [name])
        if has_children:
            path_stack.append(name)
            i += 1
            continue
        am = re.match(r"(.*?)\s*((?:\[\d+\])+)$", typ)
        count = 1
        elem = typ
        if am:
            elem = am.group(1).strip()
            for d in re.findall(r"\[(\d+)\]", am.group(2)):
                count *= int(d)
        if "*" in elem:
            out.append(dict(path=full, kind="ptr", esize=8, count=count, off=base + off, stride=8, ctype=typ, outer=stride_chain))
        elif elem in INT_TYPES:
            k, sz = INT_TYPES[elem]
            out.append(dict(path=full, kind=k, esize=sz, count=count, off=base + off, stride=sz, ctype=typ, outer=stride_chain))
        elif elem in recs:
            if stride_chain:
                raise vlib.InfraError("nested array of struct inside array of struct at %s: extend gen_ctx_fields.py" % full)
            for lf in leaves(recs, elem, prefix=full + "[].", base=base + off, stride_chain=((count, recs[elem]["size"]),)):
                out.append(lf)
        else:
            raise vlib.InfraError("unknown member type %r of %s" % (typ, full))
        i += 1
    return out


def ctor(path):
    return re.sub(r"[^A-Za-z0-9]+", "_", path.replace("[]", "")).strip("_")


def generate():
    recs = record_layouts()
    for need in ("struct context_data", "struct channel_data", "struct mixer_voice"):
        if need not in recs:
            raise vlib.InfraError("record %s not found in layout dump" % need)
    ctx = leaves(recs, "struct context_data")
    chd = leaves(recs, "struct channel_data")
    vox = leaves(recs, "struct mixer_voice")
    names = [ctor(l["path"]) for l in ctx]
    if len(set(names)) != len(names):
        raise vlib.InfraError("constructor name collision in context_data leaves")

    def total(l):
        c = l["count"]
        for (n, _s) in l["outer"]:
            c *= n
        return c

    L = []
    L.append("/-! GENERATED by tools/gen_ctx_fields.py from /repo/src/{common,player,mixer,virtual}.h and include/xmp.h")
    L.append("    (clang-14 -Xclang -fdump-record-layouts).  Do not edit.  One constructor per leaf member of")
    L.append("    `struct context_data`; arrays of scalars are one leaf, arrays of structs one leaf per member. -/")
    L.append("namespace Xmp.Gen.CtxFields")
    L.append("")
    L.append("inductive Kind | int | uint | f64 | f32 | ptr")
    L.append("  deriving DecidableEq, Repr")
    L.append("")
    L.append("inductive Field")
    for nme in names:
        L.append("  | %s" % nme)
    L.append("  deriving DecidableEq, Repr")
    L.append("")
    L.append("def Field.all : List Field := [")
    L.append(",\n".join("  .%s" % nme for nme in names))
    L.append("]")
    L.append("")
    L.append("def Field.path : Field → String")
    for nme, l in zip(names, ctx):
        L.append("  | .%s => \"%s\"" % (nme, l["path"]))
    L.append("")
    L.append("/-- constructor name as printed by the harness -/")
    L.append("def Field.name : Field → String")
    for nme in names:
        L.append("  | .%s => \"%s\"" % (nme, nme))
    L.append("")
    L.append("/-- position in `Field.all` -/")
    L.append("def Field.idx : Field → Nat")
    for k, nme in enumerate(names):
        L.append("  | .%s => %d" % (nme, k))
    L.append("")
    L.append("def Field.kind : Field → Kind")
    for nme, l in zip(names, ctx):
        L.append("  | .%s => .%s" % (nme, l["kind"]))
    L.append("")
    L.append("/-- number of elements (1 for a scalar member) -/")
    L.append("def Field.count : Field → Nat")
    for nme, l in zip(names, ctx):
        L.append("  | .%s => %d" % (nme, total(l)))
    L.append("")
    L.append("/-- leaves of `struct channel_data` (pointee of `p.xc_data`) as (path, isPointer) -/")
    L.append("def channelData : List (String × Bool) := [")
    L.append(",\n".join("  (\"%s\", %s)" % (l["path"], "true" if l["kind"] == "ptr" else "false") for l in chd))
    L.append("]")
    L.append("")
    L.append("/-- leaves of `struct mixer_voice` (pointee of `p.virt.voice_array`) as (path, isPointer) -/")
    L.append("def mixerVoice : List (String × Bool) := [")
    L.append(",\n".join("  (\"%s\", %s)" % (l["path"], "true" if l["kind"] == "ptr" else "false") for l in vox))
    L.append("]")
    L.append("")
    L.append("-- macro values of the working tree headers (doubles in 1/1000 units)")
    L.append("namespace K")
    for (k, v) in constants():
        L.append("def %s : Int := %s" % (k, v))
    L.append("end K")
    L.append("")
    L.append("end Xmp.Gen.CtxFields")
    lean_changed = vlib.write_if_changed(os.path.join(vlib.LEAN, "XmpModel", "Gen", "CtxFields.lean"), "\n".join(L) + "\n")

    H = []
    H.append("/* GENERATED by tools/gen_ctx_fields.py -- do not edit. */")
    H.append("#ifndef C06_CTXFIELDS_H")
    H.append("#define C06_CTXFIELDS_H")
    H.append("enum c06_kind { K_INT, K_UINT, K_F64, K_F32, K_PTR };")
    H.append("struct c06_leaf { const char *path; const char *ctor; int kind; int esize; int count; long off; int outer_n; int outer_stride; };")

    def table(nm, ls):
        H.append("static const struct c06_leaf %s[] = {" % nm)
        for l in ls:
            on, os_ = (l["outer"][0] if l["outer"] else (1, 0))
            H.append("\t{ \"%s\", \"%s\", K_%s, %d, %d, %d, %d, %d }," % (
                l["path"], ctor(l["path"]), l["kind"].upper(), l["esize"], l["count"], l["off"], on, os_))
        H.append("\t{ 0, 0, 0, 0, 0, 0, 0, 0 }")
        H.append("};")
    table("c06_ctx_leaves", ctx)
    table("c06_chn_leaves", chd)
    table("c06_voice_leaves", vox)
    for r, mac in (("struct context_data", "CTX"), ("struct channel_data", "CHN"), ("struct mixer_voice", "VOICE")):
        H.append("#define C06_SIZEOF_%s %d" % (mac, recs[r]["size"]))
    H.append("#endif")
    vlib.write_if_changed(os.path.join(vlib.HARNESS, "c06_ctxfields.h"), "\n".join(H) + "\n")
    return dict(ctx=ctx, chn=chd, voice=vox, lean_changed=lean_changed)


if __name__ == "__main__":
    r = generate()
    print("context_data leaves: %d, channel_data: %d, mixer_voice: %d" % (len(r["ctx"]), len(r["chn"]), len(r["voice"])))
