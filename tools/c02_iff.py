#!/usr/bin/env python3
"""C02 — correspondence and direct oracle for the IFF chunk walker (src/loaders/iff.c).

Generated chunked files (declared lengths honest or taken from a boundary list around 0, 2^23, 2^31 and 2^32, every
flag combination, 4- and 2-byte ids, registered loaders that succeed / fail / read past the chunk / rewind the stream,
stray bytes at the end, start offsets) are walked by the real `libxmp_iff_load` on a memory handle and on a FILE
handle (harness/c02_iff.c: iff.c compiled with recording hio wrappers) and by the Lean model
`Xmp.Iff.iffLoad` (lean/Drv/C02.lean).  Compared per case: return value, number of loop tests, and for every chunk
the body position, id, size handed to the loader, seek target.  Oracle on the real code alone: the number of loop
tests is at most (|file| - start) / (id_size + 4) + 1 and chunk positions strictly increase (no hang: timeout)."""
import os
import re
import struct
import vlib

BOUNDARY = [0, 1, 2, 3, 4, 5, 7, 8, 9, 11, 12, 13, 0x7ffffe, 0x7fffff, 0x800000, 0x800001, 0x800008, 0x800009, 0x80000c,
            0x7ffffff0, 0x7ffffff7, 0x7ffffff8, 0x7ffffffe, 0x7fffffff, 0x80000000, 0x80000001, 0x80000008,
            0xfffffff0, 0xfffffff4, 0xfffffff7, 0xfffffff8, 0xfffffff9, 0xfffffffb, 0xfffffffc, 0xfffffffd, 0xfffffffe,
            0xffffffff]
IDS4 = [b"AAAA", b"BODY", b"FAIL", b"READ", b"SEEK", b"PTDT", b"RIFF", b"XXXX", b"AA\0\0", b"\0\0\0\0"]
IDS2 = [b"AA", b"FA", b"RE", b"SE", b"XX", b"RI", b"PT"]
CODES = {b"FAIL": 1, b"READ": 2, b"SEEK": 3, b"FA": 1, b"RE": 2, b"SE": 3}


def handlers_for(rng, ids):
    pool = [i for i in ids if i not in (b"XXXX", b"XX")]
    rng.shuffle(pool)
    chosen = pool[:rng.randrange(0, len(pool) + 1)]
    return chosen


def handlers_text(hs):
    if not hs:
        return "-"
    return ",".join("%s:%d" % (h.hex(), CODES.get(h, 0)) for h in hs)


def size_field(flags, v):
    return struct.pack("<I" if flags & 1 else ">I", v & 0xffffffff)


def gen_file(rng, id_size, flags):
    ids = IDS4 if id_size == 4 else IDS2
    out = bytearray(rng.randbytes(rng.choice([0, 0, 0, 4, 12])))
    start = len(out)
    for _ in range(rng.randrange(0, 7)):
        cid = rng.choice(ids)
        body = rng.randbytes(rng.choice([0, 1, 2, 3, 4, 6, 8, 13, 24]))
        if cid[:4] == b"RIFF" and flags & 16 and rng.random() < 0.7:
            # embedded RIFF: 8 bytes of header, then the real chunk id follows
            out += cid + rng.randbytes(8)
            cid = rng.choice(ids)
        honest = len(body) + (id_size + 4 if flags & 2 and cid[:4] != b"PTDT" else 0)
        r = rng.random()
        if r < 0.55:
            v = honest
        elif r < 0.9:
            v = rng.choice(BOUNDARY)
        else:
            v = (honest + rng.choice([-9, -8, -5, -4, -3, -2, -1, 1, 2, 3, 4, 5, 8, 100, 1000])) & 0xffffffff
        out += cid + size_field(flags, v) + body
        if flags & 4 and len(body) & 1 and rng.random() < 0.8:
            out += b"\0"
        if flags & 8 and len(body) & 3 and rng.random() < 0.8:
            out += bytes(-len(body) & 3)
    out += rng.randbytes(rng.choice([0, 0, 0, 1, 2, 3, 4, 5, 6, 7, 9, 11]))
    if rng.random() < 0.1:
        start = rng.choice([0, 1, 3, len(out), len(out) + 5, max(0, len(out) - 3)])
    elif rng.random() < 0.5:
        start = 0
    return bytes(out), start


def case_line(id_size, flags, clamp, start, hs, data):
    return "iff %d %d %d %d %s %s" % (id_size, flags, clamp, start, handlers_text(hs), data.hex() if data else "-")


def gen_cases(rng, count):
    cases = []
    # systematic part: every flag combination x every boundary size, one liar chunk followed by an honest one
    for flags in range(32):
        for v in BOUNDARY:
            for cid in (b"AAAA", b"XXXX"):
                data = cid + size_field(flags, v) + b"0123456789ab" + b"BODY" + size_field(flags, 4 + (8 if flags & 2 else 0)) + b"wxyz"
                cases.append((4, flags, (flags + v) & 1, 0, [b"AAAA", b"BODY"], data))
    while len(cases) < count:
        id_size = 2 if rng.random() < 0.2 else 4
        flags = rng.randrange(64)
        data, start = gen_file(rng, id_size, flags)
        if not data:
            data = b"\0"
        hs = handlers_for(rng, IDS4 if id_size == 4 else IDS2)
        cases.append((id_size, flags, rng.randrange(2), start, hs, data))
    return cases


def strip_bound(line):
    return re.sub(r" bound \d+", "", line)


def check_real_line(line, id_size, start, n):
    """the property on the real walker's own trace: loop tests bounded, chunk positions strictly increasing by >= one header"""
    m = re.match(r"ret (-?\d+) tests (\d+)(.*)$", line)
    if not m:
        return "unparsable harness line"
    tests = int(m.group(2))
    bound = max(0, n - start) // (id_size + 4) + 1
    if tests > bound:
        return "%d loop tests for %d bytes (bound %d)" % (tests, n, bound)
    pos = [int(x) for x in re.findall(r" T(\d+):", m.group(3))]
    last = start
    for p in pos:
        if p < last + id_size + 4:
            return "chunk body at %d after position %d: less than one header of progress" % (p, last)
        last = p
    return None


def run(ck, quick):
    exe = vlib.build_harness("c02_iff", ["c02_iff.c"])
    scratch = os.path.join(vlib.OUT, "c02", "iff-%d" % ck.seed)
    os.makedirs(scratch, exist_ok=True)
    import random
    rng = random.Random(ck.seed * 9176 + 29)
    cases = gen_cases(rng, 6000 if quick else 60000)
    text = "\n".join(case_line(*c) for c in cases) + "\n"
    rc, out, err = vlib.run_exe(exe, [scratch], input_bytes=text.encode(), timeout=120 if quick else 1200)
    real = out.decode("latin-1").splitlines()
    if rc != 0:
        hang = rc == -999
        k = len(real)
        bad = cases[k] if k < len(cases) else None
        ck.violation("iff:" + ("hang" if hang else vlib.sanitizer_signature(err)),
                     {"kind": "iff", "line": case_line(*bad) if bad else "", "stderr": err[-1500:]},
                     "the chunk walker %s on a generated chunked file" % ("did not return" if hang else "aborted under the sanitizers"))
        return
    model = vlib.run_driver("drv_c02", text)
    if len(real) != len(cases) or len(model) != len(cases):
        ck.unproved("correspondence iff", "line counts differ: %d cases, %d harness, %d driver" % (len(cases), len(real), len(model)))
        return
    flagsets, nontriv, agree, visited, worst = set(), 0, 0, 0, 0
    for c, r, m in zip(cases, real, model):
        id_size, flags, clamp, start, hs, data = c
        key = "iff:%d:%d:%d:%d:%s:%s" % (id_size, flags, clamp, start, handlers_text(hs), data.hex())
        nchunks = r.count(" T")
        ck.count(key, nontrivial=nchunks > 0)
        flagsets.add((id_size, flags & 31, clamp))
        visited += nchunks
        mt = re.match(r"ret \S+ tests (\d+)", r)
        if mt:
            worst = max(worst, int(mt.group(1)))
        why = check_real_line(r, id_size, start, len(data)) if r != "noopen" else None
        if why:
            ck.violation("iff:progress", {"kind": "iff", "line": case_line(*c), "real": r}, why)
            continue
        if r == "noopen":
            continue
        if strip_bound(m) != r:
            ck.unproved("correspondence iff", "case `%s`: real `%s` model `%s`" % (case_line(*c)[:300], r[:300], m[:300]))
            continue
        agree += 1
        ck.cov["traces_validated_against_impl"] += 1
    ck.note("iff_cases", len(cases))
    ck.note("iff_agree", agree)
    ck.note("iff_chunks_visited", visited)
    ck.note("iff_configs_hit", len(flagsets))
    ck.note("iff_max_loop_tests", worst)
    ck.sample({"iff case": case_line(*cases[len(cases) // 2])[:200], "real": real[len(cases) // 2][:200]})


def replay(ck, r):
    exe = vlib.build_harness("c02_iff", ["c02_iff.c"])
    scratch = os.path.join(vlib.OUT, "c02")
    os.makedirs(scratch, exist_ok=True)
    rc, out, err = vlib.run_exe(exe, [scratch], input_bytes=(r["line"] + "\n").encode(), timeout=60)
    print("real :", out.decode("latin-1").strip())
    try:
        print("model:", "\n".join(vlib.run_driver("drv_c02", r["line"] + "\n")))
    except vlib.InfraError as ex:
        print("model: driver not available (%s)" % ex)
    print(err[-1500:])
    return 0 if rc == 0 else 1


# --------------------------------------------------------------------------------------------------------------
# UMX name-table walk (read_typname of umx_load.c): real (memory and FILE handles) vs Xmp.Umx.readTypname
# --------------------------------------------------------------------------------------------------------------

LEN_BYTES = [0x00, 0x01, 0x02, 0x03, 0x05, 0x10, 0x3e, 0x3f, 0x40, 0x7f, 0x80, 0x81, 0xfa, 0xfb, 0xfc, 0xfe, 0xff]
IDX_VALUES = [0, 1, 2, 3, 4, 7, 50, 1000, 100000]


def umx_table(rng, ver):
    """a name table: entries with honest or boundary length bytes (version >= 64) / NUL terminators (older), random tail"""
    out = bytearray()
    for _ in range(rng.randrange(0, 8)):
        name = bytes(rng.choice(b"abcdefgXYZ019_") for _ in range(rng.choice([0, 1, 2, 3, 5, 8, 20, 62, 70])))
        if ver >= 64:
            ln = len(name) + 1 if rng.random() < 0.6 else rng.choice(LEN_BYTES)
            out += bytes([ln & 0xff]) + name + b"\0" + rng.randbytes(4)
        else:
            out += name + (b"\0" if rng.random() < 0.9 else b"") + rng.randbytes(4)
    out += rng.randbytes(rng.choice([0, 0, 1, 3, 5, 64]))
    return bytes(out)


def umx_cases(rng, count):
    cases = []
    for ver in (63, 64):
        for ln in LEN_BYTES:
            for idx in IDX_VALUES:
                # one boundary length byte first, honest entries behind it
                data = bytes(36) + bytes([ln]) + b"Music\0" + bytes(4) + b"\x04s3m\0" + bytes(4) + b"\x05None\0" + bytes(4)
                cases.append((ver, 0x7fffffff, 36, idx, data))
    while len(cases) < count:
        ver = rng.choice([35, 61, 63, 64, 69, 83])
        lead = rng.choice([0, 36, 36, 40, 64])
        data = rng.randbytes(lead) + umx_table(rng, ver)
        if not data:
            data = b"\0"
        nofs = rng.choice([lead, lead, lead, 0, len(data), len(data) + 7, max(0, len(data) - 1)])
        nc = rng.choice([0, 1, 2, 5, 8, 0x7fffffff])
        idx = rng.choice(IDX_VALUES + [nc - 1 if nc > 0 else 0, nc])
        cases.append((ver, nc, nofs, min(idx, 0x7ffffffe), data))
    return cases


def umx_line(c):
    return "umx %d %d %d %d %s" % (c[0], c[1], c[2], c[3], c[4].hex())


def run_umx(ck, quick):
    exe = vlib.build_harness("c02_umx", ["c02_umx.c"])
    scratch = os.path.join(vlib.OUT, "c02", "iff-%d" % ck.seed)
    os.makedirs(scratch, exist_ok=True)
    import random
    rng = random.Random(ck.seed * 4637 + 3)
    cases = umx_cases(rng, 3000 if quick else 30000)
    text = "\n".join(umx_line(c) for c in cases) + "\n"
    rc, out, err = vlib.run_exe(exe, [scratch], input_bytes=text.encode(), timeout=120 if quick else 1200)
    real = out.decode("latin-1").splitlines()
    if rc != 0:
        hang = rc == -999
        k = len(real)
        bad = cases[k] if k < len(cases) else None
        ck.violation("umx-names:" + ("hang" if hang else vlib.sanitizer_signature(err)),
                     {"kind": "umx", "line": umx_line(bad) if bad else "", "stderr": err[-1500:]},
                     "the UMX name-table walk %s on a generated name table" % ("did not return" if hang else "aborted under the sanitizers"))
        return
    model = vlib.run_driver("drv_c02", text)
    if len(real) != len(cases) or len(model) != len(cases):
        ck.unproved("correspondence umx", "line counts differ: %d cases, %d harness, %d driver" % (len(cases), len(real), len(model)))
        return
    agree, worst = 0, 0
    for c, r, m in zip(cases, real, model):
        ck.count("umx:%d:%d:%d:%d:%s" % (c[0], c[1], c[2], c[3], c[4].hex()), nontrivial=" iters 0 " not in r)
        mt = re.match(r"ret (-?\d+) iters (\d+) ", r)
        bound = max(0, len(c[4]) - c[2]) // 5 + 2
        if mt:
            worst = max(worst, int(mt.group(2)))
        if not mt or "|" in r or int(mt.group(2)) > bound:
            # the property on the real code: the walk is bounded by the bytes present, on both back-ends alike
            if mt and int(mt.group(2)) > bound:
                ck.violation("umx-names:progress", {"kind": "umx", "line": umx_line(c), "real": r},
                             "%s loop iterations over a name table of %d bytes (bound %d)" % (mt.group(2), len(c[4]) - c[2], bound))
            else:
                ck.unproved("correspondence umx", "case `%s`: real `%s`" % (umx_line(c)[:200], r[:200]))
            continue
        if strip_bound(m) != r:
            ck.unproved("correspondence umx", "case `%s`: real `%s` model `%s`" % (umx_line(c)[:200], r[:200], m[:200]))
            continue
        agree += 1
        ck.cov["traces_validated_against_impl"] += 1
    ck.note("umx_name_cases", len(cases))
    ck.note("umx_name_agree", agree)
    ck.note("umx_name_max_iterations", worst)


def replay_umx(ck, r):
    exe = vlib.build_harness("c02_umx", ["c02_umx.c"])
    scratch = os.path.join(vlib.OUT, "c02")
    rc, out, err = vlib.run_exe(exe, [scratch], input_bytes=(r["line"] + "\n").encode(), timeout=120)
    print("real :", out.decode("latin-1").strip())
    try:
        print("model:", "\n".join(vlib.run_driver("drv_c02", r["line"] + "\n")))
    except vlib.InfraError as ex:
        print("model: driver not available (%s)" % ex)
    print(err[-1500:])
    return 0 if rc == 0 else 1
