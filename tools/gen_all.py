#!/usr/bin/env python3
"""Runs every translator (tools/gen_*.py with a generate() entry) against /repo's
current working tree, so that lean/XmpModel/Gen/*.lean and the generated harness
headers reflect the sources that are about to be built.  Each check runs its own
translators again; this is for setup and for restoring the generated files after
a check was pointed at a scratch worktree (XMP_REPO)."""
import importlib
import os
import sys
import traceback

HERE = os.path.dirname(os.path.abspath(__file__))
sys.path.insert(0, HERE)
import vlib

SKIP = {"gen_manifest", "gen_all", "gen_c14_synth", "gen_seeded_table", "gen_fix_table", "gen_design_tables"}


def main():
    failed = []
    vlib.build_repo("asan")          # gen_globals / gen_open_sites read the object files
    for f in sorted(os.listdir(HERE)):
        name = f[:-3]
        if not (f.startswith("gen_") and f.endswith(".py")) or name in SKIP:
            continue
        try:
            mod = importlib.import_module(name)
            mod.generate()
        except Exception as e:       # a translator that cannot read the tree is reported by its own check
            failed.append(name)
            print("WARNING translator %s failed: %s" % (name, str(e)[:300]))
            traceback.print_exc(limit=2)
    print("gen_all: %s" % ("ok" if not failed else "failed: " + " ".join(failed)))
    return 0


if __name__ == "__main__":
    sys.exit(main())
