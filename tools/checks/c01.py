"""C01 — arbitrary file bytes never cause memory errors or undefined behaviour.

proof  : XmpProps.C01 (mixer sample-window arithmetic: every tap of every kernel iteration lies inside the
         allocation libxmp_load_sample makes around the sample, forward and reverse, all interpolators; voice
         position invariant of libxmp_mixer_softmixer: established by the tick prologue from any voice state,
         preserved by every iteration of the segment loop / loop_reposition / queued sample swap, and implying
         the hypotheses of the window theorems for the sample count the loop computes)
         XmpProps.C01Compose (window inside the allocation proved by C20, indices used by get_frame_info /
         pattern lookup in range under C03 well-formedness and the C16 invariant)
tie    : harness/c01_window.c observes every real kernel call of libxmp_mixer_softmixer and the exact voice state
         before/after the tick prologue, every segment-loop iteration, voicepos/setpatch/reverse/release (macros,
         no source change); the native driver drv_c01 recomputes every transition with XmpModel.VoicePos and
         evaluates the invariant and the window on every observed state; tools/gen_mixer_voice.py reads the
         clamps the model relies on from mixer.c
search : harness/c01_fuzz.c — mutational exploration of the 4 load + 4 test entry points followed by random
         play / seek / position / row / restart histories under random configurations, on the clang-14
         ASan+UBSan build (thorough: also MSan); a sanitizer report is the violation, the case its replay
"""
import os
import random
import re
import shutil
import vlib
import synthmods
import liars
import c02_gens
import gen_mixer_voice

LEVEL = "proof"
MANIFEST = dict(
    category="proof",
    text="PARTIAL (the ~110 format parsers and depackers are searched, not modelled). Proved in Lean 4: (1) XmpProps.C01 window "
         "arithmetic: for every voice position, step, segment length and interpolator, forward and reverse, every sample frame a "
         "mixing kernel touches lies in [-1, len+3], and a voice never receives more iterations than the tick size. (2) Voice "
         "position invariant (model XmpModel/VoicePos.lean of libxmp_mixer_softmixer's tick prologue and segment loop, "
         "adjust_voice_end, loop_reposition, has_active_loop, hotswap_sample, libxmp_mixer_voicepos/setpatch/reverse/release, over "
         "exact rationals): the tick prologue establishes the invariant from ANY voice state, every loop iteration / "
         "loop_reposition / queued sample swap preserves it, the loop terminates within 2*ticksize iterations, and the invariant "
         "implies the hypotheses of the window theorems for the sample count the loop computes (C01_voice_tick: every kernel call "
         "of every reachable state is in bounds; C01_wraparound_window for the loop patching; C01_voicepos_bound for the "
         "position-setting entry points). The defect this exposed (one-shot sample ending on a tick boundary, then S9F: heap "
         "overflow) is fixed in /repo; C01_reverse_past_end_unclamped/_clamped prove both sides on the witness. (3) "
         "XmpProps.C01Compose: the window lies inside the block C20 proves libxmp_load_sample allocates, for frame sizes 1/2/4 "
         "(C01_mixer_reads_in_allocation); the sample assumption SmpOk follows from C20_loop and from C03's WFCommon + samples "
         "clause (C01_smpOk_of_loaded/_of_wf); the indices used by xmp_get_frame_info and by the pattern lookup of read_row are in "
         "range under C03 WFCommon and the C16 invariant for every history (C01_indices_after_gate, which lists the covered uses). "
         "Tie: the harness observes the exact voice state (positions as exact dyadic rationals) before/after the tick prologue, "
         "every segment-loop iteration, every kernel call and every voicepos/setpatch/reverse/release call of the real mixer; the "
         "native driver recomputes each transition with the model, evaluates the invariant, SmpOk and the window on every "
         "observed state, and tools/gen_mixer_voice.py reads the clamps the model relies on from mixer.c. Search: sanitized "
         "(ASan+UBSan, thorough +MSan) exploration of mutated corpus files and structure-aware synthetic modules (MOD/XM/S3M/IT, "
         "DBM, MED, IT with truncated compressed samples) through all 8 entry points with random playback/seek histories, plus a "
         "heap-garbage independence oracle (same cases under two allocator fill bytes must let a client read the same bytes).",
    note="Trusted: Lean kernel, models XmpModel/MixWindow.lean + VoicePos.lean, the generated facts (regular expressions on mixer.c), "
         "harnesses, sanitizers. Not verified: parsers, depackers, effect interpreters (which positions/flags they hand to the mixer "
         "is irrelevant for the voice theorems: the tick prologue is proved from any state, but instrument/sample/key-map indices "
         "taken from events are NOT covered), volumes/ramps/anticlick/filters and the output buffer arithmetic of the mixer, the "
         "Paula kernels' own position walk, IEEE rounding of the double voice position (model = exact rationals; the driver "
         "compares with tolerance 2^-18 frame and counts transitions that only match with samples+-1: 0 observed so far). "
         "Assumption SmpOk (0<=lps<lpe<=len for looped samples, same for active sustain loops) is proved from C20/C03 only for "
         "samples libxmp_load_sample really loaded; it is evaluated on every observed sample. C01_indices_after_gate covers "
         "post-frame states (the (ord,row) the frame read), not states between kernel and effect stages. The window harness "
         "switches XMP_PLAYER_MODE while playing only on corpus modules: on synthetic order lists that begin with 0xff a mode with "
         "QUIRK_MARKER makes next_order spin (reported; C16's OrdWF hypothesis), so synthetic modules are played without mode switch.",
    technique="Lean 4 proofs (window arithmetic, voice position invariant, composition with C20/C03/C16) + exact state-transition "
              "correspondence on the real mixer + sanitizer-guided structure-aware mutational search + allocator-fill differential",
    design_ref="DESIGN.md section 4 C01",
)
REQUIRED = ["Xmp.MixWindow.C01_window_forward", "Xmp.MixWindow.C01_window_reverse", "Xmp.MixWindow.C01_windowOk",
            "Xmp.MixWindow.C01_iterations",
            "Xmp.VoicePos.C01_voice_window", "Xmp.VoicePos.C01_voice_callOk", "Xmp.VoicePos.C01_voice_tickStart",
            "Xmp.VoicePos.C01_voice_step", "Xmp.VoicePos.C01_voice_reposition", "Xmp.VoicePos.C01_voice_tick",
            "Xmp.VoicePos.C01_voice_fuel", "Xmp.VoicePos.C01_wraparound_window", "Xmp.VoicePos.C01_voicepos_bound",
            "Xmp.VoicePos.C01_reverse_past_end_unclamped", "Xmp.VoicePos.C01_reverse_past_end_clamped",
            "Xmp.C01Compose.C01_mixer_reads_in_allocation", "Xmp.C01Compose.C01_wraparound_in_allocation",
            "Xmp.C01Compose.C01_smpOk_of_loaded",
            "Xmp.C01Compose.C01_smpOk_of_wf", "Xmp.C01Compose.C01_indices_after_gate"]
PROOF_MODULES = ["XmpProps.C01", "XmpProps.C01Compose"]

VOICE_KEYS = ["tickOk", "tickBad", "stepOk", "stepFp", "stepBad", "endOk", "endFp", "endBad", "endSkip", "invOk", "invTol",
              "invBad", "smpBad", "callOk", "callBad", "kOk", "kFp", "kBad", "apiOk", "apiBad", "apiSkip", "stepRev",
              "stepRepos", "stepSwap", "noData"]
VOICE_BAD = ["tickBad", "stepBad", "endBad", "kBad", "apiBad"]


def parse_voice_line(lines):
    for l in lines:
        if l.startswith("voice "):
            t = l.split()
            return {t[i]: int(t[i + 1]) for i in range(1, len(t) - 1, 2)}
    return None


def run_fixed_window(args):
    exe, rate, interp, frames, paths = args
    rc, out, err = vlib.run_exe(exe, ["fixed", str(rate), str(interp), str(frames)] + paths, timeout=1800)
    return rc, out.decode("latin-1"), err


def digest_window_output(ck, out, sh_replay, tot, vtot):
    """Direct oracle lines + driver evaluation of one harness output; shared by the random shards and the witnesses."""
    for b in re.findall(r"^bad (.*)$", out, re.M)[:3]:
        ck.violation("window:out-of-allocation", dict(sh_replay, line=b),
                     "a mixing kernel call reads outside the sample allocation: " + b)
    for b in re.findall(r"^badalloc (.*)$", out, re.M)[:3]:
        ck.violation("window:allocation-smaller-than-C20-layout", dict(sh_replay, line=b),
                     "a sample played by the mixer is not inside a block of 4 + (len+4)*framelen bytes: " + b)
    st = re.search(r"stat calls=(\d+) printed=(\d+) maxiter=(\d+) ticksize_violations=(\d+)", out)
    if st:
        ck.bump("kernel_calls_observed", int(st.group(1)))
        if int(st.group(4)) > 0:
            ck.violation("window:iterations>ticksize", sh_replay,
                         "a kernel call was asked for more samples than the tick size")
    st = re.search(r"alloc_checked=(\d+) alloc_bad=(\d+)", out)
    if st:
        ck.bump("sample_allocations_checked_against_C20_layout", int(st.group(1)))
    if not ck.lean_ok:
        return
    lines = vlib.run_driver("drv_c01", out)
    m = re.match(r"total (\d+) bad (\d+) hyp (\d+) nohyp (\d+) reverse (\d+)", lines[0]) if lines else None
    if m:
        for k, v in zip(["total", "bad", "hyp", "nohyp", "reverse"], m.groups()):
            tot[k] += int(v)
        if int(m.group(2)) > 0:
            ck.unproved("correspondence MixWindow.windowOk vs real kernel calls", "; ".join(lines[1:4]))
    v = parse_voice_line(lines)
    if v is None:
        ck.unproved("correspondence VoicePos: driver produced no voice summary", "; ".join(lines[:3]))
        return
    for k in VOICE_KEYS:
        vtot[k] = vtot.get(k, 0) + v.get(k, 0)
    msgs = [l[4:] for l in lines if l.startswith("msg ")]
    if v.get("callBad", 0) > 0:
        # the model's window check fails on an observed loop-top state: the property itself is at stake
        ck.violation("voice:window-from-observed-state", dict(sh_replay, detail=msgs[:3]),
                     "the kernel call the mixer makes from an observed voice state leaves [-1, len+3]: " + "; ".join(msgs[:2])[:600])
    if v.get("invBad", 0) > 0:
        ck.unproved("voice invariant (XmpProofs.VoicePos.Inv) on observed loop-top states", "; ".join(msgs[:3])[:1500])
    if v.get("smpBad", 0) > 0:
        ck.unproved("assumption SmpOk (loop / sustain loop inside the sample) on observed samples that have data",
                    "; ".join(msgs[:3])[:1500])
    if any(v.get(k, 0) > 0 for k in VOICE_BAD):
        ck.unproved("correspondence XmpModel.VoicePos vs real mixer state transitions (%s)" %
                    ",".join(k for k in VOICE_BAD if v.get(k, 0) > 0), "; ".join(msgs[:3])[:1500])


def fuzz_files(ck, maxsize, nsynth):
    """Corpus files plus structure-aware synthetic modules (boundary-valued parameters) written for this seed;
    the synthetic ones are listed three times so that about a third of the cases start from them."""
    files = [f for f in vlib.corpus_files() if os.path.getsize(f) <= maxsize]
    d = os.path.join(vlib.OUT, "c01", "syn-%d" % ck.seed)
    shutil.rmtree(d, ignore_errors=True)
    syn = synthmods.write_set(random.Random(ck.seed * 7919 + 5), d, nsynth)
    # format-aware layer for DBM (chunk order, envelopes, per-instrument loops) and IT with compressed samples
    # whose streams are cut short
    syn += synthmods.write_set_extra(random.Random(ck.seed * 104729 + 11), d, max(8, nsynth // 2))
    # declared-size liar archives (LZX, zip, ARC, LHA, MMCMP), chunk-length liars, container header cuts,
    # MED synth jump tables: the writers of the C02 search, here under the sanitizers
    syn += liars.write_set(random.Random(ck.seed * 31337 + 17), d, max(16, nsynth // 4))
    syn += synthmods.write_set_extra(random.Random(ck.seed * 7561 + 19), d, max(12, nsynth // 4), gens=c02_gens.GENS, prefix="syz")
    syn += c02_gens.chunk_liars_from_corpus(random.Random(ck.seed * 7561 + 23), sorted(vlib.corpus_files()), d, max(8, nsynth // 8))
    syn += small_archives(random.Random(ck.seed * 52711 + 29), d)
    k = max(1, len(files) // (2 * max(1, len(syn))))
    return files + syn * k


def small_archives(rng, d):
    """Tiny valid archives of every built-in container kind around a small module (writers of the C08 stack):
    header-dominated inputs, so that field mutations land in the framing."""
    import c08_writers as w
    mod = synthmods.gen_mod(rng)[0][:1500]
    mems = [("song.mod", mod)]
    two = [("readme.txt", b"hello"), ("song.mod", mod)]
    out = []

    def put(name, data):
        p = os.path.join(d, name)
        with open(p, "wb") as f:
            f.write(data)
        out.append(p)
    try:
        z3 = [(n, b, None) for n, b in two]
        put("arc0.gz", w.gzip_member(mod, name=b"song.mod")[0])
        put("arc1.bz2", w.bzip2(mod))
        put("arc2.xz", w.xz(mod))
        put("arc3.zip", w.zip_archive(z3))
        put("arc4.zip", w.zip_archive([(n, b, None) for n, b in mems], method="stored"))
        put("arc5.Z", w.compress_lzw(mod, maxbits=12))
        put("arc6.lha", w.lha_archive(mems))
        put("arc7.arc", w.arc_archive([(n, b, 2) for n, b in mems]))
        put("arc8.arc", w.arc_archive([(n, b, 3) for n, b in two], spark=True))
        put("arc9.arcfs", w.arcfs_archive([(n, b, 2) for n, b in mems]))
        put("arc10.lzx", w.lzx_archive(two))
        put("arc11.pp", w.pp20(mod))
        put("arc12.mmcmp", w.mmcmp_stored(mod, block_size=400, subs_per_block=3))
        put("arc13.mmcmp", w.mmcmp_stored(mod, block_size=0x10000, subs_per_block=1))
    except Exception as e:      # a writer that fails is not a finding of this check
        print("small_archives: %r" % (e,))
    # degenerate members: well-formed archives whose member is empty or one byte long (a depacker that succeeds
    # with nothing to hand over); each writer on its own, some cannot express an empty member
    for tag, pay in (("e", b""), ("o", b"M")):
        m1 = [("song.mod", pay)]
        for k, fn in enumerate([
                lambda: w.gzip_member(pay, name=b"song.mod")[0],
                lambda: w.bzip2(pay),
                lambda: w.xz(pay),
                lambda: w.zip_archive([(n, b, None) for n, b in m1]),
                lambda: w.zip_archive([(n, b, None) for n, b in m1], method="stored"),
                lambda: w.compress_lzw(pay, maxbits=12),
                lambda: w.lha_archive(m1),
                lambda: w.arc_archive([(n, b, 2) for n, b in m1]),
                lambda: w.arcfs_archive([(n, b, 2) for n, b in m1]),
                lambda: w.lzx_archive(m1),
                lambda: w.pp20(pay),
                lambda: w.mmcmp_stored(pay, block_size=400, subs_per_block=1)]):
            try:
                put("arc%s%d.bin" % (tag, k), fn())
            except Exception:
                pass
    return out


ASAN_BASE = "detect_leaks=0:abort_on_error=0:allocator_may_return_null=1"
FILL_MAIN, FILL_ALT = 165, 0


def fill_env(byte):
    """ASan fills every fresh heap block (of any size) with `byte`: what uninitialised heap memory looks like."""
    return {"ASAN_OPTIONS": ASAN_BASE + ":max_malloc_fill_size=268435456:malloc_fill_byte=%d" % byte}


def digests(text):
    return {int(i): (int(r), d) for i, r, d in re.findall(r"^done (\d+) ret=(-?\d+) dig=([0-9a-f]+)", text, re.M)}


def run_fuzz_shard(args):
    """Runs [first, first+count) of one seed; on abort records the failing case and continues after it."""
    exe, seed, first, count, scratch, files, variant = args[:7]
    fill = args[7] if len(args) > 7 else FILL_MAIN
    out_cases, fails = 0, []
    start = first
    env = fill_env(fill)
    if variant == "msan":
        env = {"MSAN_OPTIONS": "abort_on_error=0:exit_code=77"}
    alltext = ""
    while start < first + count:
        rc, out, err = vlib.run_exe(exe, [str(seed), str(start), str(first + count - start), scratch, "san"] + files,
                                    timeout=3600, env=env)
        text = out.decode("latin-1")
        alltext += text
        done = re.findall(r"^done (\d+) ret=(-?\d+)", text, re.M)
        cases = re.findall(r"^case (\d+) (\S+) (.*)$", text, re.M)
        out_cases += len(done)
        if rc == 0:
            return out_cases, fails, alltext
        if not cases:
            fails.append({"index": start, "desc": "harness failed before the first case", "stderr": err[-3000:], "rc": rc})
            return out_cases, fails, alltext
        last = cases[-1]
        fails.append({"index": int(last[0]), "file": last[1], "desc": last[2], "stderr": err[-3500:], "rc": rc,
                      "args": [str(seed), last[0], "1", scratch, "san"]})
        start = int(last[0]) + 1
    return out_cases, fails, alltext


def run_types_shard(args):
    exe, scratch, files = args
    if not files:
        return []
    rc, out, err = vlib.run_exe(exe, ["0", "0", "0", scratch, "types"] + files, timeout=1800, env=fill_env(FILL_MAIN))
    return [tuple(l[5:].split("\t", 1)) for l in out.decode("latin-1").splitlines() if l.startswith("type ") and "\t" in l]


def run_tails_shard(args):
    """each file with its last 1..maxcut bytes missing; after an abort the sweep continues behind the failing cut"""
    exe, scratch, maxcut, files = args
    n, fails = 0, []
    for f in files:
        start = 1
        while start <= maxcut:
            rc, out, err = vlib.run_exe(exe, ["0", str(start), str(maxcut), scratch, "tails", f], timeout=1800,
                                        env=fill_env(FILL_MAIN))
            text = out.decode("latin-1")
            cuts = [int(x) for x in re.findall(r"^tail (\d+)$", text, re.M)]
            if rc == 0:
                n += len(cuts)
                break
            n += max(0, len(cuts) - 1)
            last = cuts[-1] if cuts else start
            fails.append({"file": f, "cut": last, "rc": rc, "stderr": err[-3000:]})
            if len(fails) > 20:
                return n, fails
            start = last + 1
    return n, fails


def run_prefix_shard(args):
    """prefix lengths 0..maxlen of each file; after an abort the sweep continues behind the failing length"""
    exe, scratch, maxlen, files = args
    n, fails = 0, []
    for f in files:
        start = 0
        while start <= maxlen:
            rc, out, err = vlib.run_exe(exe, ["0", str(start), str(maxlen), scratch, "prefix", f], timeout=1800,
                                        env=fill_env(FILL_MAIN))
            text = out.decode("latin-1")
            lens = [int(x) for x in re.findall(r"^prefix (\d+)$", text, re.M)]
            n += len(lens)
            if rc == 0 or not lens:
                if rc != 0:
                    fails.append({"file": f, "len": start, "stderr": err[-3000:], "rc": rc})
                break
            fails.append({"file": f, "len": lens[-1], "stderr": err[-3000:], "rc": rc})
            if len(fails) > 20:
                return n, fails
            start = lens[-1] + 1
    return n, fails


def run_fields_shard(args):
    exe, scratch, maxoff, files = args[:4]
    mode = args[4] if len(args) > 4 else "fields"
    n, fails = 0, []
    for f in files:
        start = 0
        while start <= maxoff:
            rc, out, err = vlib.run_exe(exe, ["0", str(start), str(maxoff), scratch, mode, f], timeout=1800,
                                        env=fill_env(FILL_MAIN))
            text = out.decode("latin-1")
            flds = re.findall(r"^field (\d+) (\d) (\d) (\d+)$", text, re.M)
            n += len(flds)
            if rc == 0 or not flds:
                if rc != 0:
                    fails.append({"file": f, "field": (start, 0, 0, 0), "stderr": err[-3000:], "rc": rc})
                break
            last = tuple(int(x) for x in flds[-1])
            fails.append({"file": f, "field": last, "stderr": err[-3000:], "rc": rc})
            if len(fails) > 10:
                return n, fails
            start = last[0] + 1        # continue behind the failing offset
    return n, fails


def run_window_shard(args):
    exe, seed, ncases, frames, mods = args
    rc, out, err = vlib.run_exe(exe, [str(seed), str(ncases), str(frames)] + mods, timeout=1800)
    return rc, out.decode("latin-1"), err


def run(ck):
    # ---- translator: the clamps the voice model relies on, read from mixer.c ---------------
    facts = gen_mixer_voice.generate()
    ck.note("mixer_voice_facts", facts)
    # own modules first (models, window + voice theorems, driver); the composition file imports the property files of
    # C20 / C03 / C16, which other people edit: if one of those is broken only the C01Compose theorems become unproved,
    # the tie and the search still run
    core_req = [r for r in REQUIRED if ".C01Compose." not in r]
    ck.proofs(["XmpProps.C01"], required=core_req, drivers=["drv_c01"])
    core_ok, core_cov = ck.lean_ok, (ck.cov["obligations"], ck.cov["discharged"])
    core_notes = {k: ck.notes.get(k) for k in ("axioms_used", "lean_modules", "property_theorems")}
    if core_ok:
        ck.proofs(PROOF_MODULES, required=REQUIRED)
        if not ck.lean_ok:
            ck.cov["obligations"] = core_cov[0] + len(REQUIRED) - len(core_req)
            ck.cov["discharged"] = core_cov[1]
            for k, v in core_notes.items():
                ck.note(k, v)
            for r in REQUIRED:
                if ".C01Compose." in r:
                    ck.unproved("theorem " + r, "XmpProps.C01Compose (or a property file it imports: C20, C03, C16) does not build")
        ck.lean_ok = core_ok
    for name, problem in gen_mixer_voice.expectations(facts):
        ck.unproved("generated fact %s (tools/gen_mixer_voice.py)" % name, problem)
    quick = ck.tier == "quick"
    scratch = os.path.join(vlib.OUT, "c01")
    os.makedirs(scratch, exist_ok=True)

    # ---- tie: observed kernel calls and voice states vs the models ------------------------
    wexe = vlib.build_harness("c01_window", ["c01_window.c"])
    mods = [f for f in vlib.corpus_files() if os.path.getsize(f) < 600000]
    ck.rng.shuffle(mods)
    nsh = 16
    per = 6 if quick else 40
    shards = [(wexe, ck.seed * 31 + i, per, 250 if quick else 600, mods[i::nsh][:40 if quick else 400]) for i in range(nsh)]
    tot = {"total": 0, "bad": 0, "hyp": 0, "nohyp": 0, "reverse": 0}
    vtot = {}
    for (rc, out, err), sh in zip(vlib.pmap(run_window_shard, shards), shards):
        rp = {"harness": "c01_window", "args": [str(x) for x in sh[1:4]] + sh[4]}
        if rc != 0:
            sig = vlib.sanitizer_signature(err)
            ck.violation("window-harness:" + sig, dict(rp, stderr=err[-3000:]),
                         "sanitizer report while playing unmodified corpus modules: " + sig)
            continue
        digest_window_output(ck, out, rp, tot, vtot)

    # ---- regression witnesses of the voice invariant (every voice-tick traced) -----------------
    wdir = os.path.join(scratch, "witness")
    shutil.rmtree(wdir, ignore_errors=True)
    wit = synthmods.c01_witnesses(wdir)
    cdir = os.path.join(vlib.VERIF, "corpus", "C01")
    if os.path.isdir(cdir):
        wit += [(os.path.join(cdir, f), 4000, [0, 1, 2]) for f in sorted(os.listdir(cdir))]
    wjobs = [(wexe, rate, interp, 200 if quick else 1200, [path]) for (path, rate, interps) in wit for interp in interps]
    # structure-aware synthetic DBM / compressed-IT modules, plain playback (no mode switch: see the note in MANIFEST)
    sdir = os.path.join(scratch, "wsyn-%d" % ck.seed)
    shutil.rmtree(sdir, ignore_errors=True)
    wsyn = synthmods.write_set_extra(random.Random(ck.seed * 15485863 + 3), sdir, 24 if quick else 160,
                                     gens=[synthmods.gen_dbm, synthmods.gen_it_compressed])
    for k, (rate, interp) in enumerate([(8000, 2), (22050, 0), (48000, 1), (4000, 1)]):
        part = wsyn[k::4]
        if part:
            wjobs.append((wexe, rate, interp, 120 if quick else 400, part))
    for (rc, out, err), job in zip(vlib.pmap(run_fixed_window, wjobs), wjobs):
        rp = {"harness": "c01_window", "args": ["fixed", str(job[1]), str(job[2]), str(job[3])] + job[4]}
        name = os.path.basename(job[4][0]) if len(job[4]) == 1 else "synthetic-set"
        ck.count("witness:%s:%d:%d" % (name, job[1], job[2]), nontrivial=True)
        if rc != 0:
            sig = vlib.sanitizer_signature(err)
            if "reverse" in name and "heap-buffer-overflow" in sig:
                sig = "voice:reverse-past-end"
            ck.violation(sig if sig.startswith("voice:") else "witness:" + sig, dict(rp, stderr=err[-3000:]),
                         "sanitizer report while playing the regression witness %s at %d Hz, interpolation %d: %s" %
                         (name, job[1], job[2], vlib.sanitizer_signature(err)))
            continue
        digest_window_output(ck, out, rp, tot, vtot)
    ck.note("voice_witness_runs", len(wjobs))

    ck.note("window_calls_checked_by_model", tot["total"])
    ck.note("window_calls_meeting_theorem_hypotheses", tot["hyp"])
    ck.note("window_calls_not_meeting_hypotheses", tot["nohyp"])
    ck.note("window_reverse_calls", tot["reverse"])
    ck.note("voice_transitions", {k: vtot.get(k, 0) for k in VOICE_KEYS})
    nvoice = sum(vtot.get(k, 0) for k in ("tickOk", "stepOk", "stepFp", "endOk", "endFp", "apiOk", "kOk", "kFp"))
    ck.cov["traces_validated_against_impl"] += tot["total"] + nvoice
    if tot["total"] and tot["nohyp"] * 50 > tot["total"]:
        ck.unproved("hypotheses of C01_window_forward/_reverse vs real kernel calls",
                    "%d of %d observed kernel calls do not meet the theorem hypotheses" % (tot["nohyp"], tot["total"]))
    nfp = vtot.get("stepFp", 0) + vtot.get("endFp", 0) + vtot.get("kFp", 0) + vtot.get("invTol", 0)
    if nvoice and nfp * 200 > nvoice:
        ck.unproved("floating-point divergence between the exact-rational voice model and the double arithmetic of mixer.c",
                    "%d of %d observed transitions only match with samples+-1 or a nudged position" % (nfp, nvoice))
    if ck.lean_ok and (vtot.get("stepOk", 0) == 0 or vtot.get("stepRev", 0) == 0 or vtot.get("stepSwap", 0) == 0
                       or vtot.get("tickOk", 0) == 0 or vtot.get("apiOk", 0) == 0):
        ck.unproved("coverage of the voice correspondence", "no forward/reverse/swap/prologue/API transition was observed: %r" % vtot)

    # ---- search: sanitized mutational exploration -----------------------------------------
    variants = ["asan"] if quick else ["asan", "msan"]
    files = fuzz_files(ck, 250000 if quick else 1500000, 150 if quick else 1500)
    ck.note("synthetic_modules", len([f for f in set(files) if "/syn-" in f]))
    ncases = 0
    kinds = {}
    for variant in variants:
        fexe = vlib.build_harness("c01_fuzz", ["c01_fuzz.c"], variant=variant)
        per = 450 if quick else (6000 if variant == "asan" else 2500)
        shards = [(fexe, ck.seed * 1009 + 17 * i + (0 if variant == "asan" else 500), 0, per, scratch, files, variant)
                  for i in range(16)]
        results = vlib.pmap(run_fuzz_shard, shards)
        for (n, fails, text), sh in zip(results, shards):
            ncases += n
            for c in re.findall(r"^case (\d+) (\S+) entry=(\d) test=(\d) mut=\[(\w+)", text, re.M):
                key = "entry%s%s:%s" % (c[2], "t" if c[3] == "1" else "l", c[4])
                kinds[key] = kinds.get(key, 0) + 1
                ck.count("%s:%s:%s" % (sh[1], c[0], variant), nontrivial=c[4] != "intact")
            okl = len(re.findall(r"^done \d+ ret=0", text, re.M))
            ck.bump("loads_or_tests_succeeded", okl)
            for f in fails:
                if f["rc"] == -999 or "TIMEOUT" in f.get("stderr", ""):
                    sig = "timeout@" + os.path.basename(f.get("file", "?"))
                else:
                    sig = vlib.sanitizer_signature(f["stderr"])
                ck.violation("%s:%s" % (variant, sig),
                             {"harness": "c01_fuzz (%s build)" % variant, "args": f.get("args"), "files": files, "case": f.get("desc"),
                              "file": f.get("file"), "stderr": f["stderr"][-2500:]},
                             "%s report: %s on %s [%s]" % (variant, sig, os.path.basename(f.get("file", "?")), f.get("desc")))
        if variant != "asan":
            continue
        # ---- heap-garbage independence: a slice of the same cases under a different allocator fill byte -----
        # (the main run above used fill byte FILL_MAIN for every fresh heap block; everything a client can read is
        # folded into the per-case digest, so a digest that changes with the fill byte depends on uninitialised heap)
        main = {}
        for (n, fails, text), sh in zip(results, shards):
            first_fail = min([f["index"] for f in fails] + [10 ** 9])
            main[sh[1]] = (digests(text), first_fail)
        alt_shards = [sh[:3] + (max(1, sh[3] // 3),) + sh[4:7] + (FILL_ALT,) for sh in shards]
        ncmp = 0
        for (n, fails, text), sh in zip(vlib.pmap(run_fuzz_shard, alt_shards), alt_shards):
            dmain, first_fail = main[sh[1]]
            first_fail = min([f["index"] for f in fails] + [first_fail])
            dalt = digests(text)
            srcs = dict((int(i), f) for i, f in re.findall(r"^case (\d+) (\S+) ", text, re.M))
            for idx in sorted(dalt):
                if idx >= first_fail or idx not in dmain:
                    continue
                ncmp += 1
                if dalt[idx] != dmain[idx]:
                    fname = os.path.basename(srcs.get(idx, "?"))
                    ck.violation("uninit-heap-dependence:" + re.sub(r"^sy[nx]\d+", "syn", fname),
                                 {"harness": "c01_fuzz (asan build) heapfill", "index": idx, "fills": [FILL_MAIN, FILL_ALT],
                                  "args": [str(sh[1]), "0", str(idx + 1), scratch, "san"], "files": files,
                                  "digests": [dmain[idx], dalt[idx]], "file": srcs.get(idx)},
                                 "case %d on %s: what a client reads (module info / sample data / audio) differs between allocator "
                                 "fill bytes %d and %d: %s vs %s -> it depends on uninitialised heap memory" %
                                 (idx, fname, FILL_MAIN, FILL_ALT, dmain[idx], dalt[idx]))
                    break
        ck.note("heapfill_cases_compared", ncmp)
    # ---- every short prefix of one file per recognised format, as exactly sized memory images ---------------
    fexe = vlib.build_harness("c01_fuzz", ["c01_fuzz.c"], variant="asan")
    allf = sorted(f for f in set(files) if os.path.getsize(f) <= 400000)
    reps, treps = {}, {}
    typed = [pt for chunk in vlib.pmap(run_types_shard, [(fexe, scratch, allf[i::16]) for i in range(16)]) for pt in chunk]
    # representatives: genuine modules before the repository's fuzz-regression files (data/f: mostly refused early)
    typed.sort(key=lambda pt: ("/data/f/" in pt[0], "/syn-" in pt[0], pt[0]))
    for chunk in (typed,):
        for path, typ in chunk:
            reps.setdefault(typ, [])
            treps.setdefault(typ, [])
            if len(reps[typ]) < (1 if quick else 3):
                reps[typ].append(path)
            if len(treps[typ]) < (3 if quick else 8):
                treps[typ].append(path)
    repfiles = sorted(p for v in reps.values() for p in v)
    ck.note("formats_with_a_prefix_sweep", len(reps))
    maxlen = 288 if quick else 1100
    nprefix = 0
    for (n, fails) in vlib.pmap(run_prefix_shard, [(fexe, scratch, maxlen, repfiles[i::16]) for i in range(16)]):
        nprefix += n
        for f in fails:
            sig = "timeout" if f["rc"] in (-999, 142, -14) else vlib.sanitizer_signature(f["stderr"])
            ck.violation("asan:prefix:%s" % sig,
                         {"harness": "c01_fuzz prefix", "args": ["0", str(f["len"]), str(f["len"]), scratch, "prefix", f["file"]],
                          "file": f["file"], "prefix_length": f["len"], "stderr": f["stderr"][-2500:]},
                         "the first %d bytes of %s as an exactly sized memory image: %s" % (f["len"], os.path.basename(f["file"]), sig))
    ck.note("prefix_images_checked", nprefix)
    # ---- the same idea from the other end: several files per format with their last 1..N bytes missing ----
    tailfiles = sorted(p for v in treps.values() for p in v)
    maxcut = 24 if quick else 300
    ntails = 0
    for (n, fails) in vlib.pmap(run_tails_shard, [(fexe, scratch, maxcut, tailfiles[i::16]) for i in range(16)]):
        ntails += n
        for f in fails:
            sig = "timeout" if f["rc"] in (-999, 142, -14) else vlib.sanitizer_signature(f["stderr"])
            ck.violation("asan:tails:%s" % sig,
                         {"harness": "c01_fuzz tails", "args": ["0", str(f["cut"]), str(f["cut"]), scratch, "tails", f["file"]],
                          "file": f["file"], "bytes_cut": f["cut"], "stderr": f["stderr"][-2500:]},
                         "%s with its last %d bytes missing, as an exactly sized memory image: %s" % (
                             os.path.basename(f["file"]), f["cut"], sig))
    ck.note("tail_cut_images_checked", ntails)
    ck.bump("evaluations_extra", ntails)
    # ---- systematic field inflation of the tiny archives (every offset x width x byte order x boundary value) ----
    tiny = sorted(f for f in set(files) if os.path.basename(f).startswith("arc") and "/syn-" in f)
    maxoff = 72 if quick else 400
    nfields = 0
    for (n, fails) in vlib.pmap(run_fields_shard, [(fexe, scratch, maxoff, [f]) for f in tiny]):
        nfields += n
        for f in fails:
            sig = "timeout" if f["rc"] in (-999, 142, -14) else vlib.sanitizer_signature(f["stderr"])
            ck.violation("asan:fields:%s" % sig,
                         {"harness": "c01_fuzz fields", "file": f["file"], "field": f["field"], "stderr": f["stderr"][-2500:],
                          "args": ["0", str(f["field"][0]), str(f["field"][0]), scratch, "fields", f["file"]]},
                         "%s with the %d-bit %s-endian field at offset %d set to boundary value #%d: %s" % (
                             os.path.basename(f["file"]), 8 * f["field"][1], "big" if f["field"][2] else "little", f["field"][0],
                             f["field"][3], sig))
    ck.note("field_inflations_checked", nfields)
    # ---- every 32-bit field near the start of one module per format turned negative / huge -------------------
    f32files = [p for p in repfiles if os.path.getsize(p) <= (65536 if quick else 400000)]
    maxoff32 = 520 if quick else 1400
    nf32 = 0
    for (n, fails) in vlib.pmap(run_fields_shard, [(fexe, scratch, maxoff32, f32files[i::32], "fields32") for i in range(32)]):
        nf32 += n
        for f in fails:
            sig = "timeout" if f["rc"] in (-999, 142, -14) else vlib.sanitizer_signature(f["stderr"])
            ck.violation("asan:fields32:%s" % sig,
                         {"harness": "c01_fuzz fields32", "file": f["file"], "field": f["field"], "stderr": f["stderr"][-2500:],
                          "args": ["0", str(f["field"][0]), str(f["field"][0]), scratch, "fields32", f["file"]]},
                         "%s with the 32-bit %s-endian field at offset %d set to extreme value #%d: %s" % (
                             os.path.basename(f["file"]), "big" if f["field"][2] else "little", f["field"][0], f["field"][3], sig))
    ck.note("field32_extremes_checked", nf32)
    ck.note("field32_files", sorted(os.path.basename(p) for p in f32files))
    ck.bump("evaluations_extra", nf32)
    ck.bump("evaluations_extra", nprefix)
    ck.note("mutation_and_entry_distribution", dict(sorted(kinds.items())[:60]))
    ck.note("fuzz_cases_completed", ncases)
    ck.sample({"fuzz case": "seed*1009+17*shard, index", "example": "case 12 …/ode2ptk.mod entry=2 test=0 mut=[field16be x2]"})
    ck.sample({"window line": "w q0 stepfix count interp len rev pn sn bound D", "checked": tot})
    ck.sample({"voice lines": "T/L/K/E tick prologue, loop-top states, kernel calls, loop exit; P/A/R/Z voicepos, setpatch, reverse, "
                              "release (positions exact over 2^62)", "checked": {k: vtot.get(k, 0) for k in VOICE_KEYS}})
    ck.cov["rule"] = ("fuzz case = (corpus file, mutation kind, entry point of 8, context reuse, player mode/smpctl, output configuration, "
                      "random history of set_position/next/prev/set_row/seek_time/restart/stop/mute/play_buffer) derived from (seed, index); "
                      "distinct by (seed, index, build); non-trivial = the input was mutated (not the intact corpus file)")
    ck.assumptions += ["sanitizer policy of the project: address + undefined minus shift-base (quick), plus memory (thorough)",
                       "little-endian x86-64 host only"]


def replay(ck, rp):
    r = rp["replay"]
    if r.get("harness") == "c01_window":
        exe = vlib.build_harness("c01_window", ["c01_window.c"])
        rc, out, err = vlib.run_exe(exe, r["args"], timeout=1800)
        text = out.decode("latin-1")
        bad = re.findall(r"^bad .*$", text, re.M)
        print("\n".join(bad[:5]))
        print(err[-4000:])
        if rc == 0 and ck is not None:
            try:
                print("\n".join(vlib.run_driver("drv_c01", text)[:16]))
            except Exception as e:      # driver not built: the direct oracle above is what counts
                print("driver not available: %s" % e)
        if rc != 0 or bad:
            print("VIOLATION property=C01 replay=(replayed)")
            return 1
        return 0
    variant = "msan" if "msan" in r.get("harness", "") else "asan"
    exe = vlib.build_harness("c01_fuzz", ["c01_fuzz.c"], variant=variant)
    if "heapfill" in r.get("harness", ""):
        got = []
        for fill in r["fills"]:
            rc, out, err = vlib.run_exe(exe, r["args"] + r["files"], env=fill_env(fill), timeout=3600)
            d = digests(out.decode("latin-1")).get(r["index"])
            print("fill byte %d: case %d -> %s" % (fill, r["index"], d))
            got.append(d)
        if got[0] != got[1]:
            print("VIOLATION property=C01 replay=(replayed) the result depends on uninitialised heap memory")
            return 1
        return 0
    rc, out, err = vlib.run_exe(exe, r["args"] + r["files"])
    print(out.decode("latin-1")[-1500:])
    print(err[-4000:])
    if rc != 0:
        print("VIOLATION property=C01 replay=(replayed)")
        return 1
    return 0
