"""C01 — arbitrary file bytes never cause memory errors or undefined behaviour.

proof  : XmpProps.C01 (mixer sample-window arithmetic: every tap of every kernel iteration lies inside the
         allocation libxmp_load_sample makes around the sample, forward and reverse, all interpolators)
tie    : harness/c01_window.c observes every real kernel call of libxmp_mixer_softmixer (call site rerouted by a
         function-like macro, no source change); the native driver drv_c01 evaluates the model's windowOk and
         the theorem hypotheses on those calls
search : harness/c01_fuzz.c — mutational exploration of the 4 load + 4 test entry points followed by random
         play / seek / position / row / restart histories under random configurations, on the clang-14
         ASan+UBSan build (thorough: also MSan); a sanitizer report is the violation, the case its replay
"""
import os
import random
import re
import shutil
import vlib
import synthmods

LEVEL = "proof"
MANIFEST = dict(
    category="proof",
    text="PARTIAL. Proved in Lean 4 (XmpProps.C01): for every voice position, step, segment length and interpolator, forward and "
         "reverse, every sample frame a mixing kernel touches lies in [-1, len+3] — inside the guard frames libxmp_load_sample "
         "allocates — and a voice never receives more iterations than the tick size. The hypotheses are evaluated by the native "
         "driver on every kernel call observed in the real mixer (tie). The ~110 format parsers and depackers are NOT modelled: for "
         "them this check is sanitized exploration (ASan+UBSan, thorough +MSan) of mutated corpus files through all 8 entry points "
         "followed by random playback/seek histories, which yields replayable failing inputs.",
    note="Trusted: Lean kernel, model XmpModel/MixWindow.lean, harnesses, sanitizers. Not verified: parsers, depackers, effect "
         "interpreters, IEEE rounding of the double voice position (model uses exact rationals; the driver measures how many real "
         "calls meet the hypotheses). Related proved pieces are audited under C20 (sample layout), C03 (post-load indices), C16/C17.",
    technique="Lean 4 proof of the mixer window arithmetic + monitored hypotheses + sanitizer-guided mutational search",
    design_ref="DESIGN.md section 4 C01",
)
REQUIRED = ["Xmp.MixWindow.C01_window_forward", "Xmp.MixWindow.C01_window_reverse", "Xmp.MixWindow.C01_windowOk",
            "Xmp.MixWindow.C01_iterations"]


def fuzz_files(ck, maxsize, nsynth):
    """Corpus files plus structure-aware synthetic modules (boundary-valued parameters) written for this seed;
    the synthetic ones are listed three times so that about a third of the cases start from them."""
    files = [f for f in vlib.corpus_files() if os.path.getsize(f) <= maxsize]
    d = os.path.join(vlib.OUT, "c01", "syn-%d" % ck.seed)
    shutil.rmtree(d, ignore_errors=True)
    syn = synthmods.write_set(random.Random(ck.seed * 7919 + 5), d, nsynth)
    k = max(1, len(files) // (2 * max(1, len(syn))))
    return files + syn * k


def run_fuzz_shard(args):
    """Runs [first, first+count) of one seed; on abort records the failing case and continues after it."""
    exe, seed, first, count, scratch, files, variant = args
    out_cases, fails = 0, []
    start = first
    env = {}
    if variant == "msan":
        env = {"MSAN_OPTIONS": "abort_on_error=0:exit_code=77"}
    while start < first + count:
        rc, out, err = vlib.run_exe(exe, [str(seed), str(start), str(first + count - start), scratch, "san"] + files,
                                    timeout=3600, env=env)
        text = out.decode("latin-1")
        done = re.findall(r"^done (\d+) ret=(-?\d+)", text, re.M)
        cases = re.findall(r"^case (\d+) (\S+) (.*)$", text, re.M)
        out_cases += len(done)
        if rc == 0:
            return out_cases, fails, text
        if not cases:
            fails.append({"index": start, "desc": "harness failed before the first case", "stderr": err[-3000:], "rc": rc})
            return out_cases, fails, text
        last = cases[-1]
        fails.append({"index": int(last[0]), "file": last[1], "desc": last[2], "stderr": err[-3500:], "rc": rc,
                      "args": [str(seed), last[0], "1", scratch, "san"]})
        start = int(last[0]) + 1
    return out_cases, fails, ""


def run_window_shard(args):
    exe, seed, ncases, frames, mods = args
    rc, out, err = vlib.run_exe(exe, [str(seed), str(ncases), str(frames)] + mods, timeout=1800)
    return rc, out.decode("latin-1"), err


def run(ck):
    ck.proofs(["XmpProps.C01"], required=REQUIRED, drivers=["drv_c01"])
    quick = ck.tier == "quick"
    scratch = os.path.join(vlib.OUT, "c01")
    os.makedirs(scratch, exist_ok=True)

    # ---- tie: observed kernel calls vs the window model ---------------------------------
    wexe = vlib.build_harness("c01_window", ["c01_window.c"])
    mods = [f for f in vlib.corpus_files() if os.path.getsize(f) < 600000]
    ck.rng.shuffle(mods)
    nsh = 16
    per = 6 if quick else 40
    shards = [(wexe, ck.seed * 31 + i, per, 250 if quick else 600, mods[i::nsh][:40 if quick else 400]) for i in range(nsh)]
    tot = {"total": 0, "bad": 0, "hyp": 0, "nohyp": 0, "reverse": 0}
    for (rc, out, err), sh in zip(vlib.pmap(run_window_shard, shards), shards):
        if rc != 0:
            sig = vlib.sanitizer_signature(err)
            ck.violation("window-harness:" + sig, {"args": [str(x) for x in sh[1:4]] + sh[4], "stderr": err[-3000:]},
                         "sanitizer report while playing unmodified corpus modules: " + sig)
            continue
        for b in re.findall(r"^bad (.*)$", out, re.M)[:3]:
            ck.violation("window:out-of-allocation", {"args": [str(x) for x in sh[1:4]] + sh[4], "line": b},
                         "a mixing kernel call reads outside the sample allocation: " + b)
        st = re.search(r"stat calls=(\d+) printed=(\d+) maxiter=(\d+) ticksize_violations=(\d+)", out)
        if st:
            ck.bump("kernel_calls_observed", int(st.group(1)))
            if int(st.group(4)) > 0:
                ck.violation("window:iterations>ticksize", {"args": [str(x) for x in sh[1:4]] + sh[4]},
                             "a kernel call was asked for more samples than the tick size")
        if ck.lean_ok:
            lines = vlib.run_driver("drv_c01", out)
            m = re.match(r"total (\d+) bad (\d+) hyp (\d+) nohyp (\d+) reverse (\d+)", lines[0]) if lines else None
            if m:
                for k, v in zip(["total", "bad", "hyp", "nohyp", "reverse"], m.groups()):
                    tot[k] += int(v)
                if int(m.group(2)) > 0:
                    ck.unproved("correspondence MixWindow.windowOk vs real kernel calls", "; ".join(lines[1:4]))
    ck.note("window_calls_checked_by_model", tot["total"])
    ck.note("window_calls_meeting_theorem_hypotheses", tot["hyp"])
    ck.note("window_calls_not_meeting_hypotheses", tot["nohyp"])
    ck.note("window_reverse_calls", tot["reverse"])
    ck.cov["traces_validated_against_impl"] += tot["total"]
    if tot["total"] and tot["nohyp"] * 50 > tot["total"]:
        ck.unproved("hypotheses of C01_window_forward/_reverse vs real kernel calls",
                    "%d of %d observed kernel calls do not meet the theorem hypotheses" % (tot["nohyp"], tot["total"]))

    # ---- search: sanitized mutational exploration -----------------------------------------
    variants = ["asan"] if quick else ["asan", "msan"]
    files = fuzz_files(ck, 250000 if quick else 1500000, 150 if quick else 1500)
    ck.note("synthetic_modules", len([f for f in set(files) if "/syn-" in f]))
    ncases = 0
    kinds = {}
    for variant in variants:
        fexe = vlib.build_harness("c01_fuzz", ["c01_fuzz.c"], variant=variant)
        per = 220 if quick else (6000 if variant == "asan" else 2500)
        shards = [(fexe, ck.seed * 1009 + 17 * i + (0 if variant == "asan" else 500), 0, per, scratch, files, variant)
                  for i in range(16)]
        for (n, fails, text), sh in zip(vlib.pmap(run_fuzz_shard, shards), shards):
            ncases += n
            for c in re.findall(r"^case (\d+) (\S+) entry=(\d) test=(\d) mut=\[(\w+)", text, re.M):
                key = "entry%s%s:%s" % (c[2], "t" if c[3] == "1" else "l", c[4])
                kinds[key] = kinds.get(key, 0) + 1
                ck.count("%s:%s:%s" % (sh[1], c[0], variant), nontrivial=c[4] != "intact")
            okl = len(re.findall(r"^done \d+ ret=0", text, re.M))
            ck.bump("loads_or_tests_succeeded", okl)
            for f in fails:
                if f["rc"] == -999 or "TIMEOUT" in f.get("stderr", ""):
                    sig = "timeout@" + os.path.basename(f.get("file", "?"))
                else:
                    sig = vlib.sanitizer_signature(f["stderr"])
                ck.violation("%s:%s" % (variant, sig),
                             {"harness": "c01_fuzz (%s build)" % variant, "args": f.get("args"), "files": files, "case": f.get("desc"),
                              "file": f.get("file"), "stderr": f["stderr"][-2500:]},
                             "%s report: %s on %s [%s]" % (variant, sig, os.path.basename(f.get("file", "?")), f.get("desc")))
    ck.note("mutation_and_entry_distribution", dict(sorted(kinds.items())[:60]))
    ck.note("fuzz_cases_completed", ncases)
    ck.sample({"fuzz case": "seed*1009+17*shard, index", "example": "case 12 …/ode2ptk.mod entry=2 test=0 mut=[field16be x2]"})
    ck.sample({"window line": "w q0 stepfix count interp len rev pn sn bound D", "checked": tot})
    ck.cov["rule"] = ("fuzz case = (corpus file, mutation kind, entry point of 8, context reuse, player mode/smpctl, output configuration, "
                      "random history of set_position/next/prev/set_row/seek_time/restart/stop/mute/play_buffer) derived from (seed, index); "
                      "distinct by (seed, index, build); non-trivial = the input was mutated (not the intact corpus file)")
    ck.assumptions += ["sanitizer policy of the project: address + undefined minus shift-base (quick), plus memory (thorough)",
                       "little-endian x86-64 host only"]


def replay(ck, rp):
    r = rp["replay"]
    variant = "msan" if "msan" in r.get("harness", "") else "asan"
    exe = vlib.build_harness("c01_fuzz", ["c01_fuzz.c"], variant=variant)
    rc, out, err = vlib.run_exe(exe, r["args"] + r["files"])
    print(out.decode("latin-1")[-1500:])
    print(err[-4000:])
    if rc != 0:
        print("VIOLATION property=C01 replay=(replayed)")
        return 1
    return 0
