"""C15 — Playback never alters the loaded module.

proof   : XmpProps.C15 over XmpModel.Wrap (init/reset_sample_wraparound + the softmixer's per-voice control
          skeleton) and over the generated store-site list XmpModel.Gen.DataWriters
tie     : (T) tools/gen_data_writers.py regenerates, from the clang AST of the player-side sources, every store into a
              module table (file, function, class) + LOOP_PROLOGUE/EPILOGUE + the guard sizes of libxmp_load_sample;
              C15_writers / C15_patch_in_bounds are re-proved against them on every run;
          (C) harness/c15_wrap.c (TU-includes mixer.c) vs native driver drv_c15:
              wrap: real init/reset_sample_wraparound on random sample arrays / voice parameters: loop_data fields, the
                    patched memory and the restored memory, element by element;
              skel: real libxmp_mixer_softmixer on corpus modules with every mix kernel intercepted: the sample memory
                    around the loop points at every kernel call vs the model's control skeleton replayed on the observed
                    voice parameters; all sample allocations equal to their snapshot when the softmixer returns
search  : harness/c15_digest.c — deep snapshot of every module table incl. sample guard frames compared after EVERY API
          call over random play/seek/position/restart/stop/inject histories, 3 interpolators, rates, formats, with
          Protracker invert-loop effects injected; invert-loop writes tolerated only inside the loop of the sample
"""
import os
import re
import vlib
import gen_data_writers
import gen_c14_synth

LEVEL = "proof"
MANIFEST = dict(
    category="proof",
    text="Lean 4 theorems (XmpProps.C15). C15_restore: reset_sample_wraparound(init_sample_wraparound(d)) = d for ALL voice parameters, 8/16 "
         "bit, mono/stereo, forward/bidirectional, first loop or not, any interpolator, any memory. C15_patch_frame / C15_reset_frame / "
         "C15_patch_in_bounds(_wf) / C15_voice_bounds: only the prologue/epilogue blocks are stored to; adjust_voice_end yields "
         "0<=start<=end<=len for every loop state of a voice on a well-formed sample; with the guard sizes generated from "
         "libxmp_load_sample the blocks lie inside the allocation. C15_skeleton(_voice,_kernel_view): along EVERY path of the modelled "
         "voice loop (early continues, break, one-shot end, swap stop, hot swap to arbitrary samples, loop change) the sample table "
         "equals the original when control leaves a voice iteration and every mix kernel sees exactly the patched original. "
         "C15_skeleton_shape: the control flow of the real function(s) calling patch/restore, regenerated from the clang AST, passes an "
         "abstract interpretation (never leaves a voice iteration or the function patched, never patches/restores twice). "
         "C15_invloop_in_loop: update_invloop stores only inside [lps,lpe) (sustain loop if that is all the sample has); "
         "C15_invloop_fields_wide/_c_refines/_c_run: with the DECLARED C types of xc->invloop (regenerated from the AST) the function equals "
         "the unbounded model on every reachable state and stays in the loop for any number of ticks (the position field must hold every "
         "loop bound); C15_patch_index_fields_wide; C15_no_local_static (no writable function-local static on writer paths); "
         "C15_invloop_off_silent: never at speed 0; C15_invloop_target_coherent: the sample it writes (xc->smp) stays the one the "
         "channel's voice plays or has queued over every history of notes, Protracker swaps, hot swaps, voice losses. C15_writers: every "
         "store into pattern/track/event/instrument/envelope/sample storage made by ANY function reachable from a post-load API call "
         "(call graph over all of src/ closed from include/xmp.h: direct calls, address-taken functions, function-pointer tables) belongs to "
         "an allowed class (the patch pair via loop_data.sptr, update_invloop, mod->len=0 in xmp_start_player, smix's own tables, "
         "loader-only extras constructors). Tied to /repo on every run by the regenerated store-site list, control skeleton and constants, "
         "by differential correspondences (real init/reset, adjust_voice_end, softmixer with intercepted kernels, update_invloop observed "
         "per tick vs the native Lean driver) and by a direct digest oracle over all module tables incl. guard frames after every API "
         "call (corpus modules with structure-aware variations, plus synthetic long-loop MODs rendered for tens of thousands of ticks), "
         "which yields replayable failing inputs.",
    note="Proof-level: patch/restore protocol and bounds, control skeleton (model + generated shape), invert-loop range, writer list. "
         "Not proved, only tied by sampling: that the C functions compute what the hand-written models say (correspondence on the cases "
         "run), and the soundness of the token abstraction of C15_skeleton_shape (structured control flow only; goto/switch/?: around "
         "patch calls are rejected as unsupported). Outside the translator's reach: stores made by callees outside the scanned "
         "player-side files, through pointers laundered via integers or non-local storage. Effect code other than update_invloop is "
         "covered by the writer list and the oracle, not modelled. Reads of the patch loops (16-bit stereo bidirectional with end=0 would "
         "read in front of the guard) are excluded by libxmp_load_sample's lps<lpe sanitation (assumed, C03). Instrument extras blobs "
         "(MED/HMN) and the module header/order list are not part of the digest verdict (header changes are counted). Findings fixed "
         "during construction: invloop-past-loop-end (7d6aa67), invloop-while-off (8676683). Trusted: Lean kernel, clang's AST + the walk in gen_data_writers.py, the "
         "harnesses and differ, ASan's allocation extents.",
    technique="Lean 4 proof (pointwise memory lemmas, frame + restore lemma, invariant over the control skeleton, decide over generated "
              "lists / abstract interpretation of a generated token stream) + clang-AST translator + differential correspondence + "
              "digest oracle",
    design_ref="DESIGN.md section 4 C15",
)
NS = "Xmp.Wrap."
REQUIRED = [NS + n for n in ("C15_restore", "C15_patch_frame", "C15_reset_frame", "C15_patch_in_bounds", "C15_guard_aligned",
                             "C15_voice_bounds", "C15_patch_in_bounds_wf",
                             "C15_skeleton_shape", "C15_invloop_in_loop", "C15_invloop_count_inv", "C15_invloop_off_silent_step",
                             "C15_invloop_off_silent", "C15_invloop_target_coherent", "C15_invloop_fields_wide", "C15_invloop_c_refines", "C15_invloop_c_inv",
                             "C15_invloop_in_loop_c", "C15_invloop_c_run", "C15_patch_index_fields_wide", "C15_no_local_static", "C15_invloop_unlooped_silent", "C15_skeleton_voice", "C15_skeleton_kernel_view", "C15_skeleton", "C15_writers",
                             "C15_writers_nonvacuous")]


def synth_modules(ck):
    """generated modules for formats with special voice handling (read-only reuse of the C14 generators): Oktalyzer
    split channel pairs (one-shot exit of the voice loop on looped samples), IT new-note actions with many background
    voices, voice slots changing owner, S3M/MOD with random effects; all carry looped samples"""
    d = os.path.join(vlib.OUT, "c15synth")
    g = gen_c14_synth
    return (g.okt_modules(d, ck.seed) + g.okt_modules(d, ck.seed + 1000) + g.nna_modules(d, ck.seed) +
            g.reuse_modules(d, ck.seed) + g.generate(d, ck.seed, 2))


def corpus(ck, n, want_mod=4):
    files = [f for f in vlib.corpus_files() if 0 < os.path.getsize(f) < 300000]
    mods = [f for f in files if f.lower().endswith(".mod")]
    fixed = [f for f in files if "/test/test." in f and not f.endswith(".itz")]
    rest = [f for f in files if f not in fixed]
    ck.rng.shuffle(rest)
    ck.rng.shuffle(mods)
    out = fixed + mods[:want_mod] + rest[:n]
    seen, res = set(), []
    for f in out:
        if f not in seen:
            seen.add(f)
            res.append(f)
    return res


# ---------------------------------------------------------------- wrap correspondence

def wrap_shard(args):
    exe, seed, n = args
    rc, out, err = vlib.run_exe(exe, ["wrap", str(seed), str(n)], timeout=1200)
    return rc, out.decode("latin-1"), err


def do_wrap(ck, exe, nshards, per, stats):
    shards = [(exe, ck.seed * 7919 + i, per) for i in range(nshards)]
    for (rc, out, err), sh in zip(vlib.pmap(wrap_shard, shards), shards):
        if rc != 0:
            sig = vlib.sanitizer_signature(err)
            ck.violation("harness-abort:" + sig, {"cmd": ["c15_wrap", "wrap", str(sh[1]), str(sh[2])], "stderr": err[-3000:]},
                         "init/reset_sample_wraparound harness aborted (rc=%d): %s" % (rc, sig))
            continue
        lines = out.splitlines()
        cases, cur = [], None
        vends = [l for l in lines if l.startswith("vend ")]
        if vends and ck.lean_ok:
            got = vlib.run_driver("drv_c15", "\n".join(vends) + "\n")
            for l, g in zip(vends, got):
                stats["vend_cases"] += 1
                f = l.split(" ")
                ck.count(vlib.hash_str(l), nontrivial=f[2] == "1" or f[3] == "1")
                if g != "m_vend " + l.split(" | ")[1]:
                    ck.unproved("correspondence Wrap.adjustVoiceEnd vs adjust_voice_end", "%s\nmodel: %s" % (l, g))
                    break
            else:
                ck.cov["traces_validated_against_impl"] += len(vends)
        for l in lines:
            if l.startswith("wrap "):
                cur = {"in": l, "exp": [], "fail": []}
                cases.append(cur)
            elif cur is not None and l.startswith("r_"):
                cur["exp"].append(l)
            elif cur is not None and l.startswith("o_fail"):
                cur["fail"].append(l)
        model = vlib.run_driver("drv_c15", "\n".join(c["in"] for c in cases) + "\n") if ck.lean_ok else None
        for i, c in enumerate(cases):
            f = c["in"].split(" ")
            active = c["exp"] and c["exp"][0].startswith("r_init 1")
            ck.count(vlib.hash_str(c["in"]), nontrivial=bool(active))
            stats["wrap_cases"] += 1
            stats["wrap_active"] += 1 if active else 0
            stats["wrap_16bit"] += f[1] == "1"
            stats["wrap_stereo"] += f[2] == "1"
            stats["wrap_bidir"] += f[7] == "1"
            stats["wrap_first_loop"] += f[6] == "0"
            stats["wrap_start0"] += f[8] == "0"
            ck.sample({"wrap": c["in"][:120], "real": [e[:100] for e in c["exp"]]}, limit=2)
            if c["fail"]:
                ck.violation("wrap-restore", {"how": "harness c15_wrap wrap %d %d (case #%d)" % (sh[1], sh[2], i), "case": c["in"],
                                              "real": c["exp"], "oracle": c["fail"]},
                             "sample memory differs after init_sample_wraparound + reset_sample_wraparound: " + c["fail"][0])
                continue
            if model is not None:
                m = model[2 * i:2 * i + 2]
                if m != c["exp"]:
                    ck.unproved("correspondence Wrap.initWrap/resetWrap vs init/reset_sample_wraparound",
                                "case: %s\nreal : %s\nmodel: %s" % (c["in"], c["exp"], m))
                else:
                    ck.cov["traces_validated_against_impl"] += 1


# ---------------------------------------------------------------- skeleton correspondence

def skel_shard(args):
    exe, seed, nframes, maxelems, mods = args
    rc, out, err = vlib.run_exe(exe, ["skel", str(seed), str(nframes), str(maxelems)] + mods, timeout=2400)
    return rc, out.decode("latin-1"), err


def do_skel(ck, exe, mods, nshards, nframes, maxelems, stats):
    shards = [(exe, ck.seed * 104729 + i, nframes, maxelems, mods[i::nshards]) for i in range(nshards) if mods[i::nshards]]
    for (rc, out, err), sh in zip(vlib.pmap(skel_shard, shards), shards):
        if rc != 0:
            sig = vlib.sanitizer_signature(err)
            ck.violation("harness-abort:" + sig, {"cmd": ["c15_wrap", "skel"] + [str(x) for x in sh[1:4]] + sh[4], "stderr": err[-3000:]},
                         "softmixer skeleton harness aborted (rc=%d): %s" % (rc, sig))
            continue
        lines = out.splitlines()
        m = re.search(r"mix_skipped=(\d+)", err)
        stats["skel_mix_skipped"] += int(m.group(1)) if m else 0
        model = vlib.run_driver("drv_c15", out, timeout=2400) if ck.lean_ok else None
        mi = 0
        cur, ok, loopflag = None, True, {}
        for l in lines:
            if l.startswith("skel_begin "):
                cur, ok, loopflag = l, True, {}
                stats["skel_modules"] += 1
            elif l.startswith("sample "):
                f = l.split(" ", 6)
                loopflag[f[1]] = f[4] == "1"
            elif l.startswith("o_fail"):
                ck.violation("softmixer-unrestored", {"how": "harness c15_wrap skel " + " ".join(str(x) for x in sh[1:4]) + " <module>",
                                                      "module": cur, "oracle": l},
                             "sample memory not restored when libxmp_mixer_softmixer returns: " + l)
                ok = False
            elif l.startswith("vend "):
                stats["skel_vend"] += 1
                if model is not None:
                    got = model[mi] if mi < len(model) else "<missing>"
                    mi += 1
                    if got != "m_vend " + l.split(" | ")[1] and ok:
                        ok = False
                        ck.unproved("correspondence Wrap.adjustVoiceEnd vs adjust_voice_end", "%s\n%s\nmodel: %s" % (cur, l, got))
            elif l.startswith("mix "):
                head, real = l.split(" | ")
                f = head.split(" ")
                active = loopflag.get(f[2], False) and f[7] == "0"
                ck.count(vlib.hash_str(head + real), nontrivial=active)
                stats["skel_mix_calls"] += 1
                stats["skel_mix_patched"] += 1 if active else 0
                if model is not None:
                    got = model[mi] if mi < len(model) else "<missing>"
                    mi += 1
                    if got != "m_mix " + real and ok:
                        ok = False
                        ck.unproved("correspondence Wrap.runInner (softmixer skeleton) vs libxmp_mixer_softmixer",
                                    "%s\n%s\nreal : %s\nmodel: %s" % (cur, head, real, got))
            elif l.startswith("tickend "):
                stats["skel_ticks"] += 1
                if model is not None:
                    got = model[mi] if mi < len(model) else "<missing>"
                    mi += 1
                    if got != "m_tickend 0" and ok:
                        ok = False
                        ck.unproved("correspondence Wrap.softmixer vs libxmp_mixer_softmixer", "%s: model table differs at tick end: %s" % (cur, got))
            elif l.startswith("skel_end"):
                if ok and model is not None:
                    ck.cov["traces_validated_against_impl"] += 1


# ---------------------------------------------------------------- digest oracle

def digest_shard(args):
    exe, seed, ncases, nops, mods = args
    rc, out, err = vlib.run_exe(exe, ["run", str(seed), str(ncases), str(nops)] + mods, timeout=3000)
    return rc, out.decode("latin-1"), err


# past failures, run first on every run: (case seed, ops, module relative to the repository).  The first three made
# update_invloop flip the byte AT the loop end before the repair 7d6aa67 (signature invloop-past-loop-end).
# NOTE: the harness draws all decisions added after these were recorded from a second RNG stream, so the histories stay the same.
REGRESSION = [(2000021, 300, "test-dev/data/ode2ptk.mod"), (2000019, 300, "test-dev/data/ode2ptk.mod"),
              (2000023, 300, "test-dev/data/ode2ptk.mod"), (2000027, 300, "test-dev/data/ode2ptk.mod"),
              # update_invloop fired at speed 0 from a stale counter before the repair 8676683 (invloop-while-off)
              (15485918457630, 500, "test-dev/data/bzip2data")]


def regression_shard(args):
    exe, cs, nops, path = args
    rc, out, err = vlib.run_exe(exe, ["one", str(cs), str(nops), path, "-g1"], timeout=1200)
    return rc, out.decode("latin-1"), err


def probe_features(exe, files):
    """asked from the real loader: modules on which the invert-loop effect can act (quirk + 8-bit looped samples),
    modules with non-default instrument volumes, modules whose instrument and sample numbers differ"""
    chunks = [files[i::16] for i in range(16) if files[i::16]]
    res = vlib.pmap(lambda c: vlib.run_exe(exe, ["probe"] + c, timeout=600), chunks)
    inv, insvol, mism = [], [], []
    for rc, out, err in res:
        for l in out.decode("latin-1").splitlines():
            f = l.rsplit(" ", 4)
            if not l.startswith("probe ") or len(f) != 5:
                continue
            path = f[0][6:]
            if f[1] == "1" and int(f[2]) > 0:
                inv.append(path)
            if int(f[3]) > 0:
                insvol.append(path)
            if int(f[4]) > 0 and int(f[2]) > 0:
                mism.append(path)
    return sorted(inv), sorted(insvol), sorted(mism)


def check_inv(ck, inv_lines, stats):
    """model of update_invloop vs the observed channel state and flipped bytes; channel/voice coherence"""
    if not inv_lines or not ck.lean_ok:
        return
    model = vlib.run_driver("drv_c15", "\n".join(l for _, l in inv_lines) + "\n")
    NF, OFF = 23, 24      # fields: number of flipped bytes in xc->smp, first flipped offset
    # how many channels fired on the same sample in the same call (two flips of one byte cancel)
    fired = {}
    rows = []
    for (case, l), m in zip(inv_lines, model):
        f = l.split(" ")
        mw = m.split(" ")
        alts = [a.split(":") for a in mw[1:4]]
        coh = mw[4] == "coh=1"
        real = (f[6], f[7])
        match = [a for a in alts if (a[0], a[1]) == real]
        rows.append((case, l, f, alts, match, coh))
        if match and match[0][2] != "-":
            fired[(case["case_seed"], f[1], f[8])] = fired.get((case["case_seed"], f[1], f[8]), 0) + 1
    for case, l, f, alts, match, coh in rows:
        stats["inv_lines"] += 1
        stats["inv_voice_mapped"] += f[9] == "1"
        stats["inv_swap_queued"] += f[11] == "1"
        skipped = (f[6], f[7]) == (f[4], f[5])
        if not match and not skipped and (f[6], f[7], f[NF]) == ("0", "0", "0"):
            # the player reset the channel in this tick and update_invloop did not run afterwards; nothing was stored
            stats["inv_reset_without_update"] += 1
            continue
        if not match and not skipped:
            ck.unproved("correspondence Wrap.invloopStep vs update_invloop",
                        "case %s\n%s\nmodel alternatives (count:pos:index) %s" % (case["line"], l, alts))
            continue
        if not match:
            stats["inv_skipped_tick"] += 1
            continue
        idx = match[0][2]
        if idx != "-" and f[NF] == "0" and (skipped or (f[6], f[7]) == ("0", "0")):
            # the state after a firing step equals the state before it (counter 0 -> 128 -> 0 at full speed on a
            # one-byte loop: position 0 -> 0), so "update_invloop did not run for this channel in this tick" cannot be
            # told from "it fired"; likewise the state (0,0) after a firing step that wraps the position equals the state
            # after the player reset the channel without running update_invloop; nothing was flipped, so it did not run
            stats["inv_skipped_tick_ambiguous"] += 1
            continue
        ck.count(vlib.hash_str(" ".join(f[3:23])), nontrivial=idx != "-")
        if idx != "-":
            stats["inv_stores"] += 1
            if fired.get((case["case_seed"], f[1], f[8]), 0) == 1 and not (f[NF] == "1" and f[OFF] == idx):
                ck.unproved("correspondence Wrap.invloopStep vs update_invloop (stored index)",
                            "case %s\n%s\nmodel stores at %s, real flipped %s byte(s), first at %s" % (case["line"], l, idx, f[NF], f[OFF]))
            if not coh and int(f[13]) & 2:
                # voice and channel disagree, but the channel's sample is one of its current instrument's: the stale
                # pending swap of libxmp_mixer_queuepatch (reported separately; the effect acts on the channel's choice)
                stats["inv_stores_voice_on_other_sample"] += 1
            elif not coh:
                # the channel wrote into a sample its voice neither plays nor has queued (C15_invloop_target_coherent's
                # invariant does not hold on the real state); the oracle reports the flipped byte as a violation
                stats["inv_incoherent_stores"] += 1
                ck.unproved("correspondence Wrap.ChanVoice.coherent vs channel/voice state at an invert-loop store",
                            "case %s\n%s" % (case["line"], l))
        ck.cov["traces_validated_against_impl"] += 1


def long_shard(args):
    exe, cs, nticks = args
    rc, out, err = vlib.run_exe(exe, ["long", str(cs), str(nticks)], timeout=3000)
    return rc, out.decode("latin-1"), err


def do_digest(ck, exe, mods, nshards, ncases, nops, stats, nlong=0, nticks=0):
    # regression corpus first
    reg = [(exe, cs, n, os.path.join(vlib.REPO, p)) for cs, n, p in REGRESSION if os.path.exists(os.path.join(vlib.REPO, p))]
    shards = []
    for i in range(nshards):
        ms = [mods[(i * ncases + j) % len(mods)] for j in range(ncases)]
        shards.append((exe, ck.seed * 15485863 + i, ncases, nops, ms))
    # long runs on synthetic long-loop modules (long histories x large geometry), longest jobs first
    longs = [(exe, ck.seed * 32452843 + i, nticks) for i in range(nlong)]
    jobs = [(long_shard, a) for a in longs] + [(regression_shard, a) for a in reg] + [(digest_shard, a) for a in shards]
    results = vlib.pmap(lambda j: j[0](j[1]), jobs)
    inv_lines = []
    for (rc, out, err), sh in zip(results, longs + reg + shards):
        cur = None
        for l in out.splitlines():
            if l.startswith("case "):
                f = l.split(" ")
                cur = {"case_seed": int(f[1]), "nops": int(f[2]), "path": f[3], "line": l, "gen": 1 if " gen=1 " in l else 2}
                stats["digest_cases_mutated_events"] += " mut=0" not in l
                stats["digest_cases_extreme_c5spd"] += not l.endswith("c5spd=0")
                stats["digest_cases"] += 1
                stats["digest_long_synthetic_cases"] += f[3] == "@synthetic"
                stats["digest_cases_with_invloop_fx"] += "invloopfx=1" in l
                stats["digest_interp_" + re.search(r"interp=(\d)", l).group(1)] += 1
            elif l.startswith("inv ") and cur and len(l.split(" ")) == 25:
                inv_lines.append((cur, l))
            elif l.startswith("o_fail ") and cur:
                f = l.split(" ", 3)
                ck.violation(f[1], {"how": "python3 tools/check.py C15 --replay <this file>  (runs: c15_digest one <case_seed> <nops> <path> -v)",
                                    "case_seed": cur["case_seed"], "nops": cur["nops"], "path": cur["path"], "gen": cur["gen"], "oracle": l},
                             "module data changed across an API call: %s [%s]" % (l[7:], os.path.basename(cur["path"])))
            elif l.startswith("end frames=") and cur:
                fr = int(l.split("=")[1])
                ck.count("digest:%d" % cur["case_seed"], nontrivial=fr > 0)
                ck.sample({"digest_case": cur["line"], "frames": fr}, limit=5)
            elif l.startswith("total "):
                for k, v in re.findall(r"(\w+)=(\d+)", l):
                    stats["digest_" + k] += int(v)
        if rc != 0:
            sig = vlib.sanitizer_signature(err)
            mode = "run" if len(sh) == 5 else ("long" if len(sh) == 3 else "one")
            ck.violation("harness-abort:" + sig, {"cmd": ["c15_digest", mode] + [str(x) for x in sh[1:4]] + (sh[4] if len(sh) == 5 else []),
                                                  "last_case": cur, "stderr": err[-3000:]},
                         "digest oracle aborted (rc=%d): %s" % (rc, sig))
    check_inv(ck, inv_lines, stats)
    ck.cov["evaluations"] += stats["digest_calls"]


class Stats(dict):
    def __missing__(self, k):
        return 0


def run(ck):
    quick = ck.tier == "quick"
    # 1. translator
    try:
        changed = gen_data_writers.write(vlib.REPO)
        ck.note("data_writers_regenerated", bool(changed))
    except gen_data_writers.GenError as e:
        ck.unproved("translator gen_data_writers (store sites / guard constants of the working tree)", str(e))
    # 2. proofs
    ck.proofs(["XmpProps.C15"], required=REQUIRED, drivers=["drv_c15"])
    stats = Stats()
    # 3. correspondence
    wexe = vlib.build_harness("c15_wrap", ["c15_wrap.c"])
    do_wrap(ck, wexe, 16, 1500 if quick else 60000, stats)
    mods = corpus(ck, 28 if quick else 220, want_mod=4 if quick else 30)
    smods = synth_modules(ck)
    ck.note("synthetic_special_voice_modules", len(smods))
    mods = smods + mods
    do_skel(ck, wexe, mods, 16, 50 if quick else 400, 60000 if quick else 120000, stats)
    # 4. direct oracle
    dexe = vlib.build_harness("c15_digest", ["c15_digest.c"])
    dmods = corpus(ck, 300 if quick else 400, want_mod=30 if quick else 60)
    inv_mods, insvol_mods, mism_mods = probe_features(dexe, [f for f in vlib.corpus_files() if 0 < os.path.getsize(f) < 300000])
    ck.note("invloop_capable_modules", len(inv_mods))
    ck.note("modules_with_instrument_volumes", len(insvol_mods))
    ck.note("modules_with_instrument_ne_sample_numbers", len(mism_mods))
    # feature-guided selection: every third case plays a module the invert-loop effect can act on, every third one
    # with instrument volumes / multi-sample instruments; the rest is drawn from the whole corpus
    for lst, off in ((inv_mods, 0), (insvol_mods + mism_mods, 1)):
        if lst:
            ck.rng.shuffle(lst)
            for k, j in enumerate(range(off, len(dmods), 3)):
                dmods[j] = lst[k % len(lst)]
    for k, j in enumerate(range(2, len(dmods), 6)):
        dmods[j] = smods[k % len(smods)]
    do_digest(ck, dexe, dmods, 16, 24 if quick else 200, 150 if quick else 500, stats,
              nlong=6 if quick else 32, nticks=48000 if quick else 140000)
    for k, v in sorted(stats.items()):
        ck.note(k, v)
    ck.cov["rule"] = ("wrap: one case = (8/16 bit, mono/stereo, len, start<=end<=len with edges favoured, loop flag, first-loop, bidir, "
                      "interpolator, NULL sptr, random memory incl. guards), non-trivial = the patch is active; skel: one evaluation = one "
                      "intercepted mix-kernel call of the real softmixer (voice parameters + memory windows), non-trivial = the sample loops "
                      "and the interpolator is not nearest (memory really patched); digest: one evaluation = one API call after which all "
                      "module tables were compared, distinct per case seed, non-trivial = the case rendered at least one frame")
    ck.assumptions += [
        "a sample flagged XMP_SAMPLE_LOOP has lps < lpe <= len and sustain loops sus < sue <= len (libxmp_load_sample / load epilogue, C03)",
        "ASan's __asan_locate_address reports the exact extent of a sample allocation (used instead of hard-coded guard sizes)",
        "voice parameters at a kernel call are those init_sample_wraparound saw (start/end/SAMPLE_LOOP change only together with a re-init)",
    ]


def replay(ck, rp):
    r = rp.get("replay", {})
    if isinstance(r, dict) and "case_seed" in r:
        exe = vlib.build_harness("c15_digest", ["c15_digest.c"])
        if r["path"] == "@synthetic":
            rc, out, err = vlib.run_exe(exe, ["long", str(r["case_seed"]), str(r["nops"])], timeout=3000)
        else:
            rc, out, err = vlib.run_exe(exe, ["one", str(r["case_seed"]), str(r["nops"]), r["path"], "-v"] + (["-g1"] if r.get("gen") == 1 else []))
        text = out.decode("latin-1")
        fails = [l for l in text.splitlines() if l.startswith("o_fail")]
        print("\n".join(text.splitlines()[-25:]))
        print(err[-2000:])
        for l in fails[:10]:
            print(l)
        if rc != 0 or fails:
            print("VIOLATION property=C15 replay=%s" % rp.get("signature"))
            return 1
        return 0
    if isinstance(r, dict) and "cmd" in r:
        name = r["cmd"][0]
        exe = vlib.build_harness(name, [name + ".c"])
        rc, out, err = vlib.run_exe(exe, r["cmd"][1:])
        print(out.decode("latin-1")[-1500:])
        print(err[-3000:])
        if rc != 0:
            print("VIOLATION property=C15 replay=%s" % rp.get("signature"))
        return 1 if rc != 0 else 0
    print("replay object:", str(r)[:3000])
    print("this replay names a broken theorem or correspondence (no failing input was found); re-run the check to re-evaluate it")
    return 1
