"""C10 — loading untrusted modules stays inside the module's directory and process.

proof   : XmpProps.C10 over XmpModel.PathSafe (sanitiser, directory lookup, companion names, spawn
          decision) and over the generated call-site table XmpModel.Gen.OpenSites
tie     : (T) tools/gen_open_sites.py regenerates the table from the clang AST of every compiled
          translation unit; C10_sites_guarded / C10_fields_guarded / C10_argv_tie are re-proved (decide)
          (C) harness/c10_names.c runs the real libxmp_copy_name_for_fopen, libxmp_check_filename_case,
          libxmp_find_instrument_file, get_dirname/get_basename on adversarial byte strings and real
          scratch directories; drv_c10 runs the model on the same cases
          (C) harness/c10_opens.c: companion names opened by flt_load/mfp_load and argv of the helper
          spawn, as observed by link-time interposition, vs fltCompanions/mfpCompanions/decrunchDecision
search  : harness/c10_opens.c logs every fopen/open/opendir/stat/mkstemp/unlink/fork/exec*/popen/system
          issued by the library while testing/loading generated song-only MOD/STM/MED2/MED4/MFP/FLT files
          with attacker-chosen sample names from all entry points; the log is judged against the
          property directly
"""
import os
import shutil
import vlib
import gen_open_sites
import c10_opens

LEVEL = "proof"
MANIFEST = dict(
    category="proof",
    text="Lean 4 theorems (XmpProps.C10) prove for ALL byte strings that a sample name accepted by libxmp_copy_name_for_fopen is non-empty "
         "printable ASCII without '..', not '.', not starting with / \\ or : (C10_sanitised, with the exact byte-level rewrite relation), that "
         "the path the song-only loaders finally open is directory ++ entry for an existing entry of the instrument path or module directory "
         "other than '.'/'..' and without '/' (C10_confined) and that any name containing '/' opens nothing (C10_slash_never_matches); that the "
         "Startrekker/Magnetic Fields companion names are siblings of the module file and are not looked for without a path "
         "(C10_companion_flt_partial/_full, C10_companion_mfp/_none, C10_dirbase; for code that formats the Startrekker companion name without a length test C10_companion_flt_counterexample exhibits the truncated-path escape); that a helper program is started only for path loads of files not shorter than libxmp_decrunch's minimum (generated constant) with MO3/Rar "
         "signature not claimed by a built-in depacker, with the fixed argv holding the file name as one element (C10_exec, "
         "C10_exec_only_for_paths, C10_argv_single_argument). The premise that these are the only ways a path reaches the OS is the generated "
         "table of every open/stat/opendir/mkstemp/unlink/fork/exec call site of the compiled sources (clang AST of all translation units, "
         "data-flow classification of the path argument), re-proved guarded on every run (C10_sites_guarded, C10_fields_guarded, C10_argv_tie), together with the generated list of every path buffer variable and its storage class, all automatic, so no context or thread can open a path another one resolved (C10_path_buffers_automatic). "
         "The models are tied to the C by differential correspondence on adversarial names and real directories, and a link-time interposition "
         "oracle judges every OS call made during loads of generated hostile modules from all entry points, including two contexts loading multi-file modules from different directories in two threads with interleavings forced at the companion opens (judged per thread; thorough tier repeats them under ThreadSanitizer), and histories of load attempts on one context (every entry point, every kind of outcome, with and without release or a player run) in which each step is judged by the same oracle; the context-history model (C10_history_inv, C10_history_fields, C10_history_stream_loads: the directory a load may open from depends only on that load's own entry point and path) is compared with the real m->dirname/m->basename after every step.",
    note="Trusted: Lean kernel (propext/Classical.choice/Quot.sound), the hand-written model XmpModel/PathSafe.lean, tools/gen_open_sites.py "
         "(clang JSON AST + an intra-procedural provenance classifier that is conservative: unknown writes to a path buffer become class "
         "`other` and fail the theorem), the harnesses and the differ. Modelled-not-verified: readdir never returns names with '/', C locale "
         "for strcasecmp, the format parsers that deliver the sample name bytes, the dirent (non-Windows/Amiga) variants only, snprintf "
         "truncation of mfp_load's PATH_MAX buffer, TMPDIR pointing where the user wants temp files. Correspondence and oracle are sampled.",
    technique="Lean 4 proofs by induction over the sanitiser loop and case analysis of the lookup + decide over a translator-generated "
              "call-site table + differential correspondence + syscall-level interposition oracle",
    design_ref="DESIGN.md section 4 C10",
)
NS = "Xmp.PathSafe."
REQUIRED = [NS + t for t in (
    "C10_sanitised", "C10_sanitised_one_colon", "C10_confined", "C10_slash_never_matches", "C10_no_dir_no_open", "C10_dirbase",
    "C10_companion_flt_partial", "C10_companion_flt_full", "C10_companion_flt_counterexample", "C10_companion_mfp", "C10_companion_none", "C10_exec", "C10_exec_only_for_paths",
    "C10_argv_single_argument", "C10_sites_guarded", "C10_fields_guarded", "C10_argv_tie", "C10_path_buffers_automatic",
    "C10_history_inv", "C10_history_fields", "C10_history_stream_loads")]


def scratch_dir(ck, tag):
    d = os.path.join(vlib.OUT, "c10-%s-%d-%d" % (tag, ck.seed, os.getpid()))
    shutil.rmtree(d, ignore_errors=True)
    os.makedirs(d)
    return d


# ---------------------------------------------------------------- names correspondence

def run_names_shard(args):
    exe, seed, n, d = args
    os.makedirs(d, exist_ok=True)
    rc, out, err = vlib.run_exe(exe, [str(seed), str(n), d], timeout=900)
    shutil.rmtree(d, ignore_errors=True)
    return rc, out.decode("latin-1"), err


def names_correspondence(ck):
    exe = vlib.build_harness("c10_names", ["c10_names.c"])
    quick = ck.tier == "quick"
    nshards = 16
    per = 1500 if quick else 120000
    base = scratch_dir(ck, "names")
    shards = [(exe, ck.seed * 104729 + i, per, os.path.join(base, "s%d" % i)) for i in range(nshards)]
    results = vlib.pmap(run_names_shard, shards)
    shutil.rmtree(base, ignore_errors=True)
    stats, nbad = {}, {}
    for (rc, out, err), sh in zip(results, shards):
        if rc != 0:
            sig = vlib.sanitizer_signature(err)
            ck.violation("names-harness-abort:" + sig,
                         {"harness": "c10_names", "args": [str(sh[1]), str(sh[2]), "<scratch>"], "stderr": err[-3000:]},
                         "sanitiser/lookup harness aborted (rc=%d): %s" % (rc, sig))
            continue
        lines = out.splitlines()
        cases = [l for l in lines if not l.startswith("expect ")]
        exp = [l[7:] for l in lines if l.startswith("expect ")]
        if len(cases) != len(exp):
            raise vlib.InfraError("c10_names output malformed")
        mo = vlib.run_driver("drv_c10", "\n".join(cases) + "\n") if ck.driver_ok else None
        for i, (c, e) in enumerate(zip(cases, exp)):
            kind = c.split(" ", 1)[0]
            res = e.split(" ", 1)[0]
            k = "names_%s_%s" % (kind, "hit" if res in ("0", "1") and (kind == "copy") == (res == "0") else "miss") \
                if kind != "dirbase" else "names_dirbase"
            stats[k] = stats.get(k, 0) + 1
            # non-trivial: the sanitiser accepted / the lookup found something / a split with a directory part
            nontrivial = (kind == "copy" and res == "0") or (kind in ("cfc", "find", "ext") and res == "1") or \
                         (kind == "dirbase" and not e.startswith("- "))
            ck.count(vlib.hash_str(c), nontrivial=nontrivial)
            if i < 2:
                ck.sample({"case": c[:160], "real": e[:100]}, limit=6)
            if mo is not None:
                if mo[i] != e:
                    nbad[kind] = nbad.get(kind, 0) + 1
                    if nbad[kind] <= 3:
                        ck.unproved("correspondence PathSafe.%s vs C" % kind,
                                    "case `%s`: real=`%s` model=`%s`" % (c[:400], e[:200], mo[i][:200]))
                else:
                    ck.cov["traces_validated_against_impl"] += 1
    for k, v in sorted(stats.items()):
        ck.note(k, v)
    for k, v in sorted(nbad.items()):
        ck.note("names_%s_disagreements" % k, v)


def run(ck):
    bdir = vlib.build_repo("asan")
    gen = gen_open_sites.generate(bdir)
    ck.note("open_sites", len(gen["sites"]))
    ck.note("open_site_classes", sorted({r[4].split(" ")[0] for r in gen["sites"]}))
    ck.note("translation_units_examined", gen["units"])
    ck.note("functions_examined", gen["functions"])
    bad_sites = [r for r in gen["sites"] if r[4].startswith(".other") or r[4].startswith(".literal")]
    ck.proofs(["XmpProps.C10"], required=REQUIRED, drivers=["drv_c10"])
    # the model driver does not depend on the proofs: keep the correspondence and the exec expectation alive
    # when only a theorem broke
    ck.driver_ok = bool(ck.lean_ok) or vlib.lean_build(["drv_c10"])[0]
    ck.min_header = gen["min_header"]
    for r in bad_sites:
        # the theorem C10_sites_guarded is already broken by these; say which site it is
        ck.unproved("open site %s:%s -> %s" % (r[0], r[1], r[2]), "path argument of unguarded provenance: " + r[4])
    names_correspondence(ck)
    c10_opens.run_opens(ck)
    ck.cov["rule"] = ("names: (kind, bytes, n / directory listing) generated from VERIF_SEED, distinct by hash of the case line; non-trivial = "
                      "sanitiser accepted the name / lookup found an entry / path has a directory part. loads: (format, sample-name set, "
                      "entry point, module path) — non-trivial = the library issued at least one OS call beyond opening the given file")
    ck.assumptions += [
        "readdir() never yields an entry name containing '/' (hypothesis ListingOk of C10_confined)",
        "strcasecmp runs in the C locale (the harness never calls setlocale)",
        "the sample-name bytes the loaders pass on are whatever the file holds (format parsers are modelled-not-verified)",
        "module paths are shorter than PATH_MAX; Startrekker paths longer than 1020 bytes are outside C10_companion_flt's hypothesis",
    ]


def replay(ck, rp):
    r = rp.get("replay")
    if isinstance(r, dict) and r.get("harness") == "c10_names":
        # a sanitizer abort of the sanitiser/lookup harness: same seed and case count again
        exe = vlib.build_harness("c10_names", ["c10_names.c"])
        d = scratch_dir(ck, "replay")
        rc, out, err = vlib.run_exe(exe, [r["args"][0], r["args"][1], d], timeout=900)
        shutil.rmtree(d, ignore_errors=True)
        print(err[-3000:])
        print("c10_names %s %s -> rc=%d" % (r["args"][0], r["args"][1], rc))
        if rc != 0:
            print("VIOLATION property=C10 replay=(same file) [%s]" % vlib.sanitizer_signature(err))
        return 1 if rc != 0 else 0
    return c10_opens.replay(ck, rp)
