"""C05 — Public API obeys its documented state machine for any calls and arguments.

proof   : XmpProps.C05 over XmpModel.Api (model of the C, every export of libxmp.map) and XmpModel.ApiSpec
          (contract table written from docs/libxmp.rst): refinement, invariant, read-back, void-ignored, state edges
tie     : T  tools/gen_exports.py regenerates XmpModel/Gen/Exports.lean (libxmp.map symbols, xmp.h constants and
             prototypes, numbers quoted by the documentation); theorems over them are re-proved (`decide`)
          C  harness/c05_api.c runs random call sequences on the real library (ASan+UBSan, one process per sequence),
             the native driver drv_c05 runs Api.step on the same sequence: return value and a white-box snapshot of
             every modelled field are compared after every call
search  : the same runs + a systematic (state x function x boundary argument) walk; every real (state before, call,
          return, state after) is judged by ApiSpec (`Spec.ok`), the assumed input ranges by `EnvOk`; a sanitizer abort
          is a violation; failing sequences are shrunk by delta debugging
"""
import json
import os
import struct

import gen_exports
import vlib

LEVEL = "proof"
MANIFEST = dict(
    category="proof",
    text="Lean 4 theorems (XmpProps.C05) over a model of all 43 exported symbols written from the C (XmpModel/Api.lean) and an "
         "independent contract table written from docs/libxmp.rst (XmpModel/ApiSpec.lean): C05_refines_partial (every call, any int "
         "arguments, any state satisfying the proved invariant: return value allowed by the documentation, exactly the documented "
         "effect, no effect when refused, no out-of-bounds access, invariant preserved), C05_readback_* (xmp_get_player / "
         "xmp_channel_mute(-1) / xmp_channel_vol(-1) return the xmp_start_player default or the last successfully set value, by "
         "induction over call histories), C05_void_ignored, C05_state, C05_exports_covered (regenerated export list, decide). "
         "The two known deviating returns (xmp_set_position(0) / xmp_next_position returning the internal marker -1) are excluded by "
         "an explicit decidable hypothesis and recorded as proved counterexamples. Tie: differential correspondence of the model "
         "against the real library on random and systematic call sequences (return + white-box snapshot after every call) and a "
         "direct oracle (ApiSpec evaluated on the real observations, sanitizers on).",
    note="Trusted: Lean kernel; the hand-written model and contract table; the translator; harness and differ. Entering the model "
         "as inputs (assumed ranges checked on every real call, not proved here): result and module facts of a load attempt "
         "(chn<=64, len<=256, ins<=255: C03), allocation success inside xmp_start_player/xmp_start_smix, xmp_play_frame's verdict "
         "(0/-XMP_END) and p->pos after sequencer calls (C16/C17), validity of xmp_set_tempo_factor's tick size. Pointer arguments "
         "are always valid in the harness (NULL contexts/info pointers out of scope); injected events are benign (note/ins/vol). "
         "Documentation drift (rst vs code: default mix 70 vs 100, volume 0..100 vs 0..200, rates 8k..48k vs header 4000..49170, "
         "readable SMPCTL/DEFPAN before playing) is tolerated by the table and reported in the evidence, not as a violation. "
         "Correspondence is sampled, not exhaustive.",
    technique="Lean 4 refinement proof (model of the C vs documented contract table) + induction over call histories + regenerated "
              "export/constant facts + differential correspondence and spec oracle under ASan/UBSan with delta-debugged replays",
    design_ref="DESIGN.md section 4 C05, section 5 F3 F4 F7 F8",
)

REQUIRED = ["Xmp.Api.C05_exports_covered", "Xmp.Api.C05_no_stale_export", "Xmp.Api.C05_void_classification",
            "Xmp.Api.C05_refines_partial", "Xmp.Api.C05_inv_init", "Xmp.Api.C05_inv_history",
            "Xmp.Api.C05_counterexample_set_position", "Xmp.Api.C05_counterexample_next_position",
            "Xmp.Api.C05_deviates_iff", "Xmp.Api.C05_void_ignored", "Xmp.Api.C05_state",
            "Xmp.Api.C05_readback_param", "Xmp.Api.C05_readback_mute", "Xmp.Api.C05_readback_vol"]

INT_MIN, INT_MAX = -2147483648, 2147483647
EXPORT_OF = {"recreate": "xmp_create_context"}


def export_name(fn):
    return EXPORT_OF.get(fn, "xmp_" + fn)


def make_wav(path):
    n = 16000     # long enough to keep sounding over many frames
    data = bytes((i * 7) % 256 for i in range(n))
    hdr = b"RIFF" + struct.pack("<I", 36 + n) + b"WAVEfmt " + struct.pack("<IHHIIHH", 16, 1, 1, 8000, 8000, 1, 8) + b"data" + struct.pack("<I", n)
    open(path, "wb").write(hdr + data)
    # the same sound as 16-bit PCM (<wav>.16): external samples reach the mixer in both voice formats
    d16 = b"".join(struct.pack("<h", ((b - 128) << 8)) for b in data)
    hdr = (b"RIFF" + struct.pack("<I", 36 + len(d16)) + b"WAVEfmt " + struct.pack("<IHHIIHH", 16, 1, 1, 8000, 16000, 2, 16)
           + b"data" + struct.pack("<I", len(d16)))
    open(path + ".16", "wb").write(hdr + d16)

    # files xmp_smix_load_sample must refuse: header fields it cannot hold in memory, other layouts
    def riff(chn, bits, size, body):
        return (b"RIFF" + struct.pack("<I", 36 + len(body)) + b"WAVEfmt " + struct.pack("<IHHIIHH", 16, 1, chn, 8000, 8000, 1, bits)
                + b"data" + struct.pack("<I", size & 0xffffffff) + body)
    open(path + ".short", "wb").write(riff(1, 8, 4 * n, data))
    open(path + ".neg", "wb").write(riff(1, 8, -4, data))
    open(path + ".big", "wb").write(riff(1, 8, 0x7ffffffc, data))
    open(path + ".b4", "wb").write(riff(1, 4, n, data))
    open(path + ".b1", "wb").write(riff(1, 1, n, data))
    open(path + ".st", "wb").write(riff(2, 8, n, data))


def pick_modules(ck, n):
    allf = vlib.corpus_files()
    files = [f for f in allf if 2000 < os.path.getsize(f) < 300000]
    # the repository's own small test modules are always in (test.xm: instruments != samples)
    fixed = [f for f in allf if "/test/test." in f and f.endswith((".xm", ".it", ".s3m", ".mod")) and os.path.getsize(f) < 300000]
    # one Amiga module (period table, Paula mixer, Protracker quirks) is always in as well
    fixed += [f for f in allf if f.endswith("/ode2ptk.mod")][:1]
    rest = [f for f in files if f not in fixed and not any(f.endswith(x) for x in (".gz", ".bz2", ".xz", ".zip", ".lha", ".Z", ".itz"))]
    ck.rng.shuffle(rest)
    return fixed + rest[:n]


# ---------------------------------------------------------------------------
# running sequences
# ---------------------------------------------------------------------------

def run_text(exe, args, timeout=1500):
    rc, out, err = vlib.run_exe(exe, args, timeout=timeout)
    return rc, out.decode("latin-1"), err


def split_sequences(text):
    """-> list of dict(id, lines (seq/c/o/endseq), calls [c-lines], crash or None)"""
    seqs, cur = [], None
    for line in text.splitlines():
        if line.startswith("seq "):
            cur = {"id": line.split()[1], "lines": [line], "calls": [], "crash": None}
            seqs.append(cur)
        elif line.startswith("fatal"):
            raise vlib.InfraError("harness: " + line)
        elif cur is None:
            continue
        elif line.startswith("crash "):
            f = line.split(" ", 3)
            cur["crash"] = f[3] if len(f) > 3 else "unknown"
        else:
            cur["lines"].append(line)
            if line.startswith("c "):
                cur["calls"].append(line)
    return seqs


def judge(seqs, use_model=True):
    """Feed the sequences to the Lean driver; returns list of findings per sequence and per-call rows.
    rows: (seq, k, fname, st, cls, agree, specReal, specModel, envOk, fault, ret, detail)"""
    text = "\n".join("\n".join(s["lines"]) for s in seqs) + "\n"
    out = vlib.run_driver("drv_c05", text)
    rows, crashes = [], []
    for line in out:
        f = line.split(" ", 12)
        if f[0] == "r":
            rows.append(f[1:])
        elif f[0] == "x":
            crashes.append(f[1:])
        elif f[0].startswith("bad"):
            raise vlib.InfraError("driver could not parse harness output: " + line)
    return rows, crashes


def spec_signature(fname, st, cls, ret, call_line):
    """Signature of a contract violation; the two known cells get exactly their registered names."""
    args = call_line.split()[2:] if call_line else []
    if fname == "set_position" and ret == "-1" and args and args[0] == "0":
        return "api:xmp_set_position(0)#ret"
    if fname == "next_position" and ret == "-1":
        return "api:xmp_next_position#ret"
    if fname == "set_position" and ret in ("-1", "-2") and args and args[0] != "0" and st == "2":
        # target order outside every sequence: the pending internal marker (restart -1 / stop -2) is returned
        return "api:xmp_set_position(nonzero)#ret=marker"
    return "api:%s[state=%s,%s]#ret=%s" % (export_name(fname), st, cls, ret if int(ret) < 0 else ">=0")


def findings_of(seq, rows, xrows):
    """All findings of one sequence: list of (kind, signature, what, k)"""
    out = []
    for r in rows:
        sid, k, fname, st, cls, agree, sreal, smodel, envok, fault, ret, detail = r
        call_line = seq["calls"][int(k)] if int(k) < len(seq["calls"]) else ""
        if sreal == "0":
            out.append(("spec", spec_signature(fname, st, cls, ret, call_line),
                        "%s in state %s returned %s: outside the documented contract (cell %s; call `%s`)" % (export_name(fname), st, ret, cls, call_line), int(k)))
        elif envok == "0":
            out.append(("env", "api:%s[state=%s]#input-range" % (export_name(fname), st),
                        "%s: a value decided outside the modelled functions left its assumed/documented range (ret %s; call `%s`)" % (export_name(fname), ret, call_line), int(k)))
        if agree == "0":
            out.append(("corr", "corr:" + fname, "model and library disagree at call #%s `%s`: %s" % (k, call_line, detail), int(k)))
    if seq["crash"] is not None:
        x = [x for x in xrows if x[0] == seq["id"]]
        fname, st = (x[0][2], x[0][3]) if x else ("?", "?")
        cr, _, where = seq["crash"].partition("@")
        kind = (cr.split(":")[0][:40] if not cr.startswith("ub:") else "ub") + "@" + where
        out.append(("crash", "api:%s[state=%s]#mem:%s" % (export_name(fname), st, kind),
                    "sanitizer/abort inside %s (state %s): %s" % (export_name(fname), st, seq["crash"]), len(seq["calls"]) - 1))
    return out


def group_rows(rows):
    by = {}
    for r in rows:
        by.setdefault(r[0], []).append(r)
    return by


# ---------------------------------------------------------------------------
# shrinking (delta debugging over the call list) and replay
# ---------------------------------------------------------------------------

def replay_calls(exe, wav, mods, calls, tag):
    path = os.path.join(vlib.OUT, "c05-replay-%s-%d.txt" % (tag, os.getpid()))
    open(path, "w").write("seq shrink 0\n" + "\n".join(calls) + "\nendseq shrink\n")
    rc, text, err = run_text(exe, ["replay", path, wav] + mods, timeout=120)
    os.unlink(path)
    seqs = split_sequences(text)
    if not seqs:
        return [], err
    rows, xrows = judge(seqs)
    return findings_of(seqs[0], rows, xrows), err


def shrink(exe, wav, mods, calls, signature, budget=80):
    """ddmin: smallest sub-list of calls that still produces `signature`."""
    def bad(cs):
        fs, _ = replay_calls(exe, wav, mods, cs, "shrink")
        return any(f[1] == signature for f in fs)
    if not bad(calls):
        return calls
    n = 2
    while len(calls) >= 2 and budget > 0:
        chunk = max(1, len(calls) // n)
        reduced = False
        for i in range(0, len(calls), chunk):
            cand = calls[:i] + calls[i + chunk:]
            budget -= 1
            if cand and bad(cand):
                calls, n, reduced = cand, max(n - 1, 2), True
                break
            if budget <= 0:
                break
        if not reduced:
            if chunk == 1:
                break
            n = min(len(calls), n * 2)
    return calls


# ---------------------------------------------------------------------------
# systematic walk: (state x function x boundary arguments)
# ---------------------------------------------------------------------------

def boundary(n):
    return [INT_MIN, -2, -1, 0, 1, n - 1, n, n + 1, 63, 64, 255, 256, INT_MAX]


def walk_sequences(quick):
    """Scripted sequences: a prefix establishing a state class, then single calls with boundary arguments."""
    prefixes = {
        "U": [],
        "U+smix": ["c start_smix 2 2 0 0", "c smix_load_sample 0 0 0 0"],
        "L": ["c load_module 0 1 0 0"],
        "P": ["c load_module 1 1 0 0", "c start_player 44100 0 0 0", "c play_frame 0 0 0 0"],
        "P+smix": ["c start_smix 2 2 0 0", "c smix_load_sample 0 0 0 0", "c load_module 0 1 0 0", "c start_player 22050 4 0 0",
                   "c play_frame 0 0 0 0"],
        "P-ended": ["c load_module 0 1 0 0", "c start_player 44100 0 0 0", "c stop_module 0 0 0 0", "c play_frame 0 0 0 0"],
        "P-restart": ["c load_module 0 1 0 0", "c start_player 44100 0 0 0", "c play_frame 0 0 0 0", "c restart_module 0 0 0 0"],
    }
    b = boundary
    one = {  # fname -> list of argument tuples
        "set_position": [(v,) for v in b(4)], "set_row": [(v,) for v in b(64)], "seek_time": [(v,) for v in b(1000)],
        "inject_event": [(v, 4660) for v in b(4)], "get_player": [(v,) for v in b(14)] + [(v,) for v in range(14)],
        "smix_release_sample": [(v,) for v in b(2)], "smix_load_sample": [(v, k, j) for v in b(2) for k in (0, 1, 2) for j in range({0: 2, 1: 2, 2: 6}[k])],
        "start_player": [(r, f) for r in (INT_MIN, -1, 0, 3999, 4000, 7999, 8000, 44100, 48000, 48001, 49170, 49171, INT_MAX)
                         for f in (0, 7, -1, INT_MIN, INT_MAX)],
        "play_buffer": [(nul, sz, lp) for nul in (0, 1) for sz in (INT_MIN, -1, 0, 1, 7, 4096, INT_MAX) for lp in (INT_MIN, -1, 0, 1, INT_MAX)],
        "set_tempo_factor": [(1 if i >= 5 else 0, i, 0) for i in range(18)] + [(1, -1, 1500)],
        "load_module": [(k, s, w) for k in range(4) for s in (1,) for w in (0, -1, -2, -3)] + [(1, s, 0) for s in (0, -1, INT_MIN)],
        "test_module": [(k, 1, w) for k in range(4) for w in (0, -1, -2, -3)],
        "set_instrument_path": [(0,), (1,)],
    }
    two = {
        "channel_mute": (b(6), [-2, -1, 0, 1, 2, 3, INT_MIN, INT_MAX, 255, 256]),
        "channel_vol": (b(6), [INT_MIN, -2, -1, 0, 1, 99, 100, 101, 255, 256, INT_MAX]),
        "smix_channel_pan": (b(2), b(256)),
        "start_smix": (b(60), [INT_MIN, -1, 0, 1, 2, 255, 256, INT_MAX]),
    }
    for fn, (xs, ys) in two.items():
        one[fn] = [(x, y) for x in xs for y in ys]
    parm_vals = {0: b(4), 1: b(101) + [-100, -101], 2: b(3), 3: b(2), 4: b(16), 5: b(16), 6: b(2), 7: b(201) + [100, 101, 200],
                 8: [0, 1], 9: b(201), 10: b(101), 11: b(11), 12: [0, 1], 13: b(128), 14: [0], -1: [0], INT_MAX: [0], INT_MIN: [0]}
    one["set_player"] = [(p, v) for p, vs in parm_vals.items() for v in vs]
    smix_args = [(i, n, v, c) for i in b(2) for c in b(2) for (n, v) in ((60, 64),)] + \
                [(0, n, v, 0) for n in b(121) for v in b(65)]
    one["smix_play_instrument"] = smix_args
    one["smix_play_sample"] = smix_args
    for fn in ("recreate", "version", "get_format_list", "syserrno", "release_module", "scan_module", "get_module_info", "get_frame_info",
               "play_frame", "end_player", "next_position", "prev_position", "stop_module", "restart_module", "end_smix"):
        one[fn] = [()]
    seqs = []
    for pname, prefix in prefixes.items():
        for fn, arglist in sorted(one.items()):
            if quick and len(arglist) > 60:
                arglist = arglist[::max(1, len(arglist) // 60)]
            # several argument tuples share one process: each call is followed by a state-restoring reprise of the prefix when needed
            for i in range(0, len(arglist), 8):
                calls = list(prefix)
                for args in arglist[i:i + 8]:
                    a = list(args) + [0] * (4 - len(args))
                    calls.append("c %s %d %d %d %d" % (fn, a[0], a[1], a[2], a[3]))
                    calls.append("c get_player 8 0 0 0")
                seqs.append(calls)
    return seqs


# ---------------------------------------------------------------------------

def run(ck):
    quick = ck.tier == "quick"
    gen = gen_exports.generate()
    ck.note("exports", len(gen["exports"]))
    ck.note("generated_changed", gen["changed"])
    drift = []
    c, d = gen["consts"], gen["doc"]
    if d["mixDefault"] != c["DEFAULT_MIX"]:
        drift.append("docs: default stereo mix %d, code DEFAULT_MIX %d" % (d["mixDefault"], c["DEFAULT_MIX"]))
    if d["rateLoK"] * 1000 != c["XMP_MIN_SRATE"] or d["rateHiK"] * 1000 != c["XMP_MAX_SRATE"]:
        drift.append("docs: sampling rate %dkHz..%dkHz, header XMP_MIN_SRATE..XMP_MAX_SRATE = %d..%d" % (
            d["rateLoK"], d["rateHiK"], c["XMP_MIN_SRATE"], c["XMP_MAX_SRATE"]))
    if gen["doc_missing"]:
        drift.append("documentation sentences not found (fallback numbers used): %s" % gen["doc_missing"])
    ck.note("doc_error_names", {k: v for k, v in gen["doc_errors"].items() if v})

    import time
    t0 = time.time()
    ck.proofs(["XmpProps.C05"], required=REQUIRED, drivers=["drv_c05"])
    ck.note("t_proofs_s", round(time.time() - t0, 1))
    if not os.path.exists(vlib.lean_driver("drv_c05")):
        raise vlib.InfraError("driver drv_c05 was not built")

    exe = vlib.build_harness("c05_api", ["c05_api.c"])
    wav = os.path.join(vlib.OUT, "c05-blip.wav")
    make_wav(wav)
    mods = pick_modules(ck, 10 if quick else 40)

    nshards = vlib.NCPU
    per = 600 if quick else 12500
    maxlen = 60

    def shard(i):
        seed = ck.seed * 7919 + i
        rc, text, err = run_text(exe, ["gen", str(seed), str(per), str(maxlen), wav] + mods, timeout=3000)
        if rc != 0:
            raise vlib.InfraError("harness failed (rc=%d): %s" % (rc, err[-1500:]))
        seqs = split_sequences(text)
        rows, xrows = judge(seqs)
        return seqs, rows, xrows, err

    # systematic walk (replay mode, many sequences per process)
    walk = walk_sequences(quick)

    def walk_shard(i):
        mine = walk[i::nshards]
        path = os.path.join(vlib.OUT, "c05-walk-%d-%d.txt" % (os.getpid(), i))
        with open(path, "w") as f:
            for j, calls in enumerate(mine):
                f.write("seq w%d.%d 0\n%s\nendseq w\n" % (i, j, "\n".join(calls)))
        rc, text, err = run_text(exe, ["replay", path, wav] + mods[:1] + mods[:3], timeout=3000)
        os.unlink(path)
        seqs = split_sequences(text)
        rows, xrows = judge(seqs)
        return seqs, rows, xrows, err

    # corpus of past failures first (kept as regression cases)
    corpus_results, seq_mods = [], {}
    cdir = os.path.join(vlib.VERIF, "corpus", "C05")
    for fn in sorted(os.listdir(cdir)) if os.path.isdir(cdir) else []:
        txt = open(os.path.join(cdir, fn)).read()
        m = [l.split(":", 1)[1].split() for l in txt.splitlines() if l.startswith("# modules:")]
        cm = [os.path.join(vlib.VERIF, x[6:]) if x.startswith("verif:") else os.path.join(vlib.REPO, x)
              for x in (m[0] if m else ["test/test.xm"])]
        rc, text, err = run_text(exe, ["replay", os.path.join(cdir, fn), wav] + cm, timeout=300)
        seqs = split_sequences(text)
        rows, xrows = judge(seqs)
        for s in seqs:
            seq_mods[s["id"]] = cm
        corpus_results.append((seqs, rows, xrows, err))
    ck.note("corpus_cases", len(corpus_results))

    results = corpus_results + vlib.pmap(shard, range(nshards)) + vlib.pmap(walk_shard, range(nshards))

    def mods_of(s):
        if s["id"] in seq_mods:
            return seq_mods[s["id"]]
        return mods[:1] + mods[:3] if s["id"].startswith("w") else mods

    ck.note("t_runs_s", round(time.time() - t0 - ck.notes["t_proofs_s"], 1))
    cells, classes = {}, {}
    stats = {"sequences": 0, "calls": 0, "calls_in_playing": 0, "crashes": 0, "spec_violations": 0, "correspondence_diffs": 0,
             "refused_state": 0, "refused_invalid": 0, "tolerated_cells": 0, "sequences_reaching_playing": 0, "walk_sequences": len(walk)}
    seen_sig = {}
    for seqs, rows, xrows, err in results:
        by = group_rows(rows)
        for s in seqs:
            rs = by.get(s["id"], [])
            stats["sequences"] += 1
            stats["calls"] += len(rs)
            playing = refused = changed = 0
            for r in rs:
                key = (r[2], r[3], r[4])
                cells[key] = cells.get(key, 0) + 1
                classes[r[4]] = classes.get(r[4], 0) + 1
                if r[3] == "2":
                    playing += 1
                if r[4].startswith("state") or r[4] == "invalid":
                    refused += 1
                if r[2] in ("load_module", "start_player", "set_player", "channel_mute", "channel_vol", "start_smix") and r[4] == "success":
                    changed += 1
            stats["calls_in_playing"] += playing
            stats["sequences_reaching_playing"] += 1 if playing else 0
            fs = findings_of(s, rs, xrows)
            ck.count(vlib.hash_str("\n".join(s["calls"])), nontrivial=(playing > 0 and refused > 0 and changed > 0))
            if not fs:
                ck.cov["traces_validated_against_impl"] += 1
            for kind, sig, what, k in fs:
                if kind == "crash":
                    stats["crashes"] += 1
                elif kind == "corr":
                    stats["correspondence_diffs"] += 1
                else:
                    stats["spec_violations"] += 1
                if sig in seen_sig:
                    continue
                seen_sig[sig] = True
                calls = s["calls"][:k + 1]
                if kind == "corr":
                    # the property itself holds on this case (the oracle said so): broken correspondence
                    small = shrink(exe, wav, mods_of(s), calls, sig, budget=40)
                    ck.unproved("correspondence Api.step vs xmp_" + sig[5:], what + " ; shrunk replay: " + " | ".join(small))
                    continue
                if ck._match_known(sig) is None:
                    calls = shrink(exe, wav, mods_of(s), calls, sig)
                ck.violation(sig, {"how": "python3 tools/check.py C05 --replay <this file>", "calls": calls,
                                   "modules": mods_of(s), "stderr": err[-1500:] if kind == "crash" else ""},
                             what)
    if ck.cov["samples"] == [] and results:
        s0 = results[0][0][0]
        ck.sample({"sequence": s0["id"], "calls": s0["calls"][:10]})
    for k, v in stats.items():
        ck.note(k, v)
    ck.note("cells_hit", len(cells))
    ck.note("cell_classes", classes)
    fns = sorted({k[0] for k in cells})
    ck.note("functions_hit", len(fns))
    ck.note("cells_by_state", {st: len([1 for k in cells if k[1] == st]) for st in ("0", "1", "2")})
    ck.note("doc_drift", drift)
    ck.cov["rule"] = ("case = one call sequence (random: <=60 calls over all exported functions with boundary-biased int arguments on "
                      "contexts holding corpus modules; walk: state prefix + boundary-argument calls); distinct by hash of the call list; "
                      "non-trivial = reaches PLAYING and contains at least one refused call and one successful state-changing call")
    ck.assumptions += [
        "module facts after a successful load are within chn<=64, len<=256, ins<=255 (C03); checked on every real load (EnvOk)",
        "xmp_play_frame returns 0 or -XMP_END when playing and leaves p->pos >= -2 (C16/C17); checked on every real call",
        "pointer arguments are valid; NULL contexts are out of scope",
    ]


def replay(ck, rp):
    exe = vlib.build_harness("c05_api", ["c05_api.c"])
    wav = os.path.join(vlib.OUT, "c05-blip.wav")
    make_wav(wav)
    r = rp["replay"]
    if isinstance(r, list):      # an `unproved` replay: list of broken obligations
        print(json.dumps(r, indent=1)[:4000])
        print("VIOLATION property=C05 replay=(proof obligation / correspondence, see above)")
        return 1
    fs, err = replay_calls(exe, wav, r["modules"], r["calls"], "user")
    for line in r["calls"]:
        print(line)
    print(err[-3000:])
    for f in fs:
        print("finding:", f[1], "-", f[2])
    bad = [f for f in fs if f[0] != "corr"]
    if bad:
        print("VIOLATION property=C05 signature=%s" % bad[0][1])
        return 1
    print("no violation reproduced")
    return 0
