"""C18 — the reported duration is exact for modules with linear flow.

proof      : XmpProps.C18 over XmpModel.LinFlow (two independent interpreters: Scan / Play)
tie        : correspondence — random linear-flow modules are written as MOD / XM / S3M / IT files by the
             writers below, loaded by the real library (harness/c18_duration.c), the loaded flow
             description is handed to the native driver drv_c18; the scan results (sequences, entry
             points, durations, end points, sequence_control, xxo_info) and the per-row playback trace
             (pos,row,speed,bpm,frames per row,time) of model and library are compared
search     : the harness's direct oracle (sum of frame_time vs duration / order start times, loop counter
             increments exactly on re-entry), evaluated on the real library only
"""
import os
import shutil
import random
import struct
import sys
import vlib
sys.path.insert(0, os.path.join(vlib.VERIF, "tools"))
import gen_c18_flags  # noqa: E402
import gen_c18_events  # noqa: E402

LEVEL = "proof"
MANIFEST = dict(
    category="proof",
    text="Lean 4 theorems (XmpProps.C18) over a model with two independent interpreters of the linear-flow vocabulary "
         "(speed, absolute tempo, pattern delay, position jump; any order list incl. invalid entries and S3M/IT markers, "
         "restart positions, several sequences): Scan (scan_module + libxmp_scan_sequences) and Play (xmp_play_frame as a "
         "per-tick machine). Proved in full (C18_scan_eq_play): for every module of the class ModWF (decidable: patterns non-empty, "
         "speed >= 1, tempo >= 20, <= 256 orders, restart position inside the order list; marker formats: no pattern numbered 0xfe/0xff "
         "and no restart position together with an end marker) that the scan accepts, and every sequence it finds (main and secondary), "
         "the per-tick player started at the entry point with the final sequence_control / xxo_info renders exactly the rows the scan recorded "
         "(position, speed, tempo, pattern delay and exact start time of every row), its sum of frame_time equals the scan's exact duration "
         "(the reported int duration is its floor in ms, < 1 tick away), xxo_info[o].time of every order entered equals the sum of frame_time "
         "before its first tick, the loop counter is 0 on all these frames, no row is played twice, and the next frame is the first tick of "
         "the scan's end point and increments the loop counter; that row was played before or (secondary sequences) the order belongs to "
         "another sequence. Ingredients proved separately: the order transition (next_order vs the head of the scan's order loop: skipping "
         "invalid orders / 0xfe markers, the 0xff end marker, wrap to the restart position or entry point, never through the "
         "orders_since_last_valid exit: C18_order_step), the jump row and last row (C18_pattern_step), one scan_module call under explicit "
         "hypotheses (C18_scan_eq_play_seq, C18_loop_count, C18_order_start_time, C18_duration_within_ms; decidable form seqHypB, "
         "C18_scan_eq_play_checked), termination of the scan (C18_scan_terminates), the per-row accounting identity (C18_row_accounting). "
         "The model is tied to src/scan.c, src/player.c, src/effects.c on every run by a differential correspondence on modules "
         "written in all four formats and loaded by the real loaders, and a direct oracle on the real library; the driver also evaluates "
         "the theorem's hypotheses (modWFb, seqHypB) and its conclusion (rowRecs(Play.run) = Scan trace) on every generated module / sequence. "
         "IT row delay (SEx, the IT pattern delay: the row is entered 1+x times at the running speed) is modelled in both interpreters "
         "(C18_row_accounting_rowdelay: the scan counts it at the running speed and tempo) and covered by the correspondence and the oracle, "
         "but is outside ModWF: the simulation theorems do not cover modules containing it. "
         "The generators combine speed / tempo changes with pattern / row delays inside one pattern (EEx after Fxx, S3M SEx after Axx, IT S6x and SEx "
         "after Axx / Txx); the oracle also runs a reposition tour on multi-sequence modules (one running player, xmp_set_position from the middle of one "
         "sequence to the entry point of another and back: rendered time and row trace of the target must equal its reported duration / its fresh run), "
         "followed by player restarts: another sequence selected, xmp_end_player + xmp_start_player, then order 0 must play as the main sequence; "
         "xmp_restart_module in the middle of each sequence (preferably in the middle of a pattern-delay / row-delay row), then the sequence must play "
         "again from its entry point with its duration, trace and loop point. "
         "Configurations: after the default run every module is loaded again in fresh contexts and the duration / order-time / loop-counter "
         "oracle (incl. xmp_get_module_info and total_time) is repeated after xmp_set_player(XMP_PLAYER_CFLAGS, |VBLANK) (always; the rescan's "
         "sequences are also compared with the model scanning with the flag set), CFLAGS VBLANK set and cleared again or XMP_PLAYER_FLAGS VBLANK "
         "before the load, one XMP_PLAYER_MODE (1..10), and XMP_PLAYER_VOICES 1 / 2 / 4 (IT modules: notes on the events that carry the flow "
         "effects, one voice always); failures carry the configuration in the signature (oracle:<kind>:<fmt>:<cfg>, e.g. oracle:duration:it:voices1). "
         "In 60% of the modules (all four formats, each with one looped sample) the events that carry the flow effects also carry a note, a "
         "key-off (XM 97, S3M ^^, IT ===), an IT note cut or note fade, with and without an instrument number, on a channel above one that "
         "sounds on the same row; the voice configurations are 1 voice (always), one of 2/3/4, and 1 or 2 voices under another read_event "
         "flavour (XMP_PLAYER_MODE MOD / FT2 / ST3 / IT): the flow effect of an event must act whatever its note column holds and whether or not "
         "its note gets a voice; C18_events_keep_effects proves over facts regenerated from read_event.c / player.c (tools/gen_c18_events.py) "
         "that no event reader returns before libxmp_process_fx (except FT2's late-note rule) and that read_row strips nothing but a note delay. "
         "Not reached: read_event_med and read_event_smix at run time (no MED module / smix channel among the four formats; covered by the "
         "translator fact only). "
         "Refused configuration calls: every module also gets a run of xmp_set_player calls the library must refuse (invalid values, wrong "
         "state, before and while playing), and a player mode that is refused because nothing is playable under it (XM order lists beginning "
         "with 0xff / 0xfe; modules with such orders always get an S3M / ST3 / IT mode) is no longer skipped: after each refused call the "
         "sequence table, scan end points, per-order times / speed / tempo, quirks and flags must be exactly what they were (refused_changed), "
         "and the duration / order-time / loop-counter oracle is run again afterwards (configuration tag <cfg>_refused). "
         "Fxx (FX_SPEED) reaches the model undecoded (RawMod): C18_scan_eq_play_flags states the property for either value of the VBlank flag read "
         "by BOTH sides, C18_flag_mismatch_breaks shows it fails otherwise, and C18_flag_word_same proves over facts regenerated from the C "
         "(tools/gen_c18_flags.py) that scan.c and effects.c test the flag through the same word p->flags with the same disjuncts. "
         "The scan's runaway guard (row_count_total > row_limit = 512, checked at the top of every row before the scan_cnt test, reset only at the "
         "bottom of the order loop) is part of the model; ModWF bounds patterns to 256 rows and C18_row_guard_idle / C18_row_guard_idle_all prove "
         "that for such modules the guard never fires; 20% of the generated modules are long chains of orders left by position jumps "
         "(far more than 512 rows in a row, mixed with orders left by running off the end; the MED limit 3200 does not apply to the four formats).",
    note="Trusted: Lean kernel (axioms propext/Classical.choice/Quot.sound only), the hand-written model XmpModel/LinFlow.lean, "
         "the four Python module writers, the harness and the differ. Modelled-not-verified: everything in scan.c/player.c outside the "
         "vocabulary (pattern breaks, pattern loops, IT tempo slides T0x/T1x, line jumps, global volume, ST2.6/FAR/ULT tempo, QUIRK_PROTRACK delay+break), "
         "IEEE rounding of the double sums (compared with tolerance: 2 us on sums, 1 ms on int-truncated values), the mixer. "
         "Outside the proved class: marker formats with a restart position and an end marker (model's next_order and scan then restart at "
         "different orders below a secondary entry point; no core loader produces it). "
         "Correspondence is sampled (differential), not exhaustive. C18_scan_eq_play_partial / C18_loop_count_partial are the earlier "
         "in-pattern statements, kept; the full statements are C18_scan_eq_play / C18_loop_count.",
    technique="Lean 4 simulation proof between two interpreters + differential correspondence against the C through real module files",
    design_ref="DESIGN.md section 4 C18",
)
REQUIRED = ["Xmp.LinFlow.C18_tick_exact", "Xmp.LinFlow.C18_row_accounting", "Xmp.LinFlow.C18_play_row",
            "Xmp.LinFlow.C18_scan_eq_play_partial", "Xmp.LinFlow.C18_loop_count_partial",
            "Xmp.LinFlow.C18_scan_terminates",
            "Xmp.LinFlow.C18_order_step", "Xmp.LinFlow.C18_pattern_step", "Xmp.LinFlow.C18_scan_eq_play_seq",
            "Xmp.LinFlow.C18_duration_within_ms", "Xmp.LinFlow.C18_scan_eq_play_checked",
            "Xmp.LinFlow.C18_order_start_time", "Xmp.LinFlow.C18_scan_eq_play",
            "Xmp.LinFlow.C18_row_accounting_rowdelay", "Xmp.LinFlow.C18_row_guard_idle", "Xmp.LinFlow.C18_row_guard_idle_all",
            "Xmp.LinFlow.C18_flag_word_same", "Xmp.LinFlow.C18_scan_eq_play_flags", "Xmp.LinFlow.C18_flag_mismatch_breaks",
            "Xmp.LinFlow.C18_events_keep_effects", "Xmp.LinFlow.C18_refused_mode_rescans_last",
            "Xmp.LinFlow.C18_loop_count"]

FORMATS = ("mod", "xm", "s3m", "it")


# --------------------------------------------------------------------------
# random linear-flow modules
# --------------------------------------------------------------------------

def gen_module(rng, fmt, big=False):
    """A random module description: dict(fmt, chn, orders, pats, rst, spd, bpm).
    pats[p] = list of rows, a row is None or (kind, param, channel)."""
    marker = fmt in ("s3m", "it")
    chn = {"mod": rng.choice([4, 4, 6, 8]), "xm": rng.choice([2, 4, 8]), "s3m": rng.choice([1, 4, 8]),
           "it": rng.choice([1, 3, 8])}[fmt]
    npat = rng.choice([1, 1, 2, 2, 3, 3, 4, 5, 6, 8]) if not big else rng.randint(4, 16)
    style = rng.choice(["plain", "plain", "jumpy", "jumpy", "weird"])
    maxlen = 128 if fmt == "mod" else 255
    ln = rng.choice([1, 2, 3, 4, 5, 6, 8, 10, 12, 16]) if not big else rng.randint(8, 60)
    ln = min(ln, maxlen)
    orders = []
    for i in range(ln):
        r = rng.random()
        if fmt == "mod" or style == "plain" or r < 0.8:
            orders.append(rng.randrange(npat))
        elif marker:
            orders.append(rng.choice([0xfe, 0xfe, 0xff, npat, npat + 3, 200]))
        else:
            # XM: the pattern with index `patterns` exists (empty, 64 rows); beyond that invalid
            orders.append(rng.choice([npat, npat + 1, npat + 2, 255]))
    if all(o >= npat for o in orders):
        orders[rng.randrange(ln)] = rng.randrange(npat)
    if fmt == "xm" and ln >= 2 and rng.random() < 0.2:
        # an order list that begins with 0xff / 0xfe in a format without order markers: passed over here, but an end / skip
        # marker under the S3M / ST3 / IT player modes -- with 0xff first nothing is playable there and the mode is refused
        orders[0] = rng.choice([255, 255, 254])
        if all(o >= npat for o in orders):
            orders[1] = rng.randrange(npat)
    # rows per pattern
    pats = []
    for p in range(npat):
        if fmt in ("mod", "s3m"):
            nr = 64
        elif fmt == "xm":
            nr = rng.choice([1, 1, 2, 3, 5, 8, 16, 32, 64, 64, 100, 256])
        else:
            nr = rng.choice([1, 1, 2, 3, 5, 8, 16, 32, 64, 64, 100, 200])
        dens = rng.choice([0.0, 0.02, 0.05, 0.1, 0.3]) if nr > 8 else rng.choice([0.0, 0.3, 0.6, 1.0])
        rows = []
        for r in range(nr):
            if rng.random() >= dens:
                rows.append(None)
                continue
            k = rng.random()
            c = rng.randrange(chn)
            if k < 0.3:
                s = rng.choice([1, 1, 2, 2, 3, 3, 4, 5, 6, 6, 7, 8]) if rng.random() < 0.9 else rng.randint(9, 31)
                rows.append(("s", s, c))
            elif k < 0.55:
                rows.append(("t", rng.choice([32, 33, 64, 100, 125, 126, 150, 200, 254, 255, rng.randint(32, 255)]), c))
            elif k < 0.75:
                d = rng.choice([0, 1, 1, 2, 3]) if rng.random() < 0.85 else rng.randint(4, 15)
                rows.append(("d", d, c))
            else:
                if style == "plain" and rng.random() < 0.7:
                    rows.append(None)
                    continue
                jr = rng.random()
                if jr < 0.7:
                    j = rng.randrange(ln)
                elif jr < 0.85:
                    j = rng.choice([ln, ln + 1, min(255, ln + 7), 255, 127, 128])
                else:
                    j = rng.randint(0, 255)
                rows.append(("j", j, c))
        if fmt == "it":
            # IT "pattern delay for x rows" (SEx, FX_IT_ROWDELAY) instead of some of the S6x delays
            rows = [("r", ev[1], ev[2]) if (ev and ev[0] == "d" and rng.random() < 0.5) else ev for ev in rows]
        if nr >= 4 and rng.random() < 0.5:
            add_combo(rng, fmt, rows, chn)
        pats.append(rows)
    if fmt == "mod":
        spd, bpm = 6, 125
        rst = rng.choice([0, 0, 0x7f, 0x78, rng.randrange(ln), rng.randrange(ln), rng.randint(0, 127)])
    elif fmt == "xm":
        spd, bpm = rng.choice([1, 2, 3, 6, 6, 31, rng.randint(1, 31)]), rng.choice([32, 125, 125, 255, rng.randint(32, 255)])
        rst = rng.choice([0, 0, rng.randrange(ln), rng.randrange(ln), ln, ln + 3])
    else:
        spd, bpm = rng.choice([1, 2, 3, 6, 6, 31, rng.randint(1, 31)]), rng.choice([32, 125, 125, 255, rng.randint(32, 255)])
        rst = 0
    return dict(fmt=fmt, chn=chn, orders=orders, pats=pats, rst=rst, spd=spd, bpm=bpm,
                magic=rng.choice(["M.K.", "M.K.", "M!K!"]) if (fmt == "mod" and chn == 4) else None)


def add_combo(rng, fmt, rows, chn):
    """Speed / tempo changes followed, inside the same pattern visit, by pattern delays (EEx after Fxx, S3M SEx after
    Axx, IT S6x and row delay SEx after Axx / Txx): the delay must be counted at the *running* speed and tempo."""
    nr = len(rows)
    r0 = rng.randrange(0, nr - 3)
    if nr > 8:
        r0 = rng.randrange(0, min(nr - 3, 24))      # early, so that jumps further down rarely cut it off
    s = rng.choice([1, 2, 3, 4, 5, 7, 8, 9, 12, 17, 31])
    t = rng.choice([32, 40, 64, 100, 150, 200, 255])

    def delay():
        k = "r" if (fmt == "it" and rng.random() < 0.6) else "d"
        return (k, rng.choice([1, 1, 2, 3, 5, 15]), rng.randrange(chn))
    seq = rng.choice([
        [("s", s, None), delay()],
        [("s", s, None), delay(), ("t", t, None), delay()],
        [("t", t, None), ("s", s, None), delay(), delay()],
        [("s", s, None), ("s", rng.choice([1, 2, 3, 6, 11]), None), delay()],
    ])
    for i, ev in enumerate(seq):
        if r0 + i >= nr:
            break
        if rows[r0 + i] is not None and rows[r0 + i][0] == "j":
            break                                   # keep the flow graph as generated
        rows[r0 + i] = (ev[0], ev[1], rng.randrange(chn) if ev[2] is None else ev[2])


def gen_tour_mod(rng, fmt):
    """Several sequences that never join (each group of orders ends with a jump to its own start), each changing
    speed and tempo to values of its own: after a reposition from one to the other the speed / tempo recorded by the
    scan for the target order must be restored."""
    chn = {"mod": 4, "xm": rng.choice([2, 4]), "s3m": rng.choice([1, 4]), "it": rng.choice([1, 3])}[fmt]
    nseq = rng.choice([2, 2, 3, 4])
    speeds = rng.sample([1, 2, 3, 4, 5, 7, 8, 9, 11, 13], nseq)
    tempos = rng.sample([32, 48, 64, 90, 110, 140, 180, 220, 255], nseq)
    pats, orders = [], []
    for g in range(nseq):
        npg = rng.choice([1, 1, 2])
        start = len(orders)
        for q in range(npg):
            nr = 64 if fmt in ("mod", "s3m") else rng.choice([4, 6, 8, 16, 32])
            rows = [None] * nr
            if q == 0:
                a = rng.randrange(0, nr // 2)
                rows[a] = ("s", speeds[g], rng.randrange(chn))
                b = rng.randrange(a + 1, nr - 1)
                rows[b] = ("t", tempos[g], rng.randrange(chn))
                if b + 1 < nr - 1 and rng.random() < 0.6:
                    k = "r" if (fmt == "it" and rng.random() < 0.5) else "d"
                    rows[b + 1] = (k, rng.choice([1, 2, 3]), rng.randrange(chn))
            if q == npg - 1:
                rows[nr - 1] = ("j", start, rng.randrange(chn))
            orders.append(len(pats))
            pats.append(rows)
    if fmt == "mod":
        spd, bpm = 6, 125
    else:
        spd, bpm = rng.choice([3, 6, 6, 10]), rng.choice([80, 125, 125, 200])
    return dict(fmt=fmt, chn=chn, orders=orders, pats=pats, rst=0, spd=spd, bpm=bpm,
                magic="M.K." if fmt == "mod" else None, style="tour")


def gen_chain_mod(rng, fmt):
    """A long linear chain of orders, most of them left by a position jump on their last row (to the next order),
    some by running off the end of the pattern: far more than 512 rows in a row of jump-chained orders (the scan's
    runaway guard counts the rows of ONE order visit and must be reset however the order is left)."""
    chn = {"mod": 4, "xm": rng.choice([2, 4]), "s3m": rng.choice([1, 4]), "it": rng.choice([1, 3])}[fmt]
    if fmt in ("mod", "s3m"):
        nr_of = lambda: 64
        n = rng.randint(11, 18)
    else:
        big = rng.random() < 0.5
        nr_of = (lambda: rng.choice([256, 256, 200, 255] if fmt == "xm" else [200, 200, 180, 199])) if big else (lambda: 64)
        n = rng.randint(4, 7) if big else rng.randint(11, 16)
    runoff = set(i for i in range(n) if rng.random() < 0.12)
    # keep one run of jump-exited orders of more than 512 rows
    pats, orders = [], []
    blank = {}
    for i in range(n):
        nr = nr_of()
        last = i == n - 1
        if i in runoff and not last:
            if nr not in blank:
                blank[nr] = len(pats)
                pats.append([None] * nr)
            orders.append(blank[nr])
            continue
        rows = [None] * nr
        if i == 0:
            rows[0] = ("s", rng.choice([1, 1, 2]), rng.randrange(chn))
        elif rng.random() < 0.3:
            r = rng.randrange(0, nr - 1)
            rows[r] = rng.choice([("d", rng.choice([1, 2]), rng.randrange(chn)), ("s", rng.choice([1, 2, 3]), rng.randrange(chn)),
                                  ("t", rng.choice([125, 200, 255]), rng.randrange(chn))])
        tgt = rng.choice([0, 0, n, i]) if last else (i + 1 if rng.random() < 0.93 else min(n - 1, i + 2))
        rows[nr - 1] = ("j", tgt, rng.randrange(chn))
        orders.append(len(pats))
        pats.append(rows)
    if fmt == "mod":
        spd, bpm = 6, 125
    else:
        spd, bpm = rng.choice([1, 1, 2]), rng.choice([125, 200, 255])
    return dict(fmt=fmt, chn=chn, orders=orders, pats=pats, rst=0, spd=spd, bpm=bpm,
                magic="M.K." if fmt == "mod" else None, style="chain")


def gen_long_mod(rng):
    """A Protracker M.K. module around the 8-minute mark (VBLANK_TIME_THRESHOLD of scan.c) with a low
    Fxx (speed s) and a high Fxx (tempo t) on different rows of the first pattern: long enough, read
    with CIA timing, for libxmp_scan_sequences to run its CIA-vs-VBlank comparison, with either
    reading able to win (CIA row = s*2500/t ms, VBlank row = t*20 ms)."""
    t = rng.choice([32, 33, 36, 40, 40, 45, 48, 50, 56, 64, rng.randint(32, 80)])
    s = rng.choice([2, 3, 4, 6, 6, 8, 12, 16, 20, 24, 31, 31, rng.randint(2, 31)])
    while 192 * t // s > 64 * 118:          # rows needed for 8 minutes must fit the order list
        s += 1
    rows_8min = 480000 * t // (2500 * s) + 1
    factor = rng.choice([0.7, 0.95, 1.02, 1.05, 1.1, 1.2, 1.3])
    ln = max(3, min(127, int(rows_8min * factor) // 64 + 1))
    npat = rng.choice([1, 2, 3])
    pats = []
    for p in range(npat):
        rows = [None] * 64
        for r in range(2, 64):
            if rng.random() < 0.01:
                rows[r] = ("d", rng.choice([0, 1]), rng.randrange(4))
        pats.append(rows)
    r1, r2 = rng.sample(range(0, 8), 2)
    pats[0][r1] = ("s", s, rng.randrange(4))
    pats[0][r2] = ("t", t, rng.randrange(4))
    orders = [0] + [rng.randrange(npat) for _ in range(ln - 1)]
    if rng.random() < 0.3:
        # end with a jump (to the start, to itself or beyond the end) in a pattern used only there
        rows = [None] * 64
        rows[63] = ("j", rng.choice([0, ln - 1, ln, 127]), rng.randrange(4))
        pats.append(rows)
        orders[-1] = len(pats) - 1
    rst = rng.choice([0, 0, 0x7f, rng.randrange(ln)])
    return dict(fmt="mod", chn=4, orders=orders, pats=pats, rst=rst, spd=6, bpm=125, magic="M.K.", style="long")


# --------------------------------------------------------------------------
# module writers (independent of libxmp)
# --------------------------------------------------------------------------

NOTE_KINDS = {"mod": ["n"], "xm": ["n", "off"], "s3m": ["n", "off"], "it": ["n", "off", "cut", "fade"]}
WAVE = bytes((i * 8) & 0xff for i in range(32))


def deco(d, p, r):
    """Decoration of the flow-effect event at pattern p, row r of a module with d["deco"] set: (note kind, instrument
    number 0/1, companion).  Note kind: None, "n" (a note), "off" (key-off: XM 97, S3M ^^, IT ===), "cut" (IT ^^^),
    "fade" (IT ~~~).  companion: a lower channel plays a note (looped sample) on the same row, and the effect sits on a
    higher channel -- with fewer voices than sounding channels the effect's event loses the voice race.  The flow effect
    of an event must act whatever its note column holds and whether or not its note gets a voice."""
    seed = d.get("deco")
    if seed is None:
        return None
    rng = random.Random(seed * 1000003 + p * 4099 + r)
    x = rng.random()
    if x < 0.4:
        nk = "n"
    elif x < 0.85:
        nk = rng.choice(NOTE_KINDS[d["fmt"]])
    else:
        nk = None
    ins = 1 if rng.random() < (0.85 if nk == "n" else 0.6) else 0
    comp = d["chn"] >= 2 and rng.random() < 0.8
    return nk, ins, comp


def write_mod(d):
    chn = d["chn"]
    magic = {4: d.get("magic") or "M.K.", 6: "6CHN", 8: "8CHN"}[chn].encode()
    dec = d.get("deco") is not None
    out = bytearray()
    out += b"c18 linear flow".ljust(20, b"\0")
    for i in range(31):
        if dec and i == 0:
            out += b"c18 tone".ljust(22, b"\0") + struct.pack(">HBBHH", len(WAVE) // 2, 0, 64, 0, len(WAVE) // 2)
        else:
            out += b"".ljust(22, b"\0") + struct.pack(">HBBHH", 0, 0, 64, 0, 1)
    orders = d["orders"]
    out += bytes([len(orders), d["rst"] & 0xff])
    npat = len(d["pats"])
    tbl = list(orders) + [0] * (128 - len(orders))
    if npat - 1 > max(tbl):
        # make the loader see all written patterns: park the highest index in an unused slot
        if len(orders) < 128:
            tbl[127] = npat - 1
    out += bytes(tbl)
    out += magic
    nfile = max(tbl) + 1
    fxmap = {"s": 0x0f, "t": 0x0f, "j": 0x0b, "d": 0x0e}
    for p in range(nfile):
        rows = d["pats"][p] if p < npat else [None] * 64
        for r in range(64):
            ev = rows[r]
            cells = {}
            if ev is not None:
                k, v, c = ev
                prm = (0xe0 | v) if k == "d" else v
                dk = deco(d, p, r)
                if dk is None:
                    cells[c] = bytes([0, 0, fxmap[k], prm])
                else:
                    nk, ins, comp = dk
                    if comp:
                        c = max(c, 1)
                        cells[0] = bytes([0x00 | (428 >> 8), 428 & 0xff, 0x10, 0])         # C-2, sample 1
                    per = 404 if nk == "n" else 0
                    cells[c] = bytes([per >> 8, per & 0xff, (ins << 4) | fxmap[k], prm])
            for c in range(chn):
                out += cells.get(c, b"\0\0\0\0")
    if dec:
        out += bytes((b ^ 0x80) for b in WAVE)
    return bytes(out)


def write_xm(d):
    chn = d["chn"]
    orders = d["orders"]
    npat = len(d["pats"])
    dec = d.get("deco") is not None
    out = bytearray()
    out += b"Extended Module: " + b"c18 linear flow".ljust(20, b" ") + b"\x1a" + b"FastTracker v2.00   "
    out += struct.pack("<H", 0x0104)
    out += struct.pack("<I", 20 + 256)
    out += struct.pack("<HHHHHHHH", len(orders), d["rst"], chn, npat, 1 if dec else 0, 1, d["spd"], d["bpm"])
    out += bytes(orders).ljust(256, b"\0")
    fxmap = {"s": 0x0f, "t": 0x0f, "j": 0x0b, "d": 0x0e}
    for p, rows in enumerate(d["pats"]):
        data = bytearray()
        for r, ev in enumerate(rows):
            cells = {}
            if ev is not None:
                k, v, c = ev
                prm = (0xe0 | v) if k == "d" else v
                dk = deco(d, p, r)
                if dk is None:
                    cells[c] = bytes([0x80 | 0x08 | 0x10, fxmap[k], prm])
                else:
                    nk, ins, comp = dk
                    if comp:
                        c = max(c, 1)
                        cells[0] = bytes([0x80 | 0x01 | 0x02, 49, 1])
                    mask, body = 0x80 | 0x08 | 0x10, b""
                    if nk is not None:
                        mask |= 0x01
                        body += bytes([97 if nk == "off" else 53])
                    if ins:
                        mask |= 0x02
                        body += bytes([1])
                    cells[c] = bytes([mask]) + body + bytes([fxmap[k], prm])
            for c in range(chn):
                data += cells.get(c, b"\x80")
        out += struct.pack("<IBHH", 9, 0, len(rows), len(data)) + data
    if dec:
        ih = struct.pack("<I", 263) + b"c18 tone".ljust(22, b"\0") + bytes([0]) + struct.pack("<H", 1) + struct.pack("<I", 40)
        ih = ih.ljust(263, b"\0")
        sh = struct.pack("<III", len(WAVE), 0, len(WAVE)) + bytes([64, 0, 1, 128, 0, 0]) + b"c18 tone".ljust(22, b"\0")
        assert len(sh) == 40
        delta, prev = bytearray(), 0
        for b in WAVE:
            delta.append((b - prev) & 0xff)
            prev = b
        out += ih + sh + bytes(delta)
    return bytes(out)


S3M_CMD = {"s": 1, "j": 2, "d": 19, "t": 20}


def write_s3m(d):
    chn = d["chn"]
    orders = list(d["orders"])
    if len(orders) % 2:
        orders.append(0xff)
    npat = len(d["pats"])
    dec = d.get("deco") is not None
    nins = 1 if dec else 0
    hdr = bytearray()
    hdr += b"c18 linear flow".ljust(28, b"\0") + b"\x1a" + bytes([16]) + b"\0\0"
    hdr += struct.pack("<HHHHHH", len(orders), nins, npat, 0, 0x1320, 2)
    hdr += b"SCRM" + bytes([64, d["spd"], d["bpm"], 0xb0, 16, 0]) + b"\0" * 8 + struct.pack("<H", 0)
    hdr += bytes([(i if i < 8 else 0) if i < chn else 255 for i in range(32)])
    assert len(hdr) == 96
    body_off = 96 + len(orders) + 2 * nins + 2 * npat
    body_off = (body_off + 15) & ~15
    off = body_off
    ins_blob, ins_ptr = b"", []
    if dec:
        ins_ptr = [off // 16]
        data_para = (off + 80) // 16
        ih = (bytes([1]) + b"c18.smp".ljust(12, b"\0") + bytes([(data_para >> 16) & 0xff]) + struct.pack("<H", data_para & 0xffff) +
              struct.pack("<III", len(WAVE), 0, len(WAVE)) + bytes([64, 0, 0, 1]) + struct.pack("<I", 8363) + b"\0" * 12 +
              b"c18 tone".ljust(28, b"\0") + b"SCRS")
        assert len(ih) == 80
        ins_blob = ih + bytes((b ^ 0x80) for b in WAVE)
        ins_blob += b"\0" * ((-len(ins_blob)) % 16)
        off += len(ins_blob)
    blobs, ptrs = [], []
    for p, rows in enumerate(d["pats"]):
        data = bytearray()
        for r in range(64):
            ev = rows[r]
            if ev is not None:
                k, v, c = ev
                prm = (0xe0 | v) if k == "d" else v
                dk = deco(d, p, r)
                if dk is None:
                    data += bytes([0x80 | c, S3M_CMD[k], prm])
                else:
                    nk, ins, comp = dk
                    if comp:
                        c = max(c, 1)
                        data += bytes([0x20 | 0, 0x40, 1])                       # channel 1: C-4, instrument 1
                    if nk is not None or ins:
                        note = 0x44 if nk == "n" else 254 if nk == "off" else 255
                        data += bytes([0x80 | 0x20 | c, note, ins, S3M_CMD[k], prm])
                    else:
                        data += bytes([0x80 | c, S3M_CMD[k], prm])
            data += b"\0"
        blob = struct.pack("<H", len(data) + 2) + data
        blob += b"\0" * ((-len(blob)) % 16)
        ptrs.append(off // 16)
        blobs.append(blob)
        off += len(blob)
    out = bytes(hdr) + bytes(orders) + b"".join(struct.pack("<H", p) for p in ins_ptr) + b"".join(struct.pack("<H", p) for p in ptrs)
    out = out.ljust(body_off, b"\0") + ins_blob + b"".join(blobs)
    return out, orders


IT_CMD = {"s": 1, "j": 2, "d": 19, "r": 19, "t": 20}
IT_NOTE = {"n": 64, "off": 255, "cut": 254, "fade": 253}


def write_it(d):
    orders = d["orders"]
    npat = len(d["pats"])
    dec = d.get("deco") is not None
    nsmp = 1 if dec else 0
    hdr = bytearray()
    hdr += b"IMPM" + b"c18 linear flow".ljust(26, b"\0") + b"\x04\x10"
    hdr += struct.pack("<HHHH", len(orders), 0, nsmp, npat)
    hdr += struct.pack("<HHHH", 0x0214, 0x0214, 0x0001 | 0x0008, 0)
    hdr += bytes([128, 48, d["spd"], d["bpm"], 128, 0]) + struct.pack("<HII", 0, 0, 0)
    hdr += bytes([32] * 64) + bytes([64] * 64)
    assert len(hdr) == 192
    off = 192 + len(orders) + 4 * nsmp + 4 * npat
    smp_hdr_off = off
    smp = b""
    if dec:
        smp = (b"IMPS" + b"c18.smp".ljust(12, b"\0") + bytes([0, 64, 0x01 | 0x10, 64]) + b"c18 tone".ljust(26, b"\0") +
               bytes([1, 0]) + struct.pack("<IIIIIII", len(WAVE), 0, len(WAVE), 8363, 0, 0, off + 80) + bytes([0, 0, 0, 0]))
        assert len(smp) == 80
        smp += WAVE
        off += len(smp)
    blobs, ptrs = [], []
    for p, rows in enumerate(d["pats"]):
        data = bytearray()
        for r, ev in enumerate(rows):
            if ev is not None:
                k, v, c = ev
                prm = (0x60 | v) if k == "d" else (0xe0 | v) if k == "r" else v
                dk = deco(d, p, r)
                if dk is None:
                    data += bytes([(c + 1) | 0x80, 0x08, IT_CMD[k], prm])
                else:
                    nk, ins, comp = dk
                    if comp:
                        c = max(c, 1)
                        data += bytes([1 | 0x80, 0x03, 60, 1])                     # channel 1: note C-5, sample 1
                    mask, body = 0x08, b""
                    if nk is not None:
                        mask |= 0x01
                        body += bytes([IT_NOTE[nk]])
                    if ins:
                        mask |= 0x02
                        body += bytes([1])
                    data += bytes([(c + 1) | 0x80, mask]) + body + bytes([IT_CMD[k], prm])
            data += b"\0"
        blob = struct.pack("<HHI", len(data), len(rows), 0) + data
        ptrs.append(off)
        blobs.append(blob)
        off += len(blob)
    return (bytes(hdr) + bytes(orders) + (struct.pack("<I", smp_hdr_off) if dec else b"") +
            b"".join(struct.pack("<I", p) for p in ptrs) + smp + b"".join(blobs))


def write_module(d):
    """-> (bytes, expected order list as the loader should see it)"""
    f = d["fmt"]
    if f == "mod":
        return write_mod(d), list(d["orders"])
    if f == "xm":
        return write_xm(d), list(d["orders"])
    if f == "s3m":
        return write_s3m(d)
    return write_it(d), list(d["orders"])


# --------------------------------------------------------------------------
# harness / driver output
# --------------------------------------------------------------------------

def parse_cases(text):
    cases, cur = [], None
    for line in text.splitlines():
        if line.startswith("file "):
            cur = {"file": line[5:], "model_in": [], "lines": [], "oracle": [], "notes": []}
            cases.append(cur)
        elif cur is None:
            continue
        elif line.startswith(("mod ", "xxo", "pat ")) or line == "end":
            cur["model_in"].append(line)
        elif line.startswith("oracle_fail"):
            cur["oracle"].append(line)
        elif line.startswith(("note ", "aux ", "cap ", "loadfail", "tour ", "restarts ", "cfg ")):
            cur["notes"].append(line)
        elif line == "endcase":
            cur = None
        else:
            cur["lines"].append(line)
    return cases


def split_model(lines):
    out, cur = [], []
    for l in lines:
        if l == "endcase":
            out.append(cur)
            cur = []
        else:
            cur.append(l)
    return out


def kv(line):
    f = line.split()
    return f


def compare(real, model):
    """Compare canonical lines.  Returns None or a description of the first difference."""
    ri = [l for l in real]
    mi = [l for l in model if not l.startswith(("tracesagree", "recsagree", "seqhyp", "modwf", "vrecsagree", "xrecsagree"))]
    if len(ri) != len(mi):
        # find first structural difference
        for a, b in zip(ri, mi):
            if a.split()[0] != b.split()[0]:
                return "line kinds differ: real=%r model=%r" % (a, b)
        return "different number of lines: real %d model %d (real tail %r, model tail %r)" % (len(ri), len(mi), ri[-1:], mi[-1:])
    for a, b in zip(ri, mi):
        fa, fb = a.split(), b.split()
        if fa[0] != fb[0]:
            return "line kinds differ: real=%r model=%r" % (a, b)
        k = fa[0]
        if k in ("scan", "ctl", "rowhash"):
            if fa != fb:
                return "real=%r model=%r" % (a, b)
        elif k == "info":
            if len(fa) != len(fb):
                return "info sets differ: real=%r model=%r" % (a, b)
            for x, y in zip(fa[1:], fb[1:]):
                o, t, s, bp = x.split(":")
                o2, t2, tx, s2, bp2 = y.split(":")
                if (o, s, bp) != (o2, s2, bp2) or abs(int(t) - int(t2)) > 1 or abs(int(t) * 1000 - int(tx)) > 1001:
                    return "xxo_info differs: real=%s model=%s" % (x, y)
        elif k == "seq":
            # real:  seq k ep E dur D end o r n          model: seq k ep E dur D durx X end o r n scanrows N fuelout b
            if fa[1:4] != fb[1:4] or fa[6:10] != fb[8:12]:
                return "sequence differs: real=%r model=%r" % (a, b)
            if abs(int(fa[5]) - int(fb[5])) > 1:
                return "duration differs: real=%r model=%r" % (a, b)
            if fb[-1] != "false":
                return "model scan ran out of fuel: %r" % b
        elif k == "vseq":
            # the rescan under XMP_FLAGS_VBLANK: vseq k ep E dur D end o r n
            if fa[1:4] != fb[1:4] or fa[6:] != fb[6:]:
                return "sequence of the VBlank rescan differs: real=%r model=%r" % (a, b)
            if abs(int(fa[5]) - int(fb[5])) > 1:
                return "duration of the VBlank rescan differs: real=%r model=%r" % (a, b)
        elif k == "play":
            # play k frames n rows r total us loopinc b
            if fa[1:6] != fb[1:6] or fa[8:] != fb[8:]:
                return "playback differs: real=%r model=%r" % (a, b)
            if abs(int(fa[7]) - int(fb[7])) > 2 + int(fa[3]) // 100000:
                return "rendered time differs: real=%r model=%r" % (a, b)
        elif k == "r":
            if fa[1:8] != fb[1:8]:
                return "row differs: real=%r model=%r" % (a, b)
            if abs(int(fa[8]) - int(fb[8])) > 2 + int(fa[1]) // 1000:
                return "row start time differs: real=%r model=%r" % (a, b)
            # frame_info.time is an int (ms): (int)(double)(int-truncated xxo_info[].time + sum of frame_time);
            # one ms from the truncated order time, one more when the exact value is a whole number of ms
            if abs(int(fa[9]) // 1000 - int(fb[9]) // 1000) > 2:
                return "frame_info.time differs: real=%r model=%r" % (a, b)
        else:
            if fa != fb:
                return "real=%r model=%r" % (a, b)
    return None


def loaded_matches_intended(d, exp_orders, model_in):
    """Effect translation check: what the loader produced is what the writer encoded."""
    head = model_in[0].split()
    marker, rst, spd, bpm = int(head[1]), int(head[2]), int(head[3]), int(head[4])
    xxo = [int(x) for x in model_in[1].split()[1:]]
    if xxo != exp_orders:
        return "orders: wrote %s loaded %s" % (exp_orders, xxo)
    f = d["fmt"]
    if f != "mod" and marker != (1 if f in ("s3m", "it") else 0):
        return "marker quirk %d" % marker      # (MOD: Scream Tracker 3 MODs get QUIRKS_ST3; orders are < 0x80 anyway)
    if (spd, bpm) != (d["spd"], d["bpm"]):
        return "initial speed/bpm: wrote %s loaded %s" % ((d["spd"], d["bpm"]), (spd, bpm))
    if f == "mod":
        r = d["rst"]
        exp_rst = r if (r < 0x7f and r != 0x78 and r < len(xxo)) else 0
    elif f == "xm":
        exp_rst = d["rst"] if d["rst"] < len(xxo) else 0
    else:
        exp_rst = 0
    if rst != exp_rst:
        return "restart: wrote %d expected %d loaded %d" % (d["rst"], exp_rst, rst)
    pats = [l.split() for l in model_in[2:-1]]
    for p, rows in enumerate(d["pats"]):
        if p >= len(pats):
            if f == "s3m":
                continue        # S3M: pattern count follows the order list
            return "pattern %d missing" % p
        pl = pats[p]
        if int(pl[2]) != len(rows):
            return "pattern %d rows: wrote %d loaded %s" % (p, len(rows), pl[2])
        exp = ["%d:%s:%d" % (r, ev[0], ev[1]) for r, ev in enumerate(rows) if ev is not None]
        if f in ("mod", "xm"):
            # Fxx (FX_SPEED) is dumped undecoded: speed or tempo is decided by QUIRK_NOBPM / the VBlank flag / < 0x20
            exp = [e.replace(":t:", ":f:").replace(":s:", ":f:") for e in exp]
        got = pl[3:]
        if got != exp and f == "mod" and d["rst"] == 0x78:
            # restart byte 0x78 in a 4-channel MOD: the loader suspects Noisetracker, which has no Exy effects, and drops
            # them pattern by pattern until it sees an effect Noisetracker cannot have (mod_load.c); scan and player both
            # work on what was loaded
            exp = [e for e in exp if ":d:" not in e or e in got]
        if got != exp:
            return "pattern %d effects: wrote %s loaded %s" % (p, exp[:8], got[:8])
    return None


def stale_end_point(c):
    """Does the first oracle failure concern a sequence whose entry point is a 0xfe skip marker
    followed by a non-playable order?  (xmp_set_position then leaves flow.end_point of the
    previous sequence in place: finding `stale-end-point`.)"""
    try:
        f = c["oracle"][0].split()
        k = int(f[f.index("seq") + 1])
        head = c["model_in"][0].split()
        xxo = [int(x) for x in c["model_in"][1].split()[1:]]
        npat = len(c["model_in"]) - 3
        ep = None
        for l in c["lines"]:
            g = l.split()
            if g[0] == "seq" and int(g[1]) == k:
                ep = int(g[3])
        if ep is None or head[1] != "1" or k == 0 or xxo[ep] != 0xfe:
            return False
        pos = ep
        while pos < len(xxo) and xxo[pos] == 0xfe:
            pos += 1
        return pos >= len(xxo) or xxo[pos] >= npat
    except (ValueError, IndexError):
        return False


def intended_model_in(d, exp_orders):
    """Model input derived from the description alone (used when the real loader rejects the file:
    the model's scan must then fail too)."""
    f = d["fmt"]
    npat = len(d["pats"])
    pats = [list(r) for r in d["pats"]]
    if f == "xm":
        pats.append([None] * 64)
    if f == "s3m":
        mx = max([o for o in exp_orders if o < 0xfe] + [-1]) + 1
        pats = pats[:min(mx, npat)]
    if f == "mod":
        r = d["rst"]
        rst = r if (r < 0x7f and r != 0x78 and r < len(exp_orders)) else 0
    elif f == "xm":
        rst = d["rst"] if d["rst"] < len(exp_orders) else 0
    else:
        rst = 0
    lines = ["mod %d %d %d %d 1000" % (1 if f in ("s3m", "it") else 0, rst, d["spd"], d["bpm"]),
             "xxo " + " ".join(str(o) for o in exp_orders)]
    fk = (lambda k: "f" if (k in ("s", "t") and f in ("mod", "xm")) else k)
    for p, rows in enumerate(pats):
        lines.append("pat %d %d %s" % (p, len(rows), " ".join("%d:%s:%d" % (r, fk(ev[0]), ev[1]) for r, ev in enumerate(rows) if ev)))
    lines.append("end")
    return lines


def run_shard(args):
    exe, rate, maxframes, files = args
    rc, out, err = vlib.run_exe(exe, [str(rate), str(maxframes)] + files, timeout=3000)
    return rc, out.decode("latin-1"), err


def work_dir(ck):
    d = os.path.join(vlib.OUT, "c18-%s-%d" % (ck.tier, ck.seed))
    shutil.rmtree(d, ignore_errors=True)
    os.makedirs(d, exist_ok=True)
    return d


def run(ck):
    # translator: which flag word scan.c / effects.c read for FX_SPEED (XmpModel/Gen/C18Flags.lean; C18_flag_word_same)
    try:
        info, _ = gen_c18_flags.generate()
        ck.note("flag_word_reads", ["%s:%s" % r for r in info["reads"]])
    except Exception as e:      # the C no longer has the shape the translator reads: the model must be revisited
        ck.unproved("translator gen_c18_flags", str(e))
    # translator: early returns of the event readers, rewrites of the effect fields in read_row (C18_events_keep_effects)
    try:
        info, _ = gen_c18_events.generate()
        ck.note("event_reader_early_returns", ["%s:%s:%s" % r for r in info["early"]])
    except Exception as e:
        ck.unproved("translator gen_c18_events", str(e))
    ck.proofs(["XmpProps.C18"], required=REQUIRED, drivers=["drv_c18"])
    exe = vlib.build_harness("c18_duration", ["c18_duration.c"])
    quick = ck.tier == "quick"
    nmods = 400 if quick else 20000
    maxframes = 40000 if quick else 120000
    rate = 4000
    wd = work_dir(ck)
    mods = []
    for i in range(nmods):
        fmt = FORMATS[i % 4]
        if fmt == "mod" and (i < 32 if quick else ck.rng.random() < 0.05):
            d = gen_long_mod(ck.rng)        # quick: 8 per run; thorough: ~5% of the MODs
        elif i % 20 >= 16:
            d = gen_tour_mod(ck.rng, fmt)   # 20%: sequences that never join, each with its own speed / tempo
        elif i % 20 >= 12:
            d = gen_chain_mod(ck.rng, fmt)  # 20%: > 512 rows in orders chained by position jumps
        else:
            d = gen_module(ck.rng, fmt, big=(ck.rng.random() < 0.05))
        if ck.rng.random() < 0.6:
            # notes / key-offs / cuts / fades with and without instrument on the events that carry the flow effects, a lower
            # channel sounding on the same row: neither the note column nor a lost voice race may change the timeline
            d["deco"] = ck.rng.getrandbits(30)
        data, exp_orders = write_module(d)
        path = os.path.join(wd, "m%05d.%s" % (i, fmt))
        with open(path, "wb") as f:
            f.write(data)
        mods.append((path, d, exp_orders, data))
    # minimised past failures first (regression corpus): no description, only oracle + correspondence
    cdir = os.path.join(vlib.VERIF, "corpus", "C18")
    corpus = []
    if os.path.isdir(cdir):
        for fn in sorted(os.listdir(cdir)):
            pth = os.path.join(cdir, fn)
            corpus.append((pth, None, None, open(pth, "rb").read()))
    mods = corpus + mods
    nshards = 16
    shards = [(exe, rate, maxframes, [m[0] for m in mods[s::nshards]]) for s in range(nshards)]
    shards = [s for s in shards if s[3]]
    results = vlib.pmap(run_shard, shards)
    bypath = {m[0]: m for m in mods}
    stats = dict(modules=0, sequences=0, multi_sequence_modules=0, frames=0, rows=0, capped=0, loadfail=0,
                 jumps_beyond_len=0, marker_orders=0, invalid_orders=0, restart_nonzero=0, one_row_patterns=0,
                 nobpm=0, long_mods=0, long_mods_vblank_reading_won=0, long_mods_cia_reading_kept=0, long_mods_below_threshold=0, rejected_both=0, corpus_cases=0, oracle_failures=0, model_traces_agree=0, foreign_end=0, model_recs_agree=0, seqhyp_holds=0, seqhyp_fails=0, modwf_holds=0, rowdelay_modules=0,
                 tour_modules=0, tour_visits=0, tour_visits_ok=0, speed_then_delay_modules=0,
                 restart_visits=0, restart_visits_ok=0, chain_modules=0, chain_rows_max=0,
                 cfg_sequences=0, cfg_sequences_ok=0, vblank_recs_agree=0, vblank_flag_mixup_disagrees=0, it_note_modules=0)
    per_fmt = {f: 0 for f in FORMATS}
    cfg_stats = {}
    for (rc, out, err), sh in zip(results, shards):
        cases = parse_cases(out)
        if rc != 0:
            sig = vlib.sanitizer_signature(err)
            last = cases[-1]["file"] if cases else sh[3][0]
            m = bypath.get(last)
            ck.violation("harness-abort:" + sig,
                         {"fmt": (m[1]["fmt"] if m[1] else m[0].rsplit(".", 1)[-1]) if m else "?",
                          "hex": m[3].hex() if m else "", "desc": m[1] if m else None, "stderr": err[-3000:]},
                         "scan/playback of a linear-flow module aborted (rc=%d): %s" % (rc, sig))
        model_text = "\n".join("\n".join(c["model_in"]) for c in cases if c["model_in"]) + "\n"
        model_cases = split_model(vlib.run_driver("drv_c18", model_text, timeout=3000)) if ck.lean_ok else None
        mi = 0
        for c in cases:
            path, d, exp_orders, data = bypath[c["file"]]
            fmt = d["fmt"] if d else path.rsplit(".", 1)[-1]
            if d is None:
                d = dict(fmt=fmt, pats=[], rst=0, orders=[])
                exp_orders = None
            rp = {"fmt": fmt, "hex": data.hex(), "desc": d, "rate": rate, "maxframes": maxframes}
            if any(n.startswith("loadfail") for n in c["notes"]):
                # the library refuses a module whose main sequence has no playable order; the model must agree
                stats["loadfail"] += 1
                if ck.lean_ok:
                    mo = vlib.run_driver("drv_c18", "\n".join(intended_model_in(d, exp_orders)) + "\n") if exp_orders is not None else None
                    mo = [l for l in (mo or []) if not l.startswith("modwf")]
                    if not mo or mo[0] != "scan fail":
                        ck.unproved("correspondence: module rejected by the library but accepted by the model (or unloadable writer output)",
                                    "%s: %s model=%s" % (os.path.basename(path), c["notes"], mo[:2]))
                        ck._write_replay("loadfail-" + os.path.basename(path), rp, "rejected by the library", suffix="")
                    else:
                        stats["rejected_both"] += 1
                continue
            mo = None
            if model_cases is not None and c["model_in"]:
                mo = model_cases[mi] if mi < len(model_cases) else None
                mi += 1
            stats["modules"] += 1
            per_fmt[fmt] += 1
            aux = [n for n in c["notes"] if n.startswith("aux ")]
            if aux and "vocab bad" in aux[0]:
                ck.unproved("writer: loaded module leaves the linear-flow vocabulary", "%s: %s" % (os.path.basename(path), aux[0]))
                continue
            if aux and " nobpm 1" in aux[0]:
                stats["nobpm"] += 1
            if d.get("style") == "long":
                stats["long_mods"] += 1
                af = aux[0].split() if aux else []
                cmp_on = "cmpvbl" in af and af[af.index("cmpvbl") + 1] == "1"
                dur0 = next((int(l.split()[5]) for l in c["lines"] if l.startswith("seq 0 ")), 0)
                if cmp_on and " nobpm 1" in aux[0]:
                    stats["long_mods_vblank_reading_won"] += 1
                elif cmp_on and dur0 >= 480000:
                    stats["long_mods_cia_reading_kept"] += 1
                else:
                    stats["long_mods_below_threshold"] += 1
            bad = loaded_matches_intended(d, exp_orders, c["model_in"]) if exp_orders is not None else None
            if exp_orders is None:
                exp_orders = [int(x) for x in c["model_in"][1].split()[1:]]
                stats["corpus_cases"] += 1
            if bad:
                ck.unproved("effect translation (writer vs loader)", "%s: %s" % (os.path.basename(path), bad))
                continue
            capped = any(n.startswith("cap ") for n in c["notes"])
            stats["capped"] += 1 if capped else 0
            nseq = 0
            for l in c["lines"]:
                f = l.split()
                if f[0] == "scan" and len(f) >= 4:
                    nseq = int(f[3])
                elif f[0] == "play":
                    stats["frames"] += int(f[3])
                    stats["rows"] += int(f[5])
                elif f[0] == "seq" and f[-1] == "0":
                    stats["foreign_end"] += 1
            stats["sequences"] += nseq
            stats["multi_sequence_modules"] += 1 if nseq > 1 else 0
            ln = len(exp_orders)
            jb = sum(1 for rows in d["pats"] for ev in rows if ev and ev[0] == "j" and ev[1] >= ln)
            stats["jumps_beyond_len"] += 1 if jb else 0
            stats["marker_orders"] += 1 if (fmt in ("s3m", "it") and any(o >= 0xfe for o in exp_orders)) else 0
            stats["invalid_orders"] += 1 if any(o >= len(d["pats"]) + (1 if fmt == "xm" else 0) and o < 0xfe for o in exp_orders) else 0
            stats["restart_nonzero"] += 1 if c["model_in"][0].split()[2] != "0" else 0
            stats["one_row_patterns"] += 1 if any(len(r) == 1 for r in d["pats"]) else 0
            stats["it_note_modules"] += 1 if d.get("deco") is not None else 0
            if d.get("style") == "chain":
                stats["chain_modules"] += 1
                stats["chain_rows_max"] = max(stats["chain_rows_max"], sum(len(d["pats"][o]) for o in d["orders"] if o < len(d["pats"])))
            def _sd(rows):
                seen = False
                for ev in rows:
                    if ev and ev[0] in ("s", "t"):
                        seen = True
                    elif ev and ev[0] in ("d", "r") and ev[1] > 0 and seen:
                        return True
                return False
            stats["speed_then_delay_modules"] += 1 if any(_sd(r) for r in d["pats"]) else 0
            nontriv = nseq > 1 or any(ev for rows in d["pats"] for ev in rows)
            ck.count(vlib.hash_str(data.hex()), nontrivial=nontriv)
            ck.sample({"file": os.path.basename(path), "fmt": fmt, "orders": exp_orders[:16], "rst": d["rst"],
                       "real": c["lines"][:4]}, limit=4)
            excluded = False
            if c["oracle"]:
                stats["oracle_failures"] += 1
                first = c["oracle"][0].split()
                kind = first[1].rstrip(":")
                sig = "oracle:%s:%s" % (kind, fmt)
                if "cfg" in first[:-1] and first[-2] == "cfg":
                    sig += ":" + first[-1]      # under a configuration (vblank_*, mode<n>, voices<n>)
                    # finding: a player mode with QUIRK_MARKER (S3M / ST3 / ST3GUS / IT) on a module that has a restart
                    # position and a 0xff order: the scan restarts at mod->rst, next_order() at the entry point, when the
                    # end marker is met below the entry point (proposed_fixes/c18-scan-restart-below-entry.diff)
                    head = c["model_in"][0].split()
                    xxo = [int(x) for x in c["model_in"][1].split()[1:]]
                    if first[-1] in ("mode4", "mode5", "mode6", "mode9") and head[1] == "0" and head[2] != "0" and 255 in xxo:
                        sig = "oracle:restart-target:end-marker-below-entry:marker-mode"
                if stale_end_point(c):
                    sig = "oracle:stale-end-point:entry-skip-marker"
                ck.violation(sig, dict(rp, oracle=c["oracle"][:6]),
                             "duration / order time / loop counter differs from what is rendered (%s): %s" % (fmt, c["oracle"][0]))
                excluded = sig.startswith("oracle:stale-end-point")
                if not excluded:
                    continue
            if mo is None:
                continue
            # IT row delay (SEx) is modelled in both interpreters and tied to the C by the correspondence below, but
            # lies outside the class ModWF of the simulation theorems (the player enters the row 1 + x times, the scan
            # records it once): the model-internal agreements are not claimed for such modules
            has_r = any(":r:" in l for l in c["model_in"])
            stats["rowdelay_modules"] += 1 if has_r else 0
            for l in c["notes"]:
                if l.startswith("tour "):
                    f = l.split()
                    stats["tour_visits"] += int(f[1])
                    stats["tour_visits_ok"] += int(f[3])
                    stats["tour_modules"] += 1
                if l.startswith("cfg "):
                    f = l.split()
                    grp = f[1].rstrip("0123456789") if not f[1].startswith("vblank") else f[1]
                    cfg_stats[grp] = cfg_stats.get(grp, 0) + 1
                    stats["cfg_sequences"] += int(f[3])
                    stats["cfg_sequences_ok"] += int(f[5])
                if l.startswith("restarts "):
                    f = l.split()
                    stats["restart_visits"] += int(f[1])
                    stats["restart_visits_ok"] += int(f[3])
            if has_r:
                mo_chk = []
            else:
                mo_chk = mo
            if any(l == "tracesagree true" for l in mo_chk):
                stats["model_traces_agree"] += sum(1 for l in mo if l == "tracesagree true")
            if any(l == "tracesagree false" for l in mo_chk) and not capped and not excluded:
                ck.unproved("model: Scan.run and Play.run row traces differ", "%s (theorem C18_scan_eq_play contradicted?)" % os.path.basename(path))
            if any(l == "recsagree false" for l in mo_chk) and not capped and not excluded:
                ck.unproved("model: Scan.run and Play.run row records (speed/tempo/delay/exact start time) differ",
                            "%s (theorem C18_scan_eq_play_seq contradicted?)" % os.path.basename(path))
            stats["model_recs_agree"] += sum(1 for l in mo_chk if l == "recsagree true")
            # the same with the VBlank flag set on BOTH sides (C18_scan_eq_play_flags); with the flag on one side only the
            # agreement is lost on modules where Fxx >= 0x20 is reached (counted, not required)
            if any(l == "vrecsagree false" for l in mo_chk) and not capped:
                ck.unproved("model: Scan and Play with the VBlank flag set on both sides differ",
                            "%s (theorem C18_scan_eq_play_flags contradicted?)" % os.path.basename(path))
            stats["vblank_recs_agree"] += sum(1 for l in mo_chk if l == "vrecsagree true")
            stats["vblank_flag_mixup_disagrees"] += sum(1 for l in mo_chk if l == "xrecsagree false")
            if has_r:
                pass
            elif "modwf true" in mo:
                stats["modwf_holds"] += 1
            else:
                ck.unproved("module class ModWF (hypothesis of C18_scan_eq_play) does not hold on a generated module",
                            os.path.basename(path))
            # the decidable hypotheses of C18_scan_eq_play_seq / C18_loop_count (seqHypB) must hold for every
            # sequence of every generated module, and the recorded pre-state must reproduce the sequence's scan
            for l in mo_chk:
                if l.startswith("seqhyp "):
                    if l == "seqhyp true pre true":
                        stats["seqhyp_holds"] += 1
                    else:
                        stats["seqhyp_fails"] += 1
                        ck.unproved("hypotheses of C18_scan_eq_play_seq (seqHypB) do not hold on a generated module",
                                    "%s: %s" % (os.path.basename(path), l))
            if capped:
                continue
            diff = compare(c["lines"], mo)
            if diff:
                ck.unproved("correspondence LinFlow (Scan/Play) vs scan.c/player.c",
                            "%s [%s]: %s ; replay: write the hex of the replay file and run the harness" % (os.path.basename(path), fmt, diff))
                ck._write_replay("corr-" + os.path.basename(path), rp, diff, suffix="")
            else:
                ck.cov["traces_validated_against_impl"] += nseq
    for k, v in stats.items():
        ck.note(k, v)
    ck.note("modules_per_format", per_fmt)
    ck.note("configurations_run", cfg_stats)
    ck.cov["rule"] = ("cases = random linear-flow modules (format, channels, order list incl. invalid entries / S3M-IT markers, pattern "
                      "count and lengths incl. 1-row patterns, speed 1..31 / tempo 32..255 / delay 0..15 (IT: S6x and row delay SEx) / jump 0..255 "
                      "effects on random channels, speed / tempo changes followed by delays inside one pattern, restart position, initial speed "
                      "and tempo; modules with several never-joining sequences of different speed / tempo for the reposition / restart tour; long "
                      "chains (> 512 rows) of orders each left by a position jump; plus long Protracker M.K. MODs around the 8-minute CIA/VBlank "
                      "comparison threshold of the scan, either reading winning) generated from VERIF_SEED and written as real files; distinct by "
                      "hash of the file; non-trivial = at least one flow effect or more than one sequence")
    ck.assumptions += [
        "time_factor = 10, rrate = 250, XMP_FLAGS_VBLANK off (checked per module by the harness)",
        "patterns have 1..256 rows (row_limit 512 of the scan is then unreachable without loops; checked per module)",
        "IEEE double sums are compared with tolerance (2 us + 1 us per 100000 frames / 1000 rows; +-1 on int-truncated ms values, +-2 on frame_info.time)",
    ]
    if not ck.violations and not ck.unproved_items:
        shutil.rmtree(wd, ignore_errors=True)


def replay(ck, rp):
    exe = vlib.build_harness("c18_duration", ["c18_duration.c"])
    r = rp["replay"]
    path = os.path.join(vlib.OUT, "c18-replay." + r.get("fmt", "mod"))
    with open(path, "wb") as f:
        f.write(bytes.fromhex(r["hex"]))
    rc, out, err = vlib.run_exe(exe, [str(r.get("rate", 4000)), str(r.get("maxframes", 120000)), path])
    text = out.decode("latin-1")
    print(text[-4000:])
    print(err[-2000:])
    bad = rc != 0 or "oracle_fail" in text
    if bad:
        print("VIOLATION property=C18 replay=%s" % path)
    return 1 if bad else 0
