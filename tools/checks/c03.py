"""C03 — A successfully loaded module is structurally well-formed.

proof   : XmpProps.C03 over XmpModel.LoadPost (`finish` = gate ∘ adjust ∘ epilogue ∘ prepareScan ∘
          scanSequences, scan_module abstract) for ARBITRARY raw modules: WFCommon, and WF under the
          named loader obligations LoaderOblig; header-count models of the four core loaders
          (LoadPostHdr); player-side guards (LoadPostPlayer); helpers' row ranges;
          Gen/Limits, Gen/AllocSites, Gen/C03Hdr, Gen/C03Guards regenerated from /repo (translators)
tie     : (b) raw-module injector harness/c03_inject.c: the REAL load_module runs on synthetic raw
          modules; return code + canonical dump compared with the model's `finish`
          (b') harness/c03_wf.c observes the RAW module of every real load inside load_module; the
          model's `finishV` on it is compared with the loaded module
          (c) header files (tools/c03_hdrfiles.py) through ONE real loader vs the header models
search  : (a) harness/c03_wf.c: corpus + mutants + synthetic modules through the real loaders; the Lean
          driver evaluates LoaderOblig on the raw module and WF on the loaded module
"""
import hashlib
import json
import os
import random
import shutil
import subprocess
import sys

sys.path.insert(0, os.path.dirname(os.path.dirname(os.path.abspath(__file__))))
import vlib  # noqa: E402
import gen_limits  # noqa: E402
import gen_alloc_sites  # noqa: E402
import c03_gen_hdr  # noqa: E402
import c03_gen_guards  # noqa: E402
import c03_gen_namecopies  # noqa: E402
import synthmods  # noqa: E402  (read-only: owned by C01)

LEVEL = "proof"
MANIFEST = dict(
    category="proof",
    text="Lean 4 theorems (XmpProps.C03) over an executable model of the post-load path of load_module (sanity gate, "
         "libxmp_adjust_string, libxmp_load_epilogue, libxmp_prepare_scan, libxmp_scan_sequences incl. compare_vblank_scan; "
         "scan_module abstract) prove for ARBITRARY raw modules left behind by a format loader: (1) C03_finish_wf - whenever the "
         "path succeeds the module satisfies every clause this path is responsible for (counts within limits, every pattern "
         "present with valid present tracks, rst/spd/bpm ranges, envelope upper bounds and volume-envelope clamp, every sample "
         "with data and a non-negative length has 0 <= lps <= lpe <= len, strictly ordered if looped, sustain-loop clause, "
         "non-empty order list holds a valid pattern, 1..255 sequences with distinct entry points inside the order list, "
         "durations >= 0, sequence_control[ord] = 0xff or < num_sequences); (2) C03_finish_full - together with the named "
         "decidable loader obligations LoaderOblig (rows >= 1, sub-instrument arrays allocated, samples with data have len >= 0 "
         "and readable guard frames, envelope loop/sustain points that survive check_envelope are not negative, names "
         "NUL-terminated, restart >= 0) EVERY clause of the statement (WF) holds; C03_oblig_necessary - each obligation except "
         "names is also necessary, so an obligation failure is a property failure; (3) C03_hdr_mod/s3m/xm/it/rows + "
         "C03_count_oblig - for EVERY header the four core loaders accept, the counts they write pass the gate and need no "
         "clamp, pattern rows lie in 1..256 (IT 1..1024); (4) C03_player_sub/sample/trusted - the player's guards "
         "(get_subinstrument, IS_VALID_INSTRUMENT/NOTE/SAMPLE) render any event instrument/key, key map entry and sample id "
         "harmless; the unguarded sub->sid uses are pinned by a generated site list; (5) Sweep.nameCopies_bounded / "
         "rowStores_guarded - a generated list of every write into mod->name/type, xxi[].name, xxs[].name in src/loaders/*.c "
         "shows that each one with a syntactically visible byte count leaves the array terminated, and every "
         "hand-rolled store to a pattern/track row count excludes 0. The check evaluates LoaderOblig on the RAW "
         "module (observed inside load_module between the loader's return and the first modification) of every real load of "
         "corpus files, mutants, synthetic modules and header-probing files, and WF on the loaded module; a loader breaking an "
         "obligation is reported as a VIOLATION with the file as replay.",
    note="Trusted: Lean kernel; the hand-written models XmpModel/LoadPost.lean, LoadPostHdr.lean, LoadPostPlayer.lean; the "
         "harnesses, translators and differ. Ties (every run): raw-module injector (real load_module vs finish: return code and "
         "full dump, 10^4 synthetic raw modules, plus C03_finish_full / C03_oblig_necessary instances against the real code); "
         "finishV vs the real load_module on the raw module of every REAL load (scan_module spied); header models vs the four "
         "real loaders on boundary-probing files (accept/refuse, counts, pattern rows); limits, header limits, allocation sites, "
         "guard macro texts / get_subinstrument shape / sub->sid use sites regenerated from /repo. scan_module is abstract (any "
         "marks, any time). Modelled-not-verified: the bodies of the ~110 format loaders and libxmp_load_sample (C20): their "
         "obligations are covered by evaluation of LoaderOblig / WF on real loads only, so a loader breaking an obligation on an "
         "input outside the explored set is missed; of the four core loaders only the header-count logic is modelled (XM sample "
         "count and MOD's Mod's-Grave/tracker-id inputs are parameters). The extra obligation sidsOK behind the player's "
         "unguarded sub->sid uses is evaluated and reported as a note, not as a violation (it is not part of C03's statement). "
         "Raw-module preconditions not checked by the C (tables at least as long as their counts, xxt != NULL when a pattern is "
         "checked, sub != NULL when nsm > 0 without QUIRK_INSVOL) are assumptions of the injector's generator.",
    technique="Lean 4 proof over executable models of the post-load path, the core loaders' header validation and the player's "
              "reference guards + differential correspondence (raw-module injector, real-load raw modules, header files) + "
              "evaluation of the same decidable predicates on real loads",
    design_ref="DESIGN.md section 4 C03",
)

REQUIRED = ["Xmp.LoadPost.C03_finish_wf", "Xmp.LoadPost.C03_sequences", "Xmp.LoadPost.C03_sequences_own",
            "Xmp.LoadPost.C03_scan_loop_fuel", "Xmp.LoadPost.C03_finish_rc",
            "Xmp.LoadPost.C03_names", "Xmp.LoadPost.C03_nonneg", "Xmp.LoadPost.C03_finish_full",
            "Xmp.LoadPost.C03_oblig_necessary", "Xmp.LoadPost.C03_finish_full_vblank", "Xmp.LoadPost.C03_vblank_first",
            "Xmp.LoadPost.C03_hdr_mod", "Xmp.LoadPost.C03_hdr_s3m", "Xmp.LoadPost.C03_hdr_xm", "Xmp.LoadPost.C03_hdr_it",
            "Xmp.LoadPost.C03_hdr_rows", "Xmp.LoadPost.C03_count_oblig", "Xmp.LoadPost.Hdr.hdrLimits_sane",
            "Xmp.LoadPost.Hdr.modMagic_sane", "Xmp.LoadPost.C03_player_sub", "Xmp.LoadPost.C03_player_sample",
            "Xmp.LoadPost.C03_player_trusted", "Xmp.LoadPost.Player.guards_present", "Xmp.LoadPost.Player.sidSites_known",
            "Xmp.LoadPost.Sweep.nameCopies_bounded", "Xmp.LoadPost.Sweep.nameCopies_sizes", "Xmp.LoadPost.Sweep.rowStores_guarded",
            "Xmp.LoadPost.Sweep.subAllocs_consistent", "Xmp.LoadPost.Player.loadPath_no_statics", "Xmp.LoadPost.C03_helpers_track",
            "Xmp.LoadPost.C03_helpers_pattern", "Xmp.LoadPost.allocSites_known", "Xmp.LoadPost.limits_sane"]

# clauses of WF that the common path guarantees for arbitrary raw modules (WFCommon)
COMMON_CLAUSES = {"counts", "patterns", "spd", "bpm", "sequences", "sequence_control", "channels", "orders",
                  "sustain", "envelopes_upper", "rst_upper", "sample_loops", "sample_ranges"}

WORK = os.path.join(vlib.OUT, "c03")
INT_MAX = 2 ** 31 - 1
INT_MIN = -2 ** 31

QUIRK_INSVOL = 1 << 14
QUIRK_MARKER = 1 << 27


# ---------------------------------------------------------------------------
# raw-module generator
# ---------------------------------------------------------------------------

def hexs(b):
    return bytes(b).hex() if len(b) else "-"


def gen_name(r, size):
    k = r.random()
    if k < 0.25:
        body = bytes(r.choice(b"abcXYZ 09_-.") for _ in range(r.randint(0, size - 1)))
    elif k < 0.45:
        body = bytes(r.randint(1, 255) for _ in range(r.randint(0, size - 1)))
    elif k < 0.55:
        body = b" " * r.randint(0, size - 1)
    elif k < 0.7:
        body = bytes(r.choice([0x20, 0x7e, 0x7f, 0x1f, 0x80, 0xff, 0x41]) for _ in range(size - 1))
    elif k < 0.8:
        body = b"ab  " + bytes([r.choice([9, 10, 0x20])]) * r.randint(0, 5)
    else:
        body = bytes(r.randint(1, 255) for _ in range(r.randint(0, 6)))
    body = body[:size - 1]
    rest = bytes(r.randint(0, 255) for _ in range(size - 1 - len(body)))
    return body + b"\0" + rest          # always at least one NUL (C precondition)


def pick(r, valid, hostile, p_hostile):
    v = r.choice(hostile) if r.random() < p_hostile else valid()
    return max(INT_MIN, min(INT_MAX, v))         # every field is a C int


def gen_env(r, hostile):
    ph = 0.35 if hostile else 0.05
    npt = pick(r, lambda: r.randint(1, 32), [-1, 0, 1, 2, 31, 32, 33, 100, INT_MAX, INT_MIN], ph)
    def pt():
        return pick(r, lambda: r.randint(0, max(0, min(npt, 32) - 1)),
                    [-1, 0, npt - 1, npt, npt + 1, 40, INT_MAX, INT_MIN], ph)
    flg = r.randint(0, 63) if r.random() < 0.8 else r.choice([0, 1, 7, 0xffffffff, 0x80000001])
    n = r.choice([0, 2, 8, 64, 64, 64])
    data = [pick(r, lambda: r.randint(0, 64), [-1, -32768, 32767, 65, 255, 256, 300, -70], 0.3) for _ in range(n)]
    return "e %d %d %d %d %d %d %d%s" % (flg, npt, pt(), pt(), pt(), pt(), n, "".join(" %d" % v for v in data))


def gen_case(r, cid):
    """One raw-module description (text block).  Roughly half of the cases are
    valid modules with rich order lists (markers, invalid patterns, jumps) to
    exercise the sequence bookkeeping; the others perturb every field
    independently with valid / boundary / hostile values."""
    hostile = r.random() < 0.55
    ph = 0.12 if hostile else 0.0
    L = ["begin raw id=%d" % cid]
    chn = pick(r, lambda: r.choice([1, 2, 4, 4, 8, 16, 32, 64]), [-1, 0, 1, 63, 64, 65, 1000, INT_MIN, INT_MAX], ph)
    pat = pick(r, lambda: r.randint(1, 6), [-1, 0, 1, 256, 257, 258, 300, INT_MIN], ph * 0.7)
    if pat > 8 and chn > 8:
        chn = r.choice([1, 2, 4])
    echn = max(0, min(chn, 64)) if chn <= 64 else 0      # channels the gate / dump will look at
    npat = max(pat, 0) if pat <= 300 else 0
    if r.random() < ph:
        npat += r.randint(1, 3)
    ntrk_nat = npat * max(echn, 1)
    trk = pick(r, lambda: ntrk_nat + r.choice([0, 0, 0, 1, 5]), [-1, 0, ntrk_nat - 1, 1, INT_MIN, 70000], ph * 0.7)
    nt = max(ntrk_nat + 2, min(max(trk, 0), 70000))
    ins = pick(r, lambda: r.randint(0, 4), [-1, 0, 1, 254, 255, 256, 300, INT_MIN], ph)
    smp = pick(r, lambda: r.randint(0, 4), [-1, 0, 1, 1023, 1024, 1025, 1100, INT_MIN], ph * 0.6)
    spd = pick(r, lambda: r.randint(1, 31), [-1, 0, 1, 255, 256, INT_MAX, INT_MIN], max(ph, 0.05))
    bpm = pick(r, lambda: r.randint(32, 255), [-1, 0, 19, 20, 21, 999, 1000, 1001, INT_MAX, INT_MIN], max(ph, 0.05))
    len_ = pick(r, lambda: r.choice([1, 2, 3, 5, 8, 12, 20, 40]), [-1, 0, 1, 255, 256, 257, INT_MAX, INT_MIN], max(ph, 0.04))
    elen = max(0, min(len_, 256))
    rst = pick(r, lambda: r.randint(0, max(0, elen - 1)), [0, elen - 1, elen, elen + 1, 255, 256, INT_MAX], max(ph, 0.1))
    rst = max(rst, 0)                                    # restart < 0 is undefined behaviour in scan_module (see note)
    volbase = r.choice([0x40, 0x40, 0xff, 0x80, 0, 1, 0x100, -3])
    gvol = r.choice([0, 0x40, 0xff, -1, 1000])
    quirk = 0
    if r.random() < 0.5:
        quirk |= QUIRK_MARKER
    if r.random() < 0.4:
        quirk |= QUIRK_INSVOL
    if r.random() < 0.3:
        quirk |= r.getrandbits(27) & ~QUIRK_INSVOL & ~(1 << 26)
    L.append("mod %d %d %d %d %d %d %d %d %d %d %d %d %d" % (pat, trk, chn, ins, smp, spd, bpm, len_, rst, r.randint(-2, 70), volbase, gvol, quirk))
    L.append("name " + hexs(gen_name(r, 64)))
    L.append("type " + hexs(gen_name(r, 64)))
    # orders: mostly valid pattern numbers, some invalid, markers
    style = r.random()
    xxo = []
    for o in range(256):
        k = r.random()
        if style < 0.15:
            v = r.randint(0, 255)
        elif k < 0.70:
            v = r.randint(0, max(0, min(npat, 256) - 1))
        elif k < 0.82:
            v = 0xff
        elif k < 0.90:
            v = 0xfe
        else:
            v = r.choice([npat & 0xff, (npat + 1) & 0xff, 0x80, 0xfd])
        xxo.append(v & 0xff)
    if style > 0.93:
        xxo = [r.choice([0xff, 0xfe, (npat + 3) & 0xff]) for _ in range(256)]      # no valid order at all
    L.append("xxo " + hexs(xxo))
    xxc = []
    for c in range(64):
        pan = pick(r, lambda: r.randint(0, 255), [-1, 0, 255, 256, INT_MIN], ph * 0.15)
        vol = pick(r, lambda: r.randint(0, 255), [-1, 0, 255, 256, INT_MAX], ph * 0.15)
        xxc.append("%d %d %d" % (pan, vol, r.choice([0, 0, 1, 2, 0x10])))
    L.append("xxc " + " ".join(xxc))
    xxp_present = 0 if r.random() < ph * 0.3 else 1
    xxt_present = 1
    if (pat <= 0 or chn <= 0 or chn > 64) and r.random() < 0.3:
        xxt_present = 0          # the gate dereferences mod->xxt unchecked otherwise
    L.append("tab %d %d" % (xxp_present, xxt_present))
    rows_of = []
    for i in range(npat):
        present = 0 if r.random() < ph * 0.25 else 1
        rows = pick(r, lambda: r.choice([1, 2, 4, 16, 32, 64]), [0, 1, 256, 257, 3000, -1, 70000], ph * 0.5)
        rows_of.append(rows)
        idx = []
        for j in range(max(echn, 1)):
            t = i * max(echn, 1) + j
            if r.random() < ph * 0.08:
                t = max(INT_MIN, min(INT_MAX, r.choice([-1, trk, trk - 1, trk + 1, nt, INT_MAX, INT_MIN, 0])))
            idx.append(t)
        L.append("p %d %d %d %d%s" % (i, present, rows, len(idx), "".join(" %d" % t for t in idx)))
    trows = []
    for t in range(nt):
        if t < ntrk_nat:
            base = rows_of[t // max(echn, 1)]
            v = pick(r, lambda: max(1, min(base, 256)), [0, 1, -1, 5, 4096], ph * 0.2)
            trows.append("N" if r.random() < ph * 0.04 else "%d" % v)
        else:
            trows.append("N" if r.random() < 0.7 else "4")
    L.append("xxt %d %s" % (nt, " ".join(trows)))
    # flow events for the real scan_module (ignored by the model: scan is abstract)
    if ntrk_nat and r.random() < 0.6:
        for _ in range(r.randint(1, 6)):
            t = r.randrange(ntrk_nat)
            fx = r.choice([0x0b, 0x0b, 0x0d, 0x0f, 0x0f])
            if fx == 0x0b:
                par = r.randint(0, max(0, elen))
            elif fx == 0x0d:
                par = r.choice([0, 1, 0x10, 0x63])
            else:
                par = r.choice([1, 3, 6, 0x1f, 0x20, 0x7d, 0xff, 0])
            L.append("tev %d %d %d %d" % (t, r.randint(0, 63), fx, par))
    ni = max(0, ins) if ins <= 2000 else 0
    for i in range(ni):
        light = i >= 8                  # padding instruments of the clamp tests stay small
        nsm = 0 if light else pick(r, lambda: r.choice([0, 1, 1, 2, 3]), [-1, 0, 16, 300, INT_MIN], ph)
        if r.random() < 0.15 and (quirk & QUIRK_INSVOL or nsm <= 0):
            nsub, gv = -1, []
        else:
            nsub = max(nsm, 0) + r.choice([0, 0, 1])
            gv = [r.randint(0, 0x40) for _ in range(nsub)]
        L.append("i %d %s %d %d %d%s" % (i, hexs(gen_name(r, 32)), r.randint(-1, 0x41), nsm, nsub, "".join(" %d" % g for g in gv)))
        sids = [pick(r, lambda: r.randint(0, max(0, min(smp, 8) - 1)), [-1, 0, smp - 1, smp, smp + 1, 255, INT_MAX, INT_MIN], ph * 0.5)
                for _ in range(max(nsub, 0))]
        L.append("u %d %d%s" % (i, max(nsub, 0), "".join(" %d" % x for x in sids)))
        for e in range(3):
            L.append("e 0 0 0 0 0 0 0" if light and r.random() < 0.8 else gen_env(r, hostile))
    ns = max(0, smp) if smp <= 2000 else 0
    for i in range(ns):
        ln = pick(r, lambda: r.randint(0, 200), [-1, 0, 1, INT_MAX, INT_MIN], ph)
        def sp():
            return pick(r, lambda: r.randint(0, max(0, min(ln, 200))), [-5, -1, 0, 1, ln - 1, ln, ln + 1, INT_MAX, INT_MIN], 0.35)
        flg = r.getrandbits(8) if r.random() < 0.7 else r.choice([0, 0x20, 0x60, 0x40, 0xffff])
        L.append("s %d %s %d %d %d %d %d 1 %d %d" % (i, hexs(gen_name(r, 32)), ln, r.randint(-1, 210), r.randint(-1, 210), flg,
                                                      r.randint(0, 1), sp(), sp()))
    L.append("end")
    return "\n".join(L) + "\n"


# ---------------------------------------------------------------------------
# workers (run as subprocesses: `python3 tools/checks/c03.py <job.json>`)
# ---------------------------------------------------------------------------

def parse_blocks(text, opener):
    """{id: [lines]} for blocks `begin <opener> id=<n>` … `end`."""
    out, cur, cid = {}, None, None
    for line in text.splitlines():
        if line.startswith("begin " + opener):
            cid = line.split("id=")[1].split()[0]
            cur = []
        elif line == "end" and cur is not None:
            out[cid] = cur
            cur = None
        elif cur is not None:
            cur.append(line)
    return out


def run_cmd(cmd, stdin=None, stdout=None, timeout=3000):
    env = dict(os.environ)
    env.setdefault("ASAN_OPTIONS", "detect_leaks=0:abort_on_error=0:allocator_may_return_null=1")
    env.setdefault("UBSAN_OPTIONS", "print_stacktrace=1")
    p = subprocess.run(cmd, stdin=stdin, stdout=stdout, stderr=subprocess.PIPE, timeout=timeout, env=env)
    return p.returncode, p.stderr.decode("utf-8", "replace")


def inject_worker(job):
    import random
    r = random.Random(job["seed"])
    base = os.path.join(job["work"], "inj-%d" % job["shard"])
    cases_p, min_p, real_p, model_p, wfin_p, wfout_p = (base + s for s in (".cases", ".min", ".real", ".model", ".wfin", ".wfout"))
    texts = {}
    with open(cases_p, "w") as f:
        for k in range(job["n"]):
            cid = job["shard"] * 1000000 + k
            t = job["fixed"][k] if k < len(job.get("fixed", [])) else gen_case(r, cid)
            t = t.replace("begin raw id=X", "begin raw id=%d" % cid)
            texts[str(cid)] = t
            f.write(t)
    res = {"cases": len(texts), "mismatch": [], "wf_fail": [], "abort": None, "rc": {}, "stats": {}}
    with open(real_p, "w") as out:
        rc, err = run_cmd([job["harness"], cases_p, min_p], stdout=out)
    real = parse_blocks(open(real_p).read(), "out")
    if rc != 0:
        last = None
        for cid in texts:
            if cid not in real:
                last = cid
                break
        res["abort"] = {"rc": rc, "stderr": err[-3000:], "case": texts.get(last, ""), "sig": vlib.sanitizer_signature(err)}
    model = {}
    if job["driver"]:
        with open(min_p) as fin, open(model_p, "w") as out:
            rc2, err2 = run_cmd([job["driver"]], stdin=fin, stdout=out)
        if rc2 != 0:
            res["driver_error"] = err2[-1000:]
        # model output blocks come in input order
        ids = [l.split("id=")[1].split()[0] for l in open(min_p) if l.startswith("begin raw")]
        cur, k = [], 0
        for line in open(model_p).read().splitlines():
            if line == "end":
                if k < len(ids):
                    model[ids[k]] = cur
                cur, k = [], k + 1
            else:
                cur.append(line)
        # the Lean predicate on the REAL dumps (the oracle for a disagreement)
        with open(wfin_p, "w") as f:
            for cid, lines in real.items():
                if lines and lines[0] == "rc 0":
                    f.write("begin wf id=%s what=load\n" % cid)
                    f.write("\n".join(l for l in lines[1:] if not l.startswith("trace")) + "\nend\n")
        with open(wfin_p) as fin, open(wfout_p, "w") as out:
            run_cmd([job["driver"]], stdin=fin, stdout=out)
        # LoaderOblig of every raw description (first line of the model's block)
        oblig = {}
        for cid, mo in model.items():
            for l in mo:
                if l.startswith("oblig "):
                    f = l.split(" ")
                    oblig[cid] = [] if f[1] == "ok" else f[2].split(",")
        real_wf = {}
        for line in open(wfout_p):
            f = line.split(" ")
            if f[0] == "wf":
                cid = line.split("id=")[1].split()[0]
                real_wf[cid] = [] if f[1] == "ok" else f[2].split(",")
            if f[0] == "wf" and f[1] == "FAIL":
                bad = sorted(set(f[2].split(",")) & COMMON_CLAUSES)
                if bad:
                    cid = line.split("id=")[1].split()[0]
                    res["wf_fail"].append({"id": cid, "clauses": bad, "case": texts[cid]})
        # C03_finish_full / C03_oblig_necessary against the REAL load_module: obligations met and rc 0 => every
        # clause of WF holds on the real dump; an obligation (other than names) broken and rc 0 => WF fails
        res["full_ok"] = 0
        res["necessary_ok"] = 0
        res["full_bad"] = []
        for cid, bad_wf in real_wf.items():
            ob = oblig.get(cid)
            if ob is None:
                continue
            if not ob:
                if bad_wf:
                    if not (set(bad_wf) & COMMON_CLAUSES):
                        res["full_bad"].append({"id": cid, "kind": "full", "clauses": bad_wf, "case": texts[cid]})
                else:
                    res["full_ok"] += 1
            elif set(ob) - {"names"}:
                if bad_wf:
                    res["necessary_ok"] += 1
                else:
                    res["full_bad"].append({"id": cid, "kind": "necessary", "clauses": ob, "case": texts[cid]})
    st = res["stats"]

    def bump(k, n=1):
        st[k] = st.get(k, 0) + n
    keys = []
    for cid, lines in real.items():
        rcl = lines[0] if lines else "rc ?"
        res["rc"][rcl] = res["rc"].get(rcl, 0) + 1
        nontriv = False
        if rcl == "rc 0":
            d = {l.split(" ", 1)[0]: l for l in lines if l.split(" ", 1)[0] in ("mod", "seq", "trace")}
            modf = d["mod"].split()
            seqf = d["seq"].split()
            ncalls = (len(d["trace"].split()) - 1) // 2
            nseq = int(seqf[1])
            bump("nseq=%s" % (nseq if nseq < 4 else "4+"))
            bump("discarded_scans", ncalls - nseq if ncalls > nseq else 0)
            if int(modf[8]) == 0:
                bump("len_zero_after_load")
            raw = texts[cid].splitlines()[1].split()
            clamped = [nm for nm, a, b in zip(("pat", "trk", "chn", "ins", "smp", "spd", "bpm", "len", "rst"), raw[1:10], modf[1:10]) if a != b]
            for nm in clamped:
                bump("clamped_" + nm)
            nontriv = bool(clamped) or nseq > 1 or ncalls > nseq
        keys.append((hashlib.sha256(texts[cid].split("\n", 1)[1].encode()).hexdigest()[:16], nontriv))
        if job["driver"]:
            mo = model.get(cid)
            if mo is None:
                res["mismatch"].append({"id": cid, "detail": "no model output", "case": texts[cid]})
                continue
            mo_cmp = [l for l in mo if not l.startswith(("wfc ", "wff ", "oblig "))]
            if [l for l in mo if l.startswith("wfc ")] not in ([], ["wfc 1"]):
                res["mismatch"].append({"id": cid, "detail": "WFCommon false on the model's own output", "case": texts[cid]})
            if [l for l in mo if l.startswith("oblig ")] == ["oblig ok -"] and "wff 0" in mo:
                res["mismatch"].append({"id": cid, "detail": "LoaderOblig true but WF false on the model's own output "
                                                             "(contradicts C03_finish_full)", "case": texts[cid]})
            if mo_cmp != lines:
                k = 0
                while k < min(len(mo_cmp), len(lines)) and mo_cmp[k] == lines[k]:
                    k += 1
                a = lines[k][:300] if k < len(lines) else "<missing>"
                b = mo_cmp[k][:300] if k < len(mo_cmp) else "<missing>"
                res["mismatch"].append({"id": cid, "detail": "line %d: real=%r model=%r" % (k, a, b), "case": texts[cid]})
    res["keys"] = keys
    res["sample"] = None
    for cid, lines in real.items():
        if lines and lines[0] == "rc 0" and int([l for l in lines if l.startswith("seq ")][0].split()[1]) > 1:
            res["sample"] = {"id": cid, "raw_mod": texts[cid].splitlines()[1], "loaded_mod": lines[2][:200],
                             "seq": [l for l in lines if l.startswith("seq ")][0][:120],
                             "trace": [l for l in lines if l.startswith("trace")][0][:120]}
            break
    for p in (cases_p, min_p, real_p, model_p, wfin_p, wfout_p):
        if not job.get("keep"):
            try:
                os.unlink(p)
            except OSError:
                pass
    return res


def wf_worker(job):
    base = os.path.join(job["work"], "%s-%d" % (job["kind"], job["shard"]))
    out_p, drv_p = base + ".dump", base + ".wf"
    tmpd = base + ".tmp"
    os.makedirs(tmpd, exist_ok=True)
    res = {"loads": 0, "rc": {}, "ok_loads": 0, "evaluated": 0, "fail": [], "abort": None, "kinds": {}, "what": {},
           "files_ok": 0, "files": len(job.get("files", [])), "keys": [], "publicview": 0,
           "oblig_evaluated": 0, "oblig_ok_loads": 0, "oblig_fail": [], "fin_ok": 0, "fin_bad": [],
           "sids": {}, "sids_fmt": {}, "sid_samples": []}
    hdr_lines = {}
    if job["kind"] == "hdr":
        # header tie: generated files of ONE core format, loaded through that one real loader
        import c03_hdrfiles
        r = random.Random(job["seed"])
        os.makedirs(job["hdr_dir"], exist_ok=True)
        job["files"] = []
        for k in range(job["n"]):
            data, hl = c03_hdrfiles.GENS[job["fmt"]](r)
            fp = os.path.join(job["hdr_dir"], "hdr-%s-%05d.%s" % (job["fmt"], k, job["fmt"]))
            open(fp, "wb").write(data)
            job["files"].append(fp)
            hdr_lines[fp] = hl
        res["files"] = len(job["files"])
        cmd = [job["harness"], "hdr", job["fmt"], tmpd] + job["files"]
    else:
        cmd = [job["harness"], "run", str(job["seed"]), str(job["nmut"]), tmpd] + job["files"]
    with open(out_p, "w") as out:
        rc, err = run_cmd(cmd, stdout=out)
    last_load = ""
    okfiles = set()
    for line in open(out_p, errors="replace"):
        if line.startswith("load rc="):
            res["loads"] += 1
            f = line.split()
            res["rc"][f[1]] = res["rc"].get(f[1], 0) + 1
            last_load = line.strip()
            if f[1] == "rc=0":
                res["ok_loads"] += 1
                okfiles.add(f[2])
                res["keys"].append((hashlib.sha256(line.encode()).hexdigest()[:16], "mutseed=0 " not in line))
        elif line.startswith("mutant kind="):
            k = line.split("=")[1].strip()
            res["kinds"][k] = res["kinds"].get(k, 0) + 1
        elif line.startswith("PUBLICVIEW"):
            res["publicview"] += 1
    res["files_ok"] = len(okfiles)
    if rc != 0:
        res["abort"] = {"rc": rc, "stderr": err[-3000:], "last_load": last_load, "sig": vlib.sanitizer_signature(err)}
    if job["driver"]:
        with open(out_p) as fin, open(drv_p, "w") as out:
            run_cmd([job["driver"]], stdin=fin, stdout=out)
        for line in open(drv_p, errors="replace"):
            f = line.rstrip("\n").split(" ")
            if f[0] not in ("wf", "oblig", "fin", "sids"):
                continue
            tag = dict(x.split("=", 1) for x in line.rstrip("\n").split(" | ", 1)[1].split(" ")[2:] if "=" in x)
            for k in ("file", "other"):
                if k in tag:
                    tag[k] = tag[k].replace("%20", " ").replace("%25", "%")
            if f[0] == "oblig":
                # LoaderOblig on the raw module of a real load
                res["oblig_evaluated"] += 1
                if tag.get("rc") == "0":
                    res["oblig_ok_loads"] += 1
                if f[1] == "FAIL" and tag.get("rc") == "0":
                    res["oblig_fail"].append({"clauses": f[2].split(","), "tag": tag})
                continue
            if f[0] == "sids":
                # Player.sidsOK on the raw module (informational: what the unguarded sub->sid uses rely on)
                if tag.get("rc") == "0":
                    k = "ok" if f[1] == "ok" else "out_of_range"
                    if f[1] != "ok" and int(f[2]) & job.get("quirk_trusted", 0):
                        k = "out_of_range_with_ft2bugs_or_protrack_quirk"
                        if len(res["sid_samples"]) < 3:
                            res["sid_samples"].append(tag)
                    res["sids"][k] = res["sids"].get(k, 0) + 1
                    if f[1] != "ok":
                        fm = tag.get("fmt", "?")
                        res["sids_fmt"][fm] = res["sids_fmt"].get(fm, 0) + 1
                continue
            if f[0] == "fin":
                # model finishV on the raw module vs what the real load_module made of it
                if f[1] == "ok":
                    res["fin_ok"] += 1
                else:
                    res["fin_bad"].append({"detail": line.split(" | ", 1)[0][:600], "tag": tag})
                continue
            res["evaluated"] += 1
            w = tag.get("what", "?").split(":")[0]
            res["what"][w] = res["what"].get(w, 0) + 1
            if f[1] == "FAIL":
                res["fail"].append({"clauses": f[2].split(","), "tag": tag})
    if job["kind"] == "hdr" and job["driver"]:
        hdr_compare(job, out_p, hdr_lines, res)
    for p in (out_p, drv_p):
        if not job.get("keep"):
            try:
                os.unlink(p)
            except OSError:
                pass
    try:
        os.rmdir(tmpd)
    except OSError:
        pass
    return res


def hdr_compare(job, out_p, hdr_lines, res):
    """Hdr.<fmt>Header (Lean) vs the real loader: refuse / accept, the counts the loader left in the raw
    module, the row count of every pattern."""
    fmt = job["fmt"]
    real, last, cur = {}, None, None
    for l in open(out_p, errors="replace"):
        l = l.rstrip("\n")
        if l.startswith("load rc="):
            f = dict(x.split("=", 1) for x in l.split()[1:])
            last = f["file"].replace("%20", " ").replace("%25", "%")
            real[last] = {"rc": int(f["rc"]), "mod": None, "rows": []}
        elif l.startswith("begin rawload"):
            cur = last
        elif l == "end":
            cur = None
        elif cur and l.startswith("mod "):
            real[cur]["mod"] = l.split()
        elif cur and l.startswith("p "):
            real[cur]["rows"].append(l.split()[3])
    inp = "".join("begin hdr id=%d\n%s\nend\n" % (k, hdr_lines[fp]) for k, fp in enumerate(job["files"]))
    p = subprocess.run([job["driver"]], input=inp.encode(), stdout=subprocess.PIPE, stderr=subprocess.PIPE, timeout=3000)
    model = {}
    for l in p.stdout.decode().splitlines():
        if l.startswith("hdr "):
            a, t = l.split(" | ", 1)
            model[int(t.split("id=")[1].split()[0])] = a.split()[1:]
    st = res.setdefault("hdr", {"accept": 0, "reject": 0, "bad": [], "boundary": {}})
    for k, fp in enumerate(job["files"]):
        rl, m = real.get(fp), model.get(k)
        detail = None
        if rl is None and res.get("abort"):
            continue                # the harness aborted before this file (reported as a violation of its own)
        if m is None or rl is None or m[0] == "?":
            detail = "no answer (model %r, real %r)" % (m, rl)
        elif m[0] == "none":
            # the loader is alone in the table: a refused header never reaches the gate
            if rl["mod"] is not None:
                detail = "model refuses, the real loader accepted with counts %s" % " ".join(rl["mod"][1:10])
            else:
                st["reject"] += 1
        elif rl["mod"] is None:
            detail = "model accepts (%s), the real load ended with rc %d before the sanity gate passed" % (" ".join(m[1:8]), rl["rc"])
        else:
            rm = rl["mod"]          # mod pat trk chn ins smp spd bpm len rst …
            realc = [rm[3], rm[1], rm[2], rm[4], rm[5], rm[8], rm[9]]
            mc = m[1:8]
            if fmt == "xm":
                realc[4] = mc[4] = "-"      # samples are counted by load_instruments, not a header field
            if realc != mc:
                detail = "counts chn pat trk ins smp len rst: real %s model %s" % (" ".join(realc), " ".join(mc))
            elif rl["rows"] != m[9:]:
                detail = "pattern rows: real %s model %s" % (" ".join(rl["rows"][:40]), " ".join(m[9:49]))
            else:
                st["accept"] += 1
        if detail:
            st["bad"].append({"file": fp, "fmt": fmt, "hdr": hdr_lines[fp][:400], "detail": detail,
                              "bytes_hex": open(fp, "rb").read()[:200000].hex()})
        res["keys"].append((hashlib.sha256(hdr_lines[fp].encode()).hexdigest()[:16], bool(m and m[0] == "ok")))


def mt_worker(job):
    """two contexts loading concurrently (c03_wf mt): every concurrent load must give the dump of the module alone"""
    import c03_hdrfiles
    r = random.Random(job["seed"])
    os.makedirs(job["dir"], exist_ok=True)
    files = []
    for k in range(4):
        # many sequences with different entry points: a scratch table shared between contexts shows at once
        groups = [[r.randint(0, 3) for _ in range(r.randint(1, 3))] for _ in range(r.randint(40, 60))]
        fp = os.path.join(job["dir"], "mt-%d.s3m" % k)
        open(fp, "wb").write(c03_hdrfiles.multiseq_s3m(groups))
        files.append(fp)
    files += job["files"]
    res = {"pairs": 0, "loads": 0, "bad": [], "abort": None, "multiseq_loads": 0}
    p = subprocess.run([job["harness"], "mt", str(job["iters"]), str(job["maxpairs"])] + files, stdout=subprocess.PIPE,
                       stderr=subprocess.PIPE, timeout=3000,
                       env=dict(os.environ, ASAN_OPTIONS="detect_leaks=0:abort_on_error=0:allocator_may_return_null=1"))
    if p.returncode != 0:
        err = p.stderr.decode("utf-8", "replace")
        res["abort"] = {"rc": p.returncode, "stderr": err[-3000:], "sig": vlib.sanitizer_signature(err)}
    for l in p.stdout.decode("latin-1").splitlines():
        if l.startswith("mt file="):
            f = dict(x.split("=", 1) for x in l.split(" first=")[0].split()[1:])
            res["loads"] += int(f["loads"])
            if int(f["nseq"]) > 1:
                res["multiseq_loads"] += int(f["loads"])
            if int(f["mismatch"]) or int(f["badrc"]):
                fa, fb = (f[k].replace("%20", " ").replace("%25", "%") for k in ("file", "other"))
                res["bad"].append({"file": fa, "other": fb, "mismatch": int(f["mismatch"]), "badrc": int(f["badrc"]),
                                   "first": l.split(" first=", 1)[1][:300],
                                   "file_hex": open(fa, "rb").read()[:300000].hex(), "other_hex": open(fb, "rb").read()[:300000].hex()})
        elif l.startswith("mt-done"):
            res["pairs"] = int(l.split("pairs=")[1])
    return res


def run_jobs(jobs):
    """Run worker jobs as parallel subprocesses of this file (scratch files in a
    directory of this run only, so concurrent runs do not collide)."""
    work = os.path.join(WORK, "run-%d" % os.getpid())
    os.makedirs(work, exist_ok=True)
    procs = []
    for j in jobs:
        j["work"] = work
        jp = os.path.join(work, "job-%s-%d.json" % (j["kind"], j["shard"]))
        json.dump(j, open(jp, "w"))
        procs.append((jp, subprocess.Popen([sys.executable, os.path.abspath(__file__), jp], stdout=subprocess.PIPE,
                                           stderr=subprocess.PIPE)))
    out = []
    for jp, p in procs:
        so, se = p.communicate()
        if p.returncode != 0:
            raise vlib.InfraError("C03 worker failed: %s\n%s" % (jp, se.decode()[-3000:]))
        out.append(json.loads(so.decode()))
        os.unlink(jp)
    try:
        os.rmdir(work)
    except OSError:
        pass
    return out


# ---------------------------------------------------------------------------
# fixed regression cases (run first in every shard 0)
# ---------------------------------------------------------------------------

def fixed_case(orders, quirk, pat=1, chn=1, rows=4, len_=None, rst=0, extra_mod=None):
    len_ = len(orders) if len_ is None else len_
    xxo = list(orders) + [0] * (256 - len(orders))
    L = ["begin raw id=X",
         "mod %d %d %d 0 0 6 125 %d %d 64 64 64 %d" % (pat, pat * chn, chn, len_, rst, quirk),
         "name " + "00" * 64, "type " + "00" * 64, "xxo " + hexs(xxo), "xxc " + " ".join("128 64 0" for _ in range(64)), "tab 1 1"]
    for i in range(pat):
        L.append("p %d 1 %d %d%s" % (i, rows, chn, "".join(" %d" % (i * chn + j) for j in range(chn))))
    L.append("xxt %d %s" % (pat * chn, " ".join(str(rows) for _ in range(pat * chn))))
    L.append("end")
    return "\n".join(L) + "\n"


FIXED = [
    fixed_case([0, 0xff, 0xff], QUIRK_MARKER),                 # F1 witness: discarded scans leave stale ids
    fixed_case([0, 0xff, 0, 0xff, 0xfe, 0], QUIRK_MARKER),     # several sequences + a discarded one
    fixed_case([0xff, 0], QUIRK_MARKER),                       # first scan finds no valid order: load fails
    fixed_case([5, 6, 7], 0),                                  # no valid order: len becomes 0, one sequence
    fixed_case([0] * 256, 0, len_=256),                        # full-length order list
    fixed_case([0, 1], 0, pat=2, len_=2, rst=2),               # restart == len is reset
]


# ---------------------------------------------------------------------------
# the check
# ---------------------------------------------------------------------------

def harnesses():
    dh = hashlib.sha256(open(os.path.join(vlib.HARNESS, "c03_dump.h"), "rb").read()).hexdigest()[:12]
    inj = vlib.build_harness("c03_inject", ["c03_inject.c"], defines=["C03_DUMP_H_HASH=0x" + dh])
    wf = vlib.build_harness("c03_wf", ["c03_wf.c"], defines=["C03_DUMP_H_HASH=0x" + dh], libs=["-lpthread"])
    return inj, wf


def emit_bytes(wf_exe, tag):
    args = [wf_exe, "emit", tag["file"], tag["mutseed"]] + ([tag["other"]] if tag.get("other", "-") != "-" else [])
    rc, out, err = vlib.run_exe(wf_exe, args[1:])
    h = out.decode().strip()
    return h if len(h) <= 4000000 else h[:4000000]


def run(ck):
    lim = gen_limits.generate()
    sites = gen_alloc_sites.generate()
    hl = c03_gen_hdr.generate()
    gd = c03_gen_guards.generate()
    ck.note("player_sid_sites", ["%s:%s:%s" % t for t in gd["sites"]])
    nc = c03_gen_namecopies.generate()
    ck.note("loader_name_writes", {"sites": len(nc["names"]), "bound_visible": sum(1 for t in nc["names"] if t[5] is not None),
                                   "dynamic": ["%s:%s:%s" % t[:3] for t in nc["names"] if t[5] is None]})
    ck.note("loader_row_stores", ["%s:%s:%s:%s" % t for t in nc["rows"]])
    ck.note("loader_sub_allocs", {c: sum(1 for t in nc["subs"] if t[3] == c) for c in ("lvalue", "sameExpr", "literal", "other")})
    ck.note("load_path_writable_data", ["%s:%s:%s" % t for t in gd["statics"]])
    ck.note("limits_stale_epilogue_literals", lim["stale"])
    ck.note("header_limits_stale", hl["stale"])
    ck.note("alloc_sites_direct", ["%s:%s:%s" % s for s in sites["direct"]])
    ck.proofs(["XmpProps.C03"], required=REQUIRED, drivers=["drv_c03"])
    # a broken THEOREM (e.g. a regenerated limit that no longer supports hdrLimits_sane) is reported as unproved; the
    # models still compile, so the driver is built on its own and the oracles keep producing replayable inputs
    lean_ok = getattr(ck, "lean_ok", False) or vlib.lean_build(["drv_c03"])[0]
    driver = vlib.lean_driver("drv_c03") if lean_ok and os.path.exists(vlib.lean_driver("drv_c03")) else None
    inj, wf = harnesses()
    quick = ck.tier == "quick"
    nsh = min(16, vlib.NCPU)

    # ---- (b) raw-module injector: real load_module vs model -----------------
    per = (10400 if quick else 200000) // nsh
    jobs = [{"kind": "inject", "shard": i, "seed": ck.seed * 104729 + i, "n": per, "harness": inj, "driver": driver,
             "fixed": FIXED if i == 0 else []} for i in range(nsh)]
    # ---- (a) direct oracle on real loads ------------------------------------
    files = vlib.corpus_files()
    ck.rng.shuffle(files)
    # minimised past failures (regression corpus of this property) always run first
    cdir = os.path.join(vlib.VERIF, "corpus", "C03")
    if os.path.isdir(cdir):
        files = sorted(os.path.join(cdir, f) for f in os.listdir(cdir)) + files
    # structure-aware synthetic modules of the four core formats (+ DBM / compressed IT / MMD)
    syn_dir = os.path.join(WORK, "syn-%d" % os.getpid())
    syn = synthmods.write_set(random.Random(ck.seed * 7919 + 303), syn_dir, 96 if quick else 960)
    syn += synthmods.write_set_extra(random.Random(ck.seed * 104729 + 303), syn_dir, 36 if quick else 360, prefix="syx")
    # the payload of every MUSE (J2B) container as a plain Galaxy module: the format-aware mutants then reach it
    import zlib
    for fp in list(files):
        try:
            head = open(fp, "rb").read(24)
            if head[:4] == b"MUSE":
                data = zlib.decompress(open(fp, "rb").read()[24:])
                if data[:4] == b"RIFF":
                    dp = os.path.join(syn_dir, "muse-" + os.path.basename(fp) + ".am")
                    os.makedirs(syn_dir, exist_ok=True)
                    open(dp, "wb").write(data)
                    syn.append(dp)
        except Exception:
            pass
    files = files + syn
    ck.note("synthetic_modules", len(syn))
    nmut = 3 if quick else 40
    qmask = lim["values"].get("QUIRK_FT2BUGS", 0) | lim["values"].get("QUIRK_PROTRACK", 0)
    wjobs = [{"kind": "wf", "shard": i, "seed": ck.seed, "nmut": nmut, "harness": wf, "driver": driver,
              "files": files[i::nsh], "quirk_trusted": qmask} for i in range(nsh)]
    # ---- (c) header tie: Hdr.modHeader / s3mHeader / xmHeader / itHeader vs the four real loaders ----
    hdr_dir = os.path.join(WORK, "hdr-%d" % os.getpid())
    nh = 160 if quick else 4000
    hjobs = [{"kind": "hdr", "shard": i, "seed": ck.seed * 7919 + 17 * i + 1, "n": nh, "fmt": fmt, "harness": wf,
              "driver": driver, "hdr_dir": hdr_dir, "nmut": 0}
             for i, fmt in enumerate(("mod", "s3m", "xm", "it"))]
    # ---- (d) two contexts loading concurrently: the load path shares nothing between contexts ----
    mfiles = [f for f in vlib.corpus_files()]
    random.Random(ck.seed * 31 + 5).shuffle(mfiles)
    mjobs = [{"kind": "mt", "shard": 0, "seed": ck.seed * 977 + 3, "harness": wf, "dir": os.path.join(hdr_dir, "mt"),
              "files": mfiles[:60 if quick else 400], "iters": 60 if quick else 300, "maxpairs": 10 if quick else 60}]
    results = run_jobs(jobs + wjobs + hjobs + mjobs)
    rmt = results[-1]
    results = results[:-1]
    if rmt["abort"]:
        ck.violation("mt-abort:" + rmt["abort"]["sig"], {"kind": "abort", "stderr": rmt["abort"]["stderr"]},
                     "two contexts loading concurrently: the harness aborted (rc=%d): %s" % (rmt["abort"]["rc"], rmt["abort"]["sig"]))
    for b in rmt["bad"]:
        ck.violation("mt:shared-load-state", {"kind": "mt", "file": b["file"], "other": b["other"], "file_hex": b["file_hex"],
                                               "other_hex": b["other_hex"], "first": b["first"]},
                     "%s loaded while %s was being loaded in another thread: %d of the loads returning 0 differ from the module "
                     "loaded alone (first differing dump line: %s), %d failed" % (
                         b["file"], b["other"], b["mismatch"], b["first"], b["badrc"]))
    ck.note("concurrent_loads", {"pairs": rmt["pairs"], "loads": rmt["loads"], "of_multi_sequence_modules": rmt["multiseq_loads"]})
    ck.cov["traces_validated_against_impl"] += rmt["loads"] if not rmt["bad"] else 0
    rin, rwf, rhdr = results[:len(jobs)], results[len(jobs):len(jobs) + len(wjobs)], results[len(jobs) + len(wjobs):]
    hstat = {}
    for job, r in zip(hjobs, rhdr):
        h = r.get("hdr", {"accept": 0, "reject": 0, "bad": []})
        hstat[job["fmt"]] = {"accepted_both": h["accept"], "refused_both": h["reject"], "disagree": len(h["bad"])}
        ck.cov["traces_validated_against_impl"] += h["accept"] + h["reject"]
        prop_fail = set(f["tag"].get("file") for f in r["fail"]) | set(f["tag"].get("file") for f in r["oblig_fail"])
        for b in h["bad"]:
            if b["file"] in prop_fail:
                continue
            ck.unproved("correspondence Hdr.%sHeader vs %s_load" % (job["fmt"], job["fmt"]),
                        "%s\nheader: %s\nreplay: write the bytes (bytes_hex, first %d) to F and run `c03_wf hdr %s /tmp F`\n%s" % (
                            b["detail"], b["hdr"], len(b["bytes_hex"]) // 2, job["fmt"], b["bytes_hex"][:4000]))
        if driver and h["accept"] == 0:
            ck.unproved("header tie", "no %s header was accepted by both the model and the real loader" % job["fmt"])
    ck.note("header_tie", hstat)
    rwf = rwf + rhdr          # the loads of the header files feed the oracles like every other real load
    wjobs = wjobs + hjobs

    agg, rcs = {}, {}
    n_corr_ok = 0
    for job, r in zip(jobs, rin):
        for k, v in r["stats"].items():
            agg[k] = agg.get(k, 0) + v
        for k, v in r["rc"].items():
            rcs[k] = rcs.get(k, 0) + v
        for key, nt in r["keys"]:
            ck.count("inj:" + key, nontrivial=nt)
        if r["sample"]:
            ck.sample(r["sample"], limit=3)
        if r.get("driver_error"):
            ck.unproved("driver drv_c03", r["driver_error"])
        if r["abort"]:
            a = r["abort"]
            ck.violation("inject-abort:" + a["sig"], {"kind": "raw", "case": a["case"], "stderr": a["stderr"]},
                         "the real load_module aborted on a raw module (rc=%d): %s" % (a["rc"], a["sig"]))
        wf_ids = set()
        for w in r["wf_fail"]:
            wf_ids.add(w["id"])
            ck.violation("wf:" + w["clauses"][0], {"kind": "raw", "case": w["case"], "clauses": w["clauses"]},
                         "module accepted by the real load_module violates clause(s) %s of the common post-load "
                         "guarantees" % ",".join(w["clauses"]))
        bad_ids = set()
        for k_mm, mm in enumerate(r["mismatch"]):
            bad_ids.add(mm["id"])
            if mm["id"] in wf_ids or k_mm >= 4:          # at most 4 reports per shard (the count is in the evidence)
                continue
            ck.unproved("correspondence LoadPost.finish vs load_module",
                        "case %s: %s\nreplay: write the block to a file F and run `c03_inject F /dev/stdout`\n%s" % (
                            mm["id"], mm["detail"], mm["case"][:6000]))
        for fb in r.get("full_bad", []):
            if fb["id"] in wf_ids:
                continue
            if fb["kind"] == "full":
                ck.violation("wf-oblig:" + fb["clauses"][0], {"kind": "raw", "case": fb["case"], "clauses": fb["clauses"]},
                             "raw module meeting every loader obligation (LoaderOblig) is accepted by the real load_module "
                             "but the result violates clause(s) %s of C03 (C03_finish_full fails on the real code)"
                             % ",".join(fb["clauses"]))
            else:
                ck.unproved("correspondence C03_oblig_necessary vs load_module",
                            "case %s: obligation(s) %s broken, real load returns 0 and WF holds on the real dump\n%s" % (
                                fb["id"], ",".join(fb["clauses"]), fb["case"][:6000]))
        agg["full_theorem_instances"] = agg.get("full_theorem_instances", 0) + r.get("full_ok", 0)
        agg["necessity_instances"] = agg.get("necessity_instances", 0) + r.get("necessary_ok", 0)
        agg["injector_mismatches"] = agg.get("injector_mismatches", 0) + len(bad_ids)
        n_corr_ok += r["cases"] - len(bad_ids) if driver else 0
    ck.cov["traces_validated_against_impl"] += n_corr_ok
    ck.note("inject_rc", rcs)
    ck.note("inject_branches", agg)

    wstat = {"loads": 0, "ok_loads": 0, "evaluated": 0, "files": 0, "files_ok": 0, "publicview": 0,
             "oblig_evaluated": 0, "oblig_ok_loads": 0, "fin_ok": 0}
    wrc, wkinds, wwhat = {}, {}, {}
    sid_stat, sid_fmt = {}, {}
    for job, r in zip(wjobs, rwf):
        for d, sdict in ((sid_stat, r["sids"]), (sid_fmt, r["sids_fmt"])):
            for k, v in sdict.items():
                d[k] = d.get(k, 0) + v
        for t in r["sid_samples"]:
            ck.sample({"sid_out_of_range_under_trusting_quirk": t}, limit=6)
        for k in wstat:
            wstat[k] += r[k]
        for d, s in ((wrc, r["rc"]), (wkinds, r["kinds"]), (wwhat, r["what"])):
            for k, v in s.items():
                d[k] = d.get(k, 0) + v
        for key, nt in r["keys"]:
            ck.count("wf:" + key, nontrivial=nt)
        if r["abort"]:
            a = r["abort"]
            ck.violation("wf-abort:" + a["sig"], {"kind": "abort", "last_load": a["last_load"], "stderr": a["stderr"],
                                                  "cmd": ["c03_wf", "run" if job["kind"] == "wf" else "hdr", str(job["seed"]), str(job["nmut"]), "<tmp>"] + job.get("files", [])},
                         "the C03 oracle harness aborted (rc=%d) after `%s`: %s" % (a["rc"], a["last_load"], a["sig"]))
        for f in r["fail"]:
            t = f["tag"]
            ck.violation("wf:%s:%s" % (f["clauses"][0], t.get("fmt", "?")),
                         {"kind": "file", "tag": t, "clauses": f["clauses"], "bytes_hex": emit_bytes(wf, t)},
                         "%s (format %s, mutant seed %s, smpctl %s, via %s, %s) loads with rc 0 but violates clause(s) %s of C03" % (
                             t.get("file"), t.get("fmt"), t.get("mutseed"), t.get("smpctl"), t.get("via"), t.get("what"),
                             ",".join(f["clauses"])))
        failed_tags = set(json.dumps(f["tag"], sort_keys=True) for f in r["fail"])
        for f in r["oblig_fail"]:
            t = f["tag"]
            ck.violation("oblig:%s:%s" % (f["clauses"][0], t.get("fmt", "?")),
                         {"kind": "file", "tag": dict(t, what="load"), "clauses": f["clauses"], "bytes_hex": emit_bytes(wf, t)},
                         "%s (format %s, mutant seed %s, smpctl %s, via %s) loads with rc 0 although its format loader "
                         "left a module that breaks loader obligation(s) %s (LoaderOblig on the raw module; by "
                         "C03_oblig_necessary the loaded module violates C03)" % (
                             t.get("file"), t.get("fmt"), t.get("mutseed"), t.get("smpctl"), t.get("via"),
                             ",".join(f["clauses"])))
        for f in r["fin_bad"]:
            t = dict(f["tag"], what="load")
            if json.dumps(t, sort_keys=True) in failed_tags:
                continue                    # the property itself fails on that load: reported above
            ck.unproved("correspondence LoadPost.finishV vs load_module on a real loader's output",
                        "%s\nfile %s mutant seed %s smpctl %s via %s other %s\nreplay: c03_wf one <file> <mutseed> <smpctl> "
                        "<via> <tmpdir> [<other>] | drv_c03" % (f["detail"], t.get("file"), t.get("mutseed"),
                                                                  t.get("smpctl"), t.get("via"), t.get("other")))
        ck.cov["traces_validated_against_impl"] += r["fin_ok"]
        if r["publicview"]:
            ck.unproved("public view", "xmp_get_module_info does not expose the tables the harness dumps")
    ck.note("player_sidsOK_on_raw_modules", sid_stat)
    ck.note("player_sid_out_of_range_by_format", sid_fmt)
    ck.note("wf_loads", wstat)
    ck.note("wf_rc", wrc)
    ck.note("wf_mutant_kinds", wkinds)
    ck.note("wf_evaluated_by_observation_point", wwhat)
    if driver and wstat["evaluated"] == 0:
        ck.unproved("oracle", "no successful load was evaluated")
    if driver and wstat["oblig_ok_loads"] != wstat["ok_loads"]:
        ck.unproved("oracle", "LoaderOblig was evaluated on the raw module of %d of %d successful loads (the raw-module "
                              "observation point inside load_module was missed)" % (wstat["oblig_ok_loads"], wstat["ok_loads"]))
    ck.sample({"oracle": "WF evaluated on %d dumps of %d successful loads (%d attempts over %d files)" % (
        wstat["evaluated"], wstat["ok_loads"], wstat["loads"], wstat["files"])}, limit=4)
    shutil.rmtree(syn_dir, ignore_errors=True)
    shutil.rmtree(hdr_dir, ignore_errors=True)
    ck.cov["rule"] = ("inject: raw module descriptions generated from VERIF_SEED (every field independently valid/boundary/hostile); "
                      "distinct by hash of the description; non-trivial = the load succeeds AND (a count/limit was clamped OR more "
                      "than one sequence OR a discarded scan). wf: (file, mutant seed, smpctl, entry point) loads returning 0; "
                      "non-trivial = mutants only (intact corpus files are the baseline)")
    ck.assumptions += [
        "injected raw modules satisfy the loaders' allocation contract: tables at least as long as their counts, xxt != NULL when "
        "the gate inspects a pattern, sub != NULL when nsm > 0 without QUIRK_INSVOL, restart >= 0, names NUL-terminated",
        "scan_module is abstract in the model; its marks and return values are taken from a spy on the real scan_module",
        "compare_vblank_scan is exercised through real Protracker loads only (the injector keeps compare_vblank = 0)",
        "header tie: the generated files are valid apart from their header counts; XM sample count, MOD Mod's-Grave and "
        "tracker-identification inputs are parameters of the header models",
    ]
    # ---- sub-checks with their own Lean modules / drivers (tools/c03_core.py: the four core loaders' bodies, C03 x C19) ----
    import importlib.util
    for sub in ("c03_core",):
        if importlib.util.find_spec(sub) is not None:
            importlib.import_module(sub).run(ck)


def replay(ck, rp):
    inj, wf = harnesses()
    r = rp["replay"]
    os.makedirs(WORK, exist_ok=True)
    drv = vlib.lean_driver("drv_c03")
    if isinstance(r, dict) and r.get("kind") == "raw":
        p = os.path.join(WORK, "replay.cases")
        open(p, "w").write(r["case"].replace("id=X", "id=0"))
        rc, out, err = vlib.run_exe(inj, [p, os.path.join(WORK, "replay.min")])
        text = out.decode()
        print(text[-3000:])
        print(err[-3000:])
        bad = rc != 0
        blocks = parse_blocks(text, "out")
        for cid, lines in blocks.items():
            if lines and lines[0] == "rc 0" and os.path.exists(drv):
                wfin = "begin wf id=%s what=load\n%s\nend\n" % (cid, "\n".join(l for l in lines[1:] if not l.startswith("trace")))
                for l in vlib.run_driver("drv_c03", wfin):
                    print(l[:300])
                    if l.startswith("wf FAIL") and set(l.split(" ")[2].split(",")) & COMMON_CLAUSES:
                        bad = True
        if bad:
            print("VIOLATION property=C03 replay=%s" % p)
        return 1 if bad else 0
    if isinstance(r, dict) and r.get("kind") == "file":
        t = r["tag"]
        tmpd = os.path.join(WORK, "replay.tmp")
        os.makedirs(tmpd, exist_ok=True)
        via = str(["mem", "path", "file", "cb"].index(t.get("via", "mem")))
        fpath, mutseed, other = t["file"], t["mutseed"], t.get("other", "-")
        hx = r.get("bytes_hex") or ""
        if hx and hx != "-" and len(hx) < 4000000:
            # the recorded bytes themselves, under the original file name
            d = os.path.join(WORK, "replay.file")
            os.makedirs(d, exist_ok=True)
            fpath, mutseed, other = os.path.join(d, os.path.basename(t["file"])), "0", "-"
            open(fpath, "wb").write(bytes.fromhex(hx))
        rc, out, err = vlib.run_exe(wf, ["one", fpath, mutseed, t["smpctl"], via, tmpd, other])
        print(err[-2000:])
        bad = rc != 0
        if os.path.exists(drv):
            for l in vlib.run_driver("drv_c03", out.decode("latin-1")):
                print(l[:300])
                bad = bad or l.startswith(("wf FAIL", "oblig FAIL"))
        if bad:
            print("VIOLATION property=C03 replay=%s" % t["file"])
        return 1 if bad else 0
    if isinstance(r, dict) and r.get("kind") == "mt":
        d = os.path.join(WORK, "replay.mt")
        os.makedirs(d, exist_ok=True)
        fa, fb = os.path.join(d, "a-" + os.path.basename(r["file"])), os.path.join(d, "b-" + os.path.basename(r["other"]))
        open(fa, "wb").write(bytes.fromhex(r["file_hex"]))
        open(fb, "wb").write(bytes.fromhex(r["other_hex"]))
        rc, out, err = vlib.run_exe(wf, ["mt", "400", "1", fa, fb])
        text = out.decode("latin-1")
        print(text[-2000:])
        bad = rc != 0 or any(l.startswith("mt file=") and (" mismatch=0 " not in l or " badrc=0 " not in l) for l in text.splitlines())
        if bad:
            print("VIOLATION property=C03 replay=%s + %s (concurrent loads)" % (fa, fb))
        return 1 if bad else 0
    print(json.dumps(r, indent=1)[:4000])
    print("this replay names a broken theorem / correspondence or a harness abort; re-run: python3 tools/check.py C03")
    return 1


if __name__ == "__main__":
    job = json.load(open(sys.argv[1]))
    res = inject_worker(job) if job["kind"] == "inject" else mt_worker(job) if job["kind"] == "mt" else wf_worker(job)   # wf, hdr
    sys.stdout.write(json.dumps(res))
